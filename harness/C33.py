"""C33 - DRAW moves the pen exactly as its commands specify.

Cases are structured: concrete-syntax tokens (the printer grammar of theories/model/Draw.v `ccmd`, plus array
elements and VARPTR$ references as numbers / X strings) for the DRAW strings and for the string variables used by
X, plus a malformed stream of raw strings.  The strings are rendered when the case is run (VARPTR$ bytes are only
known then), so every shrunk case stays self-consistent.  A second kind of case checks the model of the double
operations of the quarter turns against the host's doubles.

implementation adapter: a real Session (video=vga) in SCREEN 1/2/7/8/9 (or 0), `DRAW Z9$` statements with
Graphics._draw_line and Graphics._flood_fill wrapped to record their calls; after every statement: error number,
_draw_current, _last_point, scale, angle, colour, POINT(0), POINT(1), recorded requests.
model: draw_groups (parse + draw) from the Graphics state observed before each group of DRAW statements; what each
flood fill found (seed outside the viewport / on the border colour / filled) is an input of the model.
oracle (no Coq): a reference interpreter of the *tokens* (not of the text; exact rational arithmetic for the
quarter turns) gives the expected pen, requests, scale, colour, angle and error; POINT(0)/POINT(1) must be the
pen; the pixel buffer must equal that of a second Session in which every expected request is issued as a LINE or
PAINT statement.
"""
import logging
import math
import struct
from fractions import Fraction

from vlib import core
from harness import common

RESERVED = 'Z9$'          # the variable that carries the DRAW string
SCRATCH = 'Z8$'
MODES = {0: (0, 0, 0), 1: (320, 200, 4), 2: (640, 200, 2), 7: (320, 200, 16), 8: (640, 200, 16), 9: (640, 350, 16)}
UNIT = {'U': (0, -1), 'D': (0, 1), 'L': (-1, 0), 'R': (1, 0), 'E': (1, -1), 'F': (1, 1), 'G': (-1, 1), 'H': (-1, -1)}
MAX_DEPTH = 32            # MAX_DRAW_DEPTH of the implementation (the model takes it from gen/Gen_draw.v)
RIGHT_ANGLES = (0, 90, 180, 270, 360)
NOPTR = '\x02\x00\x00'


class ExcludedByModel(Exception):
    """Raised inside the implementation where the model's domain ends."""


class RefError(Exception):
    def __init__(self, err):
        Exception.__init__(self, err)
        self.err = err


class RefUnknown(Exception):
    """The reference interpreter cannot know the meaning (raw text involved, or outside the property)."""


# ---------------------------------------------------------------------------------------------------
# rendering of concrete tokens (the harness printer)

def r_idx(i):
    return ' ' * i[1] + str(i[2]) + ' ' * i[3]


def r_num(n, ptrs):
    k = n[0]
    if k == 'lit':
        _, pre, sg, ds = n
        return ' ' * pre + sg + ''.join(str(d) + ' ' * g for d, g in ds)
    if k == 'var':
        _, pre, sg, b1, name, b2 = n
        return ' ' * pre + sg + '=' + ' ' * b1 + name + ' ' * b2 + ';'
    if k == 'arr':
        _, pre, sg, b1, name, br, idxs, brc, b2 = n
        return ' ' * pre + sg + '=' + ' ' * b1 + name + br + ','.join(r_idx(i) for i in idxs) + brc + ' ' * b2 + ';'
    if k == 'ptr':
        _, pre, sg, name = n
        return ' ' * pre + sg + '=' + ptrs.get(name.upper(), NOPTR)
    raise ValueError('bad number %r' % (n,))


def r_letter(pre, low, c):
    return ' ' * pre + (c.lower() if low else c)


def r_opt(n, b, ptrs):
    return r_num(n, ptrs) if n is not None else ' ' * b + ';'


def render(tokens, ptrs):
    out = []
    for t in tokens:
        k = t[0]
        if k == 'semi':
            out.append(' ' * t[1] + ';')
        elif k in ('B', 'N'):
            out.append(r_letter(t[1], t[2], k))
        elif k == 'mv':
            out.append(r_letter(t[1], t[2], t[3]) + (r_num(t[4], ptrs) if t[4] is not None else ''))
        elif k == 'M':
            out.append(r_letter(t[1], t[2], 'M') + r_num(t[4], ptrs) + ' ' * t[5] + ',' + r_num(t[6], ptrs))
        elif k == 'P':
            out.append(r_letter(t[1], t[2], 'P') + r_num(t[3], ptrs) + ' ' * t[4] + ',' + r_num(t[5], ptrs))
        elif k == 'S':
            out.append(r_letter(t[1], t[2], 'S') + r_num(t[3], ptrs))
        elif k in ('C', 'A'):
            out.append(r_letter(t[1], t[2], k) + r_opt(t[3], t[4], ptrs))
        elif k == 'TA':
            out.append(r_letter(t[1], t[2], 'T') + ('a' if t[3] else 'A') + r_opt(t[4], t[5], ptrs))
        elif k == 'X':
            out.append(r_letter(t[1], t[2], 'X') + ' ' * t[3] + t[4] + ' ' * t[5] + ';')
        elif k == 'Xa':
            _, pre, low, b1, name, br, idxs, brc, b2 = t
            out.append(r_letter(pre, low, 'X') + ' ' * b1 + name + br + ','.join(r_idx(i) for i in idxs) + brc
                       + ' ' * b2 + ';')
        elif k == 'Xp':
            out.append(r_letter(t[1], t[2], 'X') + ' ' * t[3] + ptrs.get(t[4].upper(), NOPTR))
        else:
            raise ValueError('bad token %r' % (t,))
    return ''.join(out)


def text_of(src, ptrs=None):
    """A DRAW string source is {'c': tokens} or {'raw': text}."""
    return render(src['c'], ptrs or {}) if 'c' in src else src['raw']


# ---------------------------------------------------------------------------------------------------
# reference interpreter of the tokens (oracle side; independent of the Coq model and of the text)

def keys_of(name):
    """The names under which a variable can be written: unsuffixed = single precision."""
    key = name.upper()
    if key.endswith('!'):
        return [key, key[:-1]]
    if key[-1] not in '#!%$':
        return [key, key + '!']
    return [key]


def var_tables(case):
    """scalars: NAME -> ('n', int) | ('s', src); arrays: NAME -> (dims, {idx tuple: ('n', int) | ('s', src)})."""
    scal, arrs = {}, {}
    for name, kind, val in case['vars']:
        if kind == 'a':
            cells = {}
            for idx, v in val['cells']:
                cells[tuple(idx)] = ('s', v) if name.endswith('$') else ('n', int(v))
            for k in keys_of(name):
                arrs[k] = (list(val['dims']), cells)
        else:
            ent = ('s', val) if kind == '$' else ('n', int(val))
            for k in keys_of(name):
                scal[k] = ent
    return scal, arrs


def trunc4(a):
    """a/4 truncated toward zero, integers only."""
    q = abs(a) // 4
    return q if a >= 0 else -q


def quarter(x, y, yfac, ang):
    """The quarter turns of _draw_step in exact rational arithmetic on the double yfac:
    int(y*yfac) is the correctly rounded product truncated, x//yfac is the exact floor of the quotient."""
    fy = Fraction(yfac)
    prod = float(Fraction(y) * fy)          # float(Fraction) rounds correctly
    a = int(prod)                           # truncation toward zero
    b = math.floor(Fraction(x) / fy)
    return (a, -b) if ang == 90 else (-a, b)


class Ref(object):
    def __init__(self, tabs, g0, outcomes):
        self.scal, self.arrs = tabs
        self.pen = tuple(g0['cur'] if g0['cur'] is not None else g0['last'])
        self.scale, self.angle, self.attr, self.nattr = g0['scale'], g0['angle'], g0['attr'], g0['nattr']
        self.yfac = float(g0['aspect'][1]) / float(g0['aspect'][0]) if g0['aspect'][0] else 1.0
        self.window = g0['window']
        self.outcomes = list(outcomes)
        self.reqs = []

    def scalar(self, name):
        ent = self.scal.get(name.upper())
        if ent is None:
            ent = ('s', {'c': []}) if name.endswith('$') else ('n', 0)
        return ent

    def element(self, name, idxs):
        vals = []
        for i in idxs:
            if i[0] == 'n':
                vals.append(int(i[2]))
            else:
                ent = self.scalar(i[2])
                if ent[0] != 'n':
                    raise RefError(13)
                vals.append(ent[1])
        dims, cells = self.arrs.get(name.upper(), ([10] * len(vals), {}))
        if len(vals) != len(dims):
            raise RefError(9)
        for v, d in zip(vals, dims):
            if v < 0:
                raise RefError(5)
            if v > d:
                raise RefError(9)
        ent = cells.get(tuple(vals))
        if ent is None:
            ent = ('s', {'c': []}) if name.endswith('$') else ('n', 0)
        return ent

    def num(self, n):
        if n[0] == 'lit':
            v = int(''.join(str(d) for d, _ in n[3]))
            return -v if n[2] == '-' else v
        if n[0] == 'arr':
            ent = self.element(n[4], n[6])
        else:
            ent = self.scalar(n[4] if n[0] == 'var' else n[3])
        if ent[0] != 'n':
            raise RefError(13)
        return -ent[1] if n[2] == '-' else ent[1]

    @staticmethod
    def check(lo, hi, v):
        if not lo <= v <= hi:
            raise RefError(5)

    def clamp(self, n):
        return 0 if n < 0 else (self.nattr - 1 if n >= self.nattr else n)

    def move(self, absolute, vx, vy, plot, back):
        x0, y0 = self.pen
        if absolute:
            x1, y1 = vx, vy
        else:
            dx, dy = trunc4(self.scale * vx), trunc4(self.scale * vy)
            if self.angle == 180:
                dx, dy = -dx, -dy
            elif self.angle in (90, 270):
                dx, dy = quarter(dx, dy, self.yfac, self.angle)
            elif self.angle not in (0, 360):
                raise RefUnknown()
            x1, y1 = x0 + dx, y0 + dy
        if plot:
            self.reqs.append((0, x0, y0, x1, y1, self.attr))
        if not back:
            self.pen = (x1, y1)

    def sub(self, ent, depth):
        if ent[0] != 's':
            raise RefError(13)
        if 'c' not in ent[1]:
            raise RefUnknown()
        if depth >= MAX_DEPTH:
            raise RefError(7)
        self.run(ent[1]['c'], depth + 1)

    def run(self, tokens, depth=0):
        plot, back = True, False
        for t in tokens:
            k = t[0]
            if k == 'semi':
                pass
            elif k == 'B':
                plot = False
            elif k == 'N':
                back = True
            elif k == 'mv':
                n = 1 if t[4] is None else self.num(t[4])
                self.check(-99999, 99999, n)
                ux, uy = UNIT[t[3]]
                self.move(False, n * ux, n * uy, plot, back)
                plot, back = True, False
            elif k == 'M':
                x = self.num(t[4])
                self.check(-9999, 9999, x)
                y = self.num(t[6])
                self.check(-9999, 9999, y)
                self.move(not t[3], x, y, plot, back)
                plot, back = True, False
            elif k == 'P':
                f = self.num(t[3])
                self.check(0, 9999, f)
                b = self.num(t[5])
                self.check(0, 9999, b)
                if self.window:
                    raise RefUnknown()
                if not all(-32768 <= v <= 32767 for v in self.pen):
                    raise RefError(6)
                if not self.outcomes:
                    raise RefUnknown()
                o = self.outcomes.pop(0)
                self.reqs.append((1, self.pen[0], self.pen[1], self.clamp(f), self.clamp(b), 0))
                if o == 2:
                    self.attr = self.clamp(f)
            elif k == 'S':
                n = self.num(t[3])
                self.check(1, 255, n)
                self.scale = n
            elif k == 'C':
                n = 0 if t[3] is None else self.num(t[3])
                self.check(-99999, 99999, n)
                self.attr = self.clamp(n)
            elif k == 'A':
                n = 0 if t[3] is None else self.num(t[3])
                self.check(0, 3, n)
                self.angle = 90 * n
            elif k == 'TA':
                n = 0 if t[4] is None else self.num(t[4])
                self.check(-360, 360, n)
                self.angle = n
            elif k in ('X', 'Xp'):
                self.sub(self.scalar(t[4]), depth)
            elif k == 'Xa':
                self.sub(self.element(t[4], t[6]), depth)


# ---------------------------------------------------------------------------------------------------
# Coq literals

def zbytes(s):
    """A byte string as a Coq term (a string literal when it is plain printable ASCII)."""
    if all(32 <= ord(ch) < 127 and ch != '"' for ch in s):
        return '(bs "%s"%%string)' % s
    return core.zl([ord(ch) for ch in s])


def zint(v):
    return '(%d)' % v if v < 0 else '%d' % v


def coq_pt(p):
    return '(%s, %s)' % (zint(p[0]), zint(p[1]))


def coq_gstate(g, outcomes):
    cur = 'None' if g['cur'] is None else '(Some %s)' % coq_pt(g['cur'])
    return '(mkG %s %s %s %s %s %s %s %s %s %s)' % (
        cur, coq_pt(g['last']), 'true' if g['window'] else 'false', zint(g['scale']), zint(g['angle']),
        zint(g['attr']), 'true' if g['text'] else 'false', zint(g['nattr']), coq_pt(g['aspect']), core.zl(outcomes))


class C33(core.Check):
    ID = 'C33'
    GEN = ['gen_draw']
    PROPS = 'props/C33.v'
    MODEL_IMPORTS = ['gen.Gen_draw', 'model.Draw', 'model.DrawStr']
    QUICK_CASES = 400
    THOROUGH_CASES = 5000
    TRUSTED = ['hand model model/Draw.v of Graphics.draw_/_draw/_draw_step and of the MLParser/CodeStream reader '
               '(its direction table, scale*d quot 4 step, rotation tests, range limits, colour clamps, X nesting '
               'limit, error numbers and character classes are regenerated by gen_draw on every run; the 90/270 '
               'degree branches and the yfac computation are pinned textually), tied by correspondence on real '
               'Sessions; translator idiom int(math.trunc(E / 4.)) -> Z.quot E 4 (exact for |E| < 2^53, proved '
               'for the admitted ranges); integer model of the double operations of the quarter turns '
               '(fdiv, mul_trunc, floor_div) tied by correspondence with the host doubles; "same line as LINE": '
               'DRAW and LINE call the same Graphics._draw_line (a segment of the model is the argument tuple of '
               'that call), checked on pixels by the oracle',
               'POINT(0)/POINT(1) wrap the pen coordinate in a Single: compared exactly for |v| <= 2^24',
               'what a flood fill of P finds at its seed (outside the viewport / border colour / fills) is an '
               'input of the model']
    PARTIAL = ('TA angles other than 0/90/180/270/360 (sin/cos in floating point; excluded by the property), P while a '
               'WINDOW is active and array elements indexed by array elements are outside the model; the pen '
               'theorems are for strings without P (P has its own request theorem); array elements and VARPTR$ '
               'references are in the model and the correspondence but not in the printer-reader theorem')
    RULE = ('structured DRAW strings (moves with/without counts, S, C, B/N, absolute/relative M, A 0-3, TA multiples '
            'of 90, P, X substrings incl. self-recursive ones, =var; / =array(i,j); / VARPTR$ references, blanks, lower '
            'case, signs, leading zeros, spaced digits, omitted counts, range errors) and a malformed stream '
            '(character-level mutations), in SCREEN 0/1/2/7/8/9 with PSET/LINE/VIEW/WINDOW pre-statements; several '
            'DRAW statements per case; plus direct cases for the double operations; non-trivial = at least one move '
            'executed without error; distinct by hash of (case, output)')
    histogram = None

    # ---------------------------------------------------------------------------------------------
    # cases

    def corpus(self):
        L = lambda v, pre=0: ['lit', pre, '-' if v < 0 else '', [[int(ch), 0] for ch in str(abs(v))]]
        mv = lambda d, v=None, low=False: ['mv', 0, low, d, None if v is None else L(v)]
        std = [['A%', '%', 7], ['B', '!', 4], ['C$', '$', {'raw': 'U1'}]]
        raw = lambda *ss: {'mode': 1, 'vars': std, 'groups': [{'pre': [], 'draws': [{'raw': s} for s in ss]}]}
        in_mode = lambda m, *ss: {'mode': m, 'vars': [], 'groups': [{'pre': [], 'draws': [{'raw': s} for s in ss]}]}
        arr = [['AR%', 'a', {'dims': [5], 'cells': [[[2], 7]]}], ['I%', '%', 2], ['B$', '$', {'raw': 'x'}],
               ['SA$', 'a', {'dims': [3], 'cells': [[[1], {'raw': 'U3 R2'}]]}], ['S$', '$', {'raw': 'U3'}]]
        with_arr = lambda *ss: {'mode': 9, 'vars': arr, 'groups': [{'pre': [], 'draws': [{'raw': s} for s in ss]}]}
        ptr = lambda name: ['ptr', 0, '', name]
        return [
            raw('U5'), raw('U- 5'), raw('U 1 0 '), raw('S255 R99999 R99999 R99999'),
            raw('R=A%; D=B; XC$;'), raw('R=Z'), raw('R=C$;'), raw('XA%;'), raw('X'), raw('U='), raw('U=;'),
            raw('U100000'), raw('S0'), raw('S256'), raw('M+10000,0'), raw('M 5 , 6'), raw('M5,-6'),
            raw('BNM-5,6'), raw('C;'), raw('C'), raw('C1'), raw('R=b ;'), raw('R= b;'), raw('R=b'), raw('R=1;'),
            raw('U+=A%;'), raw('U-=A%;'), raw('U=-A%;'), raw('M10000,=C$;'), raw('XC$'), raw('XA%'),
            raw('TA180 U5 R3', 'U2', 'TA360 D1', 'A2 L4 A;'), raw('T A0'), raw('ta;u'), raw('BXC$;U5'),
            raw('NU5 D2', 'S8 E3', 'F'), raw('M+1,'), raw('M1'), raw('M,1'), raw(''), raw(';;; ;'),
            raw('C3 S4 BM10,10 R5 D5 L5 U5'), raw('Q'), raw('U5 ?'),
            # D33a: colours outside the attributes of the mode (were: ValueError / invalid pixel value)
            raw('C256 U5'), raw('C-1 U5'), raw('C4 U5'), raw('C99999 R3', 'D2'), raw('C=A%; F3'),
            # quarter turns in every aspect ratio (1.2, 2.4, 48/35)
            in_mode(1, 'A1 R10 U10 F7', 'A3 R10 U10 H35', 'TA90 M+35,-48', 'TA270 NM-7,5 A0'),
            in_mode(2, 'A1 R10 U10 F7 S255 E99999', 'TA270 L35 D5 G12'),
            in_mode(9, 'A1 R35 U48 F7 R5 U6', 'A3 R35 U48 H35 S63 NE4321', 'TA-90 F7', 'TA45 U1'),
            in_mode(7, 'TA90', 'U5 TA0 U5'),
            # P: flood fill requests
            in_mode(1, 'C3 BM10,10 R20 D20 L20 U20 BF5 P2,3 U2', 'P1,3', 'BM9000,10 P1,2 U1', 'P10000,1', 'P1;2',
                    'P1', 'BNP1,2 U5'),
            in_mode(9, 'BM+9999,0 BM+9999,0 BM+9999,0 BM+9999,0 P1,2', 'P 1 , 2R3'),
            {'mode': 7, 'vars': [], 'groups': [{'pre': ['WINDOW (0,0)-(100,100)'], 'draws': [{'raw': 'U5 P1,2 U5'}]}]},
            # D33b: a string that executes itself (was: RecursionError)
            {'mode': 1, 'vars': [['A$', '$', {'raw': 'U2XA$;R9'}]], 'groups': [{'pre': [], 'draws': [{'raw': 'XA$;'}, {'raw': 'D3'}]}]},
            {'mode': 1, 'vars': [['A$', '$', {'raw': 'R1 XB$;'}], ['B$', '$', {'raw': 'D1 xa$;'}]],
             'groups': [{'pre': [], 'draws': [{'raw': 'C2 XB$;U50'}]}]},
            # arrays and VARPTR$ (D33c: string as index was AttributeError; D33d: unknown type byte was KeyError)
            with_arr('R=AR%(2);', 'R=AR%( 2 ) ;', 'R=AR%[2];', 'R=AR%(6);', 'R=AR%(B$);', 'R=AR%(1,1);', 'R=Q(3);',
                     'R=Q(11);', 'R=AR%(2;', 'R=AR%(2', 'R=AR%(2,', 'R=AR%(,', 'R=AR%(I%);',
                     'XSA$(1);', 'XSA$(2);', 'XSA$(4);', 'XAR%(2);', 'D=SA$(1);', 'R=AR%(2]D1'),
            with_arr('R=\x01\xff\xff', 'R=\x00\xff\xff', 'R=\x05\xff\xffU1', 'R=\x02\xff\xffU1', 'R=\x03\xff\xff',
                     'X\x03\xff\xffU1', 'X\x02\xff\xff', 'R=\x02a', 'X\x03', 'R=\x08\xff\xffD2', 'X\x07\xff\xff'),
            {'mode': 9, 'vars': arr, 'groups': [{'pre': [], 'draws': [
                {'c': [['mv', 0, False, 'R', ptr('I%')], ['semi', 0], ['mv', 0, False, 'D', ['ptr', 1, '-', 'I%']],
                       ['Xp', 0, False, 1, 'S$'], mv('L', 1), ['M', 0, False, True, ['ptr', 0, '+', 'I%'], 0, ptr('B$')]]}]}]},
            {'mode': 0, 'vars': [], 'groups': [{'pre': [], 'draws': [{'raw': 'U5'}]}]},
            {'mode': 9, 'vars': [], 'groups': [{'pre': ['WINDOW (0,0)-(100,100)'], 'draws': [{'raw': 'U5 R7'}]},
                                               {'pre': ['PSET (3,3)'], 'draws': [{'raw': 'D2'}, {'raw': 'NR4'}]}]},
            # the DRAW pointer across statements, after an error, and across WINDOW on / off
            {'mode': 9, 'vars': [], 'groups': [
                {'pre': ['WINDOW (0,0)-(100,100)'], 'draws': [{'raw': 'S8 A1 C2 U5 R7'}, {'raw': 'BN D3 U100000'}]},
                {'pre': ['WINDOW'], 'draws': [{'raw': 'D2'}, {'raw': 'NR4 Q'}]},
                {'pre': ['WINDOW SCREEN (0,0)-(50,50)'], 'draws': [{'raw': 'E3'}]},
                {'pre': ['WINDOW', 'LINE -(10,10)'], 'draws': [{'raw': 'F2'}]}]},
            {'mode': 7, 'vars': [], 'groups': [{'pre': ['VIEW (10,10)-(100,100)'], 'draws': [{'raw': 'BM0,0 F20 BH3 P1,15'}]}]},
            {'mode': 1, 'vars': [['S$', '$', {'c': [mv('U', 3), ['B', 0, False]]}]],
             'groups': [{'pre': [], 'draws': [{'c': [['N', 0, False], ['X', 0, False, 0, 'S$', 0], mv('R', 4)]}]}]},
            {'mode': 2, 'vars': [], 'groups': [{'pre': [], 'draws': [{'c': [mv('E'), mv('F', 0), mv('G', -3), mv('H', 99999)]}]}]},
            {'k': 'fl', 'a0': 800, 'a1': 960, 'v': 5}, {'k': 'fl', 'a0': 1400, 'a1': 1920, 'v': 35},
            {'k': 'fl', 'a0': 1400, 'a1': 1920, 'v': -6374936}, {'k': 'fl', 'a0': 3, 'a1': 1, 'v': 3},
            {'k': 'fl', 'a0': 1, 'a1': 1, 'v': 0}, {'k': 'fl', 'a0': 4999, 'a1': 1, 'v': 1099511627775},
        ]

    # number layouts
    def g_lit(self, v, force_sign=False, no_sign=False):
        rng = self.rng
        sg = '-' if v < 0 else ('+' if (force_sign or (not no_sign and rng.random() < 0.12)) else '')
        digits = [int(ch) for ch in str(abs(v))]
        if rng.random() < 0.1:
            digits = [0] * rng.randrange(1, 3) + digits
        gaps = rng.random() < 0.08
        ds = [[d, rng.randrange(0, 3) if gaps else 0] for d in digits]
        return ['lit', self.g_blank(), sg, ds]

    def g_blank(self):
        r = self.rng.random()
        return 0 if r < 0.75 else 1 if r < 0.93 else 2

    def g_low(self):
        return self.rng.random() < 0.2

    def g_idx(self, v, ctx):
        """An index written as a literal or through a scalar holding v."""
        rng = self.rng
        same = [n for n, val in ctx['nums'] if val == v]
        if same and rng.random() < 0.4:
            return ['v', self.g_blank(), self.g_case(rng.choice(same)), self.g_blank()]
        return ['n', self.g_blank(), '%s%d' % ('0' if rng.random() < 0.1 else '', v), self.g_blank()]

    def g_ref(self, sg, refs, ctx):
        """One of the ways to refer to a numeric variable/element: ('s', name) | ('a', name, idx)."""
        rng = self.rng
        ref = rng.choice(refs)
        if ref[0] == 'a':
            br = rng.choice(['(', '('])
            brc = ')' if rng.random() < 0.8 else ']'
            if rng.random() < 0.2:
                br = '['
            return ['arr', self.g_blank(), sg, self.g_blank(), self.g_case(ref[1]), br,
                    [self.g_idx(i, ctx) for i in ref[2]], brc, self.g_blank()]
        if ref[1].upper() in ctx['ptr_ok'] and rng.random() < 0.3:
            return ['ptr', self.g_blank(), sg, ref[1]]
        return ['var', self.g_blank(), sg, self.g_blank(), self.g_case(ref[1]), self.g_blank()]

    def g_num(self, v, ctx, force_sign=False, no_sign=False):
        """Write v: sometimes through a variable / array element / VARPTR$ reference that holds v or -v.
        force_sign: a sign must be written (x of a relative M); no_sign: none may be (x of an absolute M)."""
        rng = self.rng
        same = ctx['by_value'].get(v, [])
        neg = ctx['by_value'].get(-v, []) if v != 0 else []
        if rng.random() < 0.4:
            if same and (not neg or no_sign or rng.random() < 0.7):
                return self.g_ref('+' if force_sign else ('' if no_sign else rng.choice(['', '', '+'])), same, ctx)
            if neg and not no_sign:
                return self.g_ref('-', neg, ctx)
        if no_sign and v < 0:
            # an absolute M with negative x can only be written through a variable
            return self.g_ref('', same, ctx) if same else None
        return self.g_lit(v, force_sign, no_sign)

    def g_case(self, name):
        return name.lower() if self.rng.random() < 0.25 else name

    COUNT_POOL = [0, 1, 1, 2, 3, 4, 5, 7, 10, 12, 20, 33, 35, 48, 50, 64, 100, 160, 319, 640, 1000, 32767, 32768, 99999,
                  -1, -2, -5, -10, -35, -50, -99999]
    SCALE_POOL = [1, 2, 3, 4, 4, 5, 6, 7, 8, 9, 12, 16, 25, 100, 127, 128, 254, 255]
    COORD_POOL = [0, 1, 2, 5, 10, 35, 48, 50, 100, 159, 160, 199, 200, 319, 320, 349, 350, 639, 640, 1000, 9999,
                  -1, -2, -10, -35, -100, -9999]

    def g_tokens(self, ctx, strs, mode, n, allow_err, hist):
        """n concrete tokens; strs = ways to refer to string variables usable by X."""
        rng = self.rng
        nattr = MODES[mode][2] or 16
        nums = ctx['nums']
        toks = []
        for _ in range(n):
            r = rng.random()
            pre, low = self.g_blank(), self.g_low()
            err = allow_err and rng.random() < 0.02
            if r < 0.05:
                toks.append(['semi', pre]); hist['semi'] += 1
            elif r < 0.12:
                toks.append(['B', pre, low]); hist['B'] += 1
            elif r < 0.18:
                toks.append(['N', pre, low]); hist['N'] += 1
            elif r < 0.54:
                d = rng.choice('UDLREFGH')
                if err:
                    v = rng.choice([100000, -100000, 123456, 1000000])
                elif nums and rng.random() < 0.25:
                    v = rng.choice(list(ctx['by_value']))
                    if abs(v) > 99999:
                        v = 3
                elif rng.random() < 0.6:
                    v = rng.randrange(0, 40)
                else:
                    v = rng.choice(self.COUNT_POOL)
                if v == 1 and rng.random() < 0.6:
                    toks.append(['mv', pre, low, d, None])
                else:
                    toks.append(['mv', pre, low, d, self.g_num(v, ctx)])
                hist['move'] += 1
            elif r < 0.67:
                rel = rng.random() < 0.55
                pick = lambda: rng.choice(self.COORD_POOL) if rng.random() < 0.5 else rng.randrange(-40, 360)
                x, y = pick(), pick()
                if err:
                    if rng.random() < 0.5:
                        x = rng.choice([10000, -10000, 99999])
                    else:
                        y = rng.choice([10000, -10000, 99999])
                nx = self.g_num(x, ctx, force_sign=True) if rel else self.g_num(x, ctx, no_sign=True)
                if nx is None:
                    x = -x
                    nx = self.g_num(x, ctx, no_sign=True)
                toks.append(['M', pre, low, rel, nx, self.g_blank(), self.g_num(y, ctx)])
                hist['Mrel' if rel else 'Mabs'] += 1
            elif r < 0.74:
                v = rng.choice([0, 256, 1000, -1]) if err else \
                    (rng.choice(self.SCALE_POOL) if rng.random() < 0.7 else rng.randrange(1, 256))
                toks.append(['S', pre, low, self.g_num(v, ctx)]); hist['S'] += 1
            elif r < 0.81:
                if err:
                    v = rng.choice([100000, -100000])
                elif rng.random() < 0.7:
                    v = rng.randrange(0, nattr)
                else:
                    # outside the attributes of the mode: clamped (D33a)
                    v = rng.choice([nattr, nattr + 1, 4, 16, 17, 255, 256, 257, 1000, 32767, 32768, 99999,
                                    -1, -2, -255, -256, -99999, rng.randrange(-300, 300)])
                if v == 0 and rng.random() < 0.5:
                    toks.append(['C', pre, low, None, self.g_blank()])
                else:
                    toks.append(['C', pre, low, self.g_num(v, ctx), 0])
                hist['C'] += 1
            elif r < 0.89:
                if rng.random() < 0.5:
                    v = rng.choice([4, -1, 7]) if err else rng.choice([0, 1, 2, 3])
                    tok = ['A', pre, low, None if (v == 0 and rng.random() < 0.4) else self.g_num(v, ctx), self.g_blank()]
                else:
                    v = rng.choice([361, -361, 1000]) if err else rng.choice([0, 90, 180, 270, 360])
                    tok = ['TA', pre, low, self.g_low(), None if (v == 0 and rng.random() < 0.4) else self.g_num(v, ctx),
                           self.g_blank()]
                toks.append(tok); hist['angle'] += 1
            elif r < 0.915:
                f = rng.choice([10000, -1]) if err else rng.choice([0, 1, 2, 3, nattr - 1, nattr, 15, 16, 255, 9999])
                b = rng.choice([0, 1, 2, 3, nattr - 1, nattr, 15, 9999])
                toks.append(['P', pre, low, self.g_num(f, ctx), self.g_blank(), self.g_num(b, ctx)]); hist['P'] += 1
            elif strs:
                ref = rng.choice(strs)
                if ref[0] == 'a':
                    toks.append(['Xa', pre, low, self.g_blank(), self.g_case(ref[1]), '(',
                                 [self.g_idx(i, ctx) for i in ref[2]], rng.choice([')', ')', ']']), self.g_blank()])
                elif ref[1].upper() in ctx['ptr_ok'] and rng.random() < 0.25:
                    toks.append(['Xp', pre, low, self.g_blank(), ref[1]])
                else:
                    toks.append(['X', pre, low, self.g_blank(), self.g_case(ref[1]), self.g_blank()])
                hist['X'] += 1
            else:
                toks.append(['mv', pre, low, rng.choice('UDLREFGH'), None]); hist['move'] += 1
        return toks

    RAW_ALPHABET = 'UDLRMBNSCXEFGHPudlrmbnsxp;;=+-,, 0123456789%$!.AT?'

    def g_mutate(self, text):
        rng = self.rng
        s = list(text)
        for _ in range(rng.randrange(1, 4)):
            r = rng.random()
            pos = rng.randrange(0, len(s) + 1)
            if r < 0.4 and s:
                del s[min(pos, len(s) - 1)]
            elif r < 0.8:
                s.insert(pos, rng.choice(self.RAW_ALPHABET))
            elif s:
                s[min(pos, len(s) - 1)] = rng.choice(self.RAW_ALPHABET)
        return ''.join(s)

    def g_pre(self, mode):
        rng = self.rng
        w, h, _ = MODES[mode]
        r = rng.random()
        px = lambda: rng.randrange(0, w)
        py = lambda: rng.randrange(0, h)
        if r < 0.55:
            return []
        if r < 0.7:
            return ['PSET (%d,%d)' % (px(), py())]
        if r < 0.78:
            return ['LINE (%d,%d)-(%d,%d),%d' % (px(), py(), px(), py(), rng.randrange(0, 4))]
        if r < 0.86:
            x0, y0 = rng.randrange(0, w // 2), rng.randrange(0, h // 2)
            return ['VIEW%s (%d,%d)-(%d,%d)' % (rng.choice(['', ' SCREEN']), x0, y0,
                                              rng.randrange(x0 + 1, w), rng.randrange(y0 + 1, h))]
        if r < 0.95:
            return ['WINDOW%s (%d,%d)-(%d,%d)' % (rng.choice(['', ' SCREEN']), rng.randrange(-50, 50),
                                                rng.randrange(-50, 50), rng.randrange(60, 500), rng.randrange(60, 500))]
        if r < 0.985:
            return ['WINDOW']
        return ['WINDOW (0,0)-(100,100)', 'PSET (50,50)', 'WINDOW']

    def gen_cases(self, n):
        rng = self.rng
        hist = dict.fromkeys(['semi', 'B', 'N', 'move', 'Mrel', 'Mabs', 'S', 'C', 'angle', 'P', 'X', 'raw_strings',
                              'structured_strings', 'text_mode', 'with_error_token', 'long', 'self_recursive',
                              'double_ops'], 0)
        out = []
        for i in range(n):
            if i % 12 == 11:
                # the double operations of the quarter turns on their own
                # (aspect numbers and values far beyond what DRAW can produce, but with |v / yfac| < 2^53: above
                # that Python's float floor division is no longer the exact floor)
                a0, a1 = rng.choice([(800, 960), (800, 1920), (1400, 1920), (rng.randrange(1, 5000), rng.randrange(1, 5000)),
                                     (rng.randrange(1, 5000), rng.randrange(1, 5000))])
                k = rng.choice([1, 5, 7, 35, 48, 175, 1225])
                v = rng.choice([rng.randrange(-7000000, 7000000), k * rng.randrange(-200000, 200000),
                                rng.randrange(-50, 50), rng.choice([-1, 1]) * rng.randrange(2 ** 30, 2 ** 40)])
                out.append({'k': 'fl', 'a0': a0, 'a1': a1, 'v': v})
                hist['double_ops'] += 1
                continue
            mode = rng.choice([1, 1, 2, 7, 7, 8, 9, 9]) if rng.random() < 0.98 else 0
            if mode == 0:
                hist['text_mode'] += 1
            # numeric variables
            nums = []
            for name in rng.sample(['A%', 'B%', 'N%', 'K!', 'Q', 'V#', 'X1', 'LEN.G%'], rng.randrange(0, 5)):
                if name.endswith('%'):
                    v = rng.choice([0, 1, 2, 3, 5, 10, 90, 100, 255, 256, 32767, -1, -7, -32768, rng.randrange(-300, 300)])
                else:
                    v = rng.choice([0, 1, 3, 4, 8, 180, 270, 360, 9999, 10000, 40000, 99999, 100000, -2, -99999,
                                    rng.randrange(-300, 300)])
                nums.append((name, v))
            vars_ = [[nm, nm[-1] if nm[-1] in '%!#' else '!', v] for nm, v in nums]
            by_value = {}
            for nm, v in nums:
                by_value.setdefault(v, []).append(('s', nm))
            # numeric arrays
            for name, dims in rng.sample([('AR%', [5]), ('M2', [3, 2]), ('QA#', [12])], rng.choice([0, 0, 1, 2])):
                cells = []
                for _c in range(rng.randrange(1, 4)):
                    idx = [rng.randrange(0, d + 1) for d in dims]
                    v = rng.choice([0, 1, 2, 5, 10, 90, 255, -3, rng.randrange(-200, 200)])
                    if not any(c[0] == idx for c in cells):
                        cells.append([idx, v])
                        by_value.setdefault(v, []).append(('a', name, idx))
                if rng.random() < 0.5:
                    idx = [rng.randrange(0, d + 1) for d in dims]
                    if not any(c[0] == idx for c in cells):
                        by_value.setdefault(0, []).append(('a', name, idx))
                vars_.append([name, 'a', {'dims': dims, 'cells': cells}])
            ptr_ok = set(nm.upper() for nm, _ in nums)
            ctx = {'nums': nums, 'by_value': by_value, 'ptr_ok': ptr_ok}
            allow_err = rng.random() < 0.3
            if allow_err:
                hist['with_error_token'] += 1
                if rng.random() < 0.3:
                    # wrong subscripts
                    declared = [v[0] for v in vars_ if v[1] == 'a']
                    if 'AR%' in declared:
                        by_value.setdefault(0, []).append(('a', 'AR%', [rng.choice([6, 11, 200])]))
                    if 'M2' in declared:
                        by_value.setdefault(0, []).append(('a', 'M2', [1]))
            # string variables: W$ (no X), T$ (may use W$), S$ (may use T$, W$), a string array
            strs = []
            for name in ['W$', 'T$', 'S$']:
                if rng.random() < 0.45:
                    toks = self.g_tokens(ctx, list(strs), mode, rng.randrange(0, 6), allow_err, hist)
                    src = {'c': toks}
                    if rng.random() < 0.1:
                        src = {'raw': self.g_mutate(render(toks, {}))} if not any(
                            t[0] in ('Xp',) or (len(t) > 3 and any(isinstance(x, list) and x and x[0] == 'ptr' for x in t))
                            for t in toks) else src
                    vars_.append([name, '$', src])
                    strs.append(('s', name))
                    ptr_ok.add(name)
            if strs and rng.random() < 0.25:
                toks = self.g_tokens(ctx, list(strs), mode, rng.randrange(0, 4), allow_err, hist)
                vars_.append(['SA$', 'a', {'dims': [3], 'cells': [[[2], {'c': toks}]]}])
                strs.append(('a', 'SA$', [2]))
                if rng.random() < 0.3:
                    strs.append(('a', 'SA$', [1]))
            if strs and rng.random() < 0.04:
                # a string that executes itself (once): runs into the nesting limit
                tgt = [v for v in vars_ if v[1] == '$' and 'c' in v[2]]
                if tgt:
                    v = rng.choice(tgt)
                    pos = rng.randrange(0, len(v[2]['c']) + 1)
                    v[2]['c'].insert(pos, ['X', 0, False, 0, v[0], 0])
                    hist['self_recursive'] += 1
            groups = []
            for _g in range(rng.choice([1, 1, 1, 2, 3])):
                draws = []
                for _d in range(rng.choice([1, 1, 2, 3])):
                    r = rng.random()
                    if r < 0.04:
                        k = rng.randrange(30, 70); hist['long'] += 1
                    elif r < 0.1:
                        k = 0
                    else:
                        k = rng.randrange(1, 13)
                    toks = self.g_tokens(ctx, strs, mode, k, allow_err, hist)
                    while len(render(toks, {})) > 250:      # a BASIC string holds at most 255 bytes
                        toks.pop()
                    has_ptr = 'ptr' in repr(toks) or "'Xp'" in repr(toks)
                    if rng.random() < 0.22 and not has_ptr:
                        draws.append({'raw': self.g_mutate(render(toks, {}))}); hist['raw_strings'] += 1
                    else:
                        draws.append({'c': toks}); hist['structured_strings'] += 1
                groups.append({'pre': self.g_pre(mode) if mode else [], 'draws': draws})
            out.append({'mode': mode, 'vars': vars_, 'groups': groups})
        self.histogram = hist
        return out

    def describe(self, case):
        d = dict(case)
        if case.get('k') == 'fl':
            return d
        try:
            d['text'] = [[text_of(s) for s in g['draws']] for g in case['groups']]
            d['var_text'] = dict((v[0], text_of(v[2])) for v in case['vars'] if v[1] == '$')
        except Exception:
            pass
        return d

    def undescribe(self, case):
        d = dict(case)
        d.pop('text', None)
        d.pop('var_text', None)
        return d

    # ---------------------------------------------------------------------------------------------
    # implementation

    def _session(self, mode):
        """A Session in the given mode with all graphics and variable state reset."""
        logging.disable(logging.CRITICAL)
        pool = self.__dict__.setdefault('_sessions', {})
        s = pool.get('s')
        if s is None:
            s = common.new_session(video='vga')
            pool['s'] = s
        s.execute('CLEAR')
        s.execute('SCREEN 0')
        if mode:
            s.execute('SCREEN %d' % mode)
        s._impl.interpreter.error_num = 0
        return s

    def _drop_session(self):
        pool = self.__dict__.setdefault('_sessions', {})
        s = pool.pop('s', None)
        if s is not None:
            try:
                s.close()
            except Exception:
                pass

    @staticmethod
    def _gstate(g):
        lp = g._last_point if g._last_point is not None else (0, 0)
        return {'cur': None if g._draw_current is None else [int(g._draw_current[0]), int(g._draw_current[1])],
                'last': [int(lp[0]), int(lp[1])], 'window': g._window_bounds is not None,
                'scale': g._draw_scale if g._draw_scale is not None else 4,
                'angle': g._draw_angle if g._draw_angle is not None else 0,
                'attr': g._last_attr if g._last_attr is not None else 0,
                'text': bool(g._mode.is_text_mode), 'nattr': int(g._num_attr),
                'aspect': [int(g._mode.pixel_height * g._screen_aspect[0]),
                           int(g._mode.pixel_width * g._screen_aspect[1])] if not g._mode.is_text_mode else [1, 1]}

    def _set_vars(self, s, case):
        """Create every variable (strings empty), read the VARPTR$ bytes of the scalars, then fill in the
        strings (their text may contain those bytes).  Returns (ptrs, texts of the string values)."""
        scal = [v for v in case['vars'] if v[1] != 'a']
        for name, kind, val in scal:
            if kind == '$':
                s.set_variable(name, b'')
            elif kind == '%':
                s.set_variable(name, int(val))
            else:
                s.set_variable(name if name[-1] in '!#' else name + '!', float(val))
        s.set_variable(RESERVED, b'')
        s.set_variable(SCRATCH, b'')
        ptrs = {}
        for name, kind, val in scal:
            full = name if name[-1] in '%!#$' else name + '!'
            p = s.evaluate('VARPTR$(%s)' % full)
            p = p.decode('latin-1') if isinstance(p, bytes) else str(p)
            for k in keys_of(name):
                ptrs[k] = p
        for name, kind, val in case['vars']:
            if kind == 'a':
                s.execute('DIM %s(%s)' % (name, ','.join(str(d) for d in val['dims'])))
        texts = {}
        for name, kind, val in case['vars']:
            if kind == '$':
                texts[name.upper()] = text_of(val, ptrs)
                s.set_variable(name, texts[name.upper()].encode('latin-1'))
            elif kind == 'a':
                for idx, v in val['cells']:
                    elt = '%s(%s)' % (name, ','.join(str(i) for i in idx))
                    if name.endswith('$'):
                        t = text_of(v, ptrs)
                        texts[name.upper() + repr(tuple(idx))] = t
                        s.set_variable(SCRATCH, t.encode('latin-1'))
                        s.execute('%s=%s' % (elt, SCRATCH))
                    else:
                        s.execute('%s=%d' % (elt, int(v)))
        return ptrs, texts

    def _run(self, case):
        """Run the case on the implementation. Returns dict(out, starts, pixels, stmts, ...)."""
        from pcbasic.basic.base import error as pcerror
        with core.time_limit(120):
            s = self._session(case['mode'])
            g = s._impl.display.graphics
            calls = []
            outcomes = []
            caught = []
            orig_line, orig_step, orig_fill, orig_draw = g._draw_line, g._draw_step, g._flood_fill, g._draw

            def rec_line(x0, y0, x1, y1, attr, pattern=0xffff):
                calls.append((0, x0, y0, x1, y1, attr))
                return orig_line(x0, y0, x1, y1, attr, pattern)

            def rec_step(x0, y0, sx, sy, plot, goback):
                if g._draw_angle not in RIGHT_ANGLES:
                    raise ExcludedByModel()
                return orig_step(x0, y0, sx, sy, plot, goback)

            def rec_fill(lcoord, fill_attr, pattern, border_attr, bg_pattern):
                if g._window_bounds is not None:
                    raise ExcludedByModel()
                x, y = g._get_window_physical(*lcoord)      # raises Overflow exactly where the real call does
                bx0, by0, bx1, by1 = g.graph_view.get_bounds()
                if x < bx0 or x > bx1 or y < by0 or y > by1:
                    o = 0
                elif g.graph_view[y, x] == border_attr:
                    o = 1
                else:
                    o = 2
                outcomes.append(o)
                calls.append((1, x, y, fill_attr, border_attr, 0))
                return orig_fill(lcoord, fill_attr, pattern, border_attr, bg_pattern)

            def rec_draw(gml, depth=0):
                try:
                    return orig_draw(gml, depth) if depth else orig_draw(gml)
                except pcerror.BASICError as e:
                    if not depth:
                        caught.append(e.err)
                    raise
            out, starts, stmts, group_outcomes, texts, chain, marks = [], [], [], [], [], [], []
            stop = False
            try:
                g._draw_line, g._draw_step, g._flood_fill, g._draw = rec_line, rec_step, rec_fill, rec_draw
                ptrs, var_texts = self._set_vars(s, case)
                for grp in case['groups']:
                    if stop:
                        break
                    for st in grp['pre']:
                        s.execute(st)
                    starts.append(self._gstate(g))
                    # a later group that is preceded only by WINDOW statements: the model continues from its own
                    # state (history step SWindow) and the state observed here is part of the compared output
                    chained = bool(starts[:-1]) and bool(grp['pre']) and not g._mode.is_text_mode and \
                        all(p.startswith('WINDOW') for p in grp['pre'])
                    chain.append(chained)
                    if chained:
                        g0 = starts[-1]
                        out += (g0['cur'] if g0['cur'] is not None else g0['last']) + g0['last'] + \
                            [g0['scale'], g0['angle'], g0['attr']]
                        marks.append(len(stmts))
                    del outcomes[:]
                    gtexts = []
                    for src in grp['draws']:
                        del calls[:]
                        del caught[:]
                        s._impl.interpreter.error_num = 0
                        text = text_of(src, ptrs)
                        gtexts.append(text)
                        s.set_variable(RESERVED, text.encode('latin-1'))
                        try:
                            s.execute('DRAW ' + RESERVED)
                            err = caught[0] if caught else s._impl.interpreter.error_num
                            status = [1, err] if err else [0, 0]
                        except ExcludedByModel:
                            status = [9, 9]
                            stop = True
                        except Exception as e:
                            status = common.canon_exc(e)
                            stop = True
                        gs = self._gstate(g)
                        pen = gs['cur'] if gs['cur'] is not None else gs['last']
                        pts = []
                        if stop:
                            pts = pen
                        else:
                            for fn, v in ((0, pen[0]), (1, pen[1])):
                                pv = s.evaluate('POINT(%d)' % fn)
                                if gs['text']:
                                    pts.append(pen[fn] if pv == 0 else -777777)
                                elif abs(v) <= 2 ** 24:
                                    pts.append(int(pv) if float(pv) == int(pv) else -777777)
                                else:
                                    # beyond 24 bits the Single cannot hold the coordinate (conversion: C04/C06)
                                    pts.append(v if abs(pv - v) <= abs(v) / 2.0 ** 22 else -777777)
                        rec = status + pen + gs['last'] + [gs['scale'], gs['angle'], gs['attr']] + list(pts) + [len(calls)]
                        for c in calls:
                            rec += [int(x) for x in c]
                        out += rec
                        stmts.append({'status': status, 'pen': pen, 'gs': gs,
                                      'reqs': [tuple(int(x) for x in c) for c in calls]})
                        if stop:
                            break
                    group_outcomes.append(list(outcomes))
                    texts.append(gtexts)
                pixels = None
                if case['mode'] and not stop:
                    pixels = self._pixels(s)
            finally:
                g._draw_line, g._draw_step, g._flood_fill, g._draw = orig_line, orig_step, orig_fill, orig_draw
            if stop:
                self._drop_session()
        return {'out': out, 'starts': starts, 'pixels': pixels, 'stmts': stmts, 'stopped': stop,
                'outcomes': group_outcomes, 'texts': texts, 'ptrs': ptrs, 'var_texts': var_texts, 'chain': chain,
                'marks': marks}

    @staticmethod
    def _pixels(s):
        pix = s._impl.display.pages[s._impl.display.apagenum].pixels
        return pix[0:pix.height, 0:pix.width].to_bytes()

    def _cached(self, case):
        cache = self.__dict__.setdefault('_runs', {})
        key = core.sha(case)
        if key not in cache:
            if len(cache) > 20000:
                cache.clear()
            cache[key] = self._run(case)
        return cache[key]

    @staticmethod
    def _float_ops(case):
        a0, a1, v = case['a0'], case['a1'], case['v']
        yf = float(a1) / float(a0)
        num, den = yf.as_integer_ratio()
        e = -(den.bit_length() - 1)
        while num and num % 2 == 0:
            num //= 2
            e += 1
        return [num, e if num else 0, int(v * yf), int(v // yf)]

    def impl(self, case):
        case = self.undescribe(case)
        if case.get('k') == 'fl':
            return self._float_ops(case)
        self.__dict__.setdefault('_runs', {}).pop(core.sha(case), None)
        return self._cached(case)['out']

    # ---------------------------------------------------------------------------------------------
    # model

    def model_term(self, case):
        case = self.undescribe(case)
        if case.get('k') == 'fl':
            return '(enc_float %s %s %s)' % (zint(case['a0']), zint(case['a1']), zint(case['v']))
        run = self._cached(case)
        tab = {}
        for name, kind, val in case['vars']:
            if kind == 'a':
                cells = []
                for idx, v in val['cells']:
                    if name.endswith('$'):
                        t = '(VStr %s)' % zbytes(run['var_texts'][name.upper() + repr(tuple(idx))])
                    else:
                        t = '(VNum %s)' % zint(int(v))
                    cells.append('(%s, %s)' % (core.zl(idx), t))
                term = '(VArr %s [%s])' % (core.zl(val['dims']), '; '.join(cells))
                for k in keys_of(name):
                    tab[zbytes(k + '(')] = term
            else:
                term = '(VStr %s)' % zbytes(run['var_texts'][name.upper()]) if kind == '$' else '(VNum %s)' % zint(int(val))
                for k in keys_of(name):
                    tab[zbytes(k)] = term
                p = run['ptrs'].get(name.upper())
                if p:
                    tab[core.zl([0] + [ord(ch) for ch in p])] = term
        env = ['(%s, %s)' % (k, tab[k]) for k in sorted(tab)]
        parts = []
        first = None
        for g0, gtexts, outs, chained in zip(run['starts'], run['texts'], run['outcomes'], run['chain']):
            strs = '[' + '; '.join(zbytes(t) for t in gtexts) + ']'
            if first is None:
                first = coq_gstate(g0, outs)
            if chained:
                parts.append('(inr (%s, %s), %s)' % ('true' if g0['window'] else 'false', core.zl(outs), strs))
            else:
                parts.append('(inl %s, %s)' % (coq_gstate(g0, outs), strs))
        if not parts:
            return '(@nil Z)'
        # a statement that ends Excluded stops the whole case (the adapter stops there too)
        return '(draw_groups_chain draw_max_depth [%s] %s [%s])' % ('; '.join(env), first, '; '.join(parts))

    # ---------------------------------------------------------------------------------------------
    # oracle

    def nontrivial(self, case, out):
        case = self.undescribe(case)
        if case.get('k') == 'fl':
            return True
        run = self._cached(case)
        return any(st['status'] == [0, 0] and (st['reqs'] or st['pen'] != [0, 0]) for st in run['stmts'])

    def count(self, key):
        if self.histogram is not None:
            self.histogram[key] = self.histogram.get(key, 0) + 1

    def oracle(self, case, out):
        case = self.undescribe(case)
        if case.get('k') == 'fl':
            # exact rational reading of the two double operations
            a0, a1, v = case['a0'], case['a1'], case['v']
            yf = float(a1) / float(a0)
            if Fraction(yf) != Fraction(float(Fraction(a1, a0))):
                return 'host division is not the correctly rounded quotient'
            exp = [int(float(Fraction(v) * Fraction(yf))), math.floor(Fraction(v) / Fraction(yf))]
            return None if out[2:] == exp else 'host double operations %r differ from exact arithmetic %r' % (out[2:], exp)
        run = self._cached(case)
        if run['out'] != out:
            run = self._run(case)
        tabs = var_tables(case)
        expected = []             # requests of the reference, per group
        comparable = bool(case['mode'])
        k = 0
        for gi, grp in enumerate(case['groups']):
            if gi >= len(run['starts']):
                break
            g0 = run['starts'][gi]
            if gi < len(run['chain']) and run['chain'][gi] and k > 0:
                # WINDOW on/off between DRAW statements leaves the DRAW pointer, scale, angle and colour alone
                prev = run['stmts'][k - 1]
                pen0 = g0['cur'] if g0['cur'] is not None else g0['last']
                if pen0 != prev['pen'] or g0['last'] != prev['gs']['last'] or \
                        (g0['scale'], g0['angle'], g0['attr']) != (prev['gs']['scale'], prev['gs']['angle'], prev['gs']['attr']):
                    return 'WINDOW between DRAW statements changed the DRAW state: pen %r -> %r' % (prev['pen'], pen0)
            ref = Ref(tabs, g0, run['outcomes'][gi] if gi < len(run['outcomes']) else [])
            known = True
            reqs = []
            for di, src in enumerate(grp['draws']):
                if k >= len(run['stmts']):
                    break
                st = run['stmts'][k]
                k += 1
                text = run['texts'][gi][di] if gi < len(run['texts']) and di < len(run['texts'][gi]) else text_of(src)
                if st['status'][0] == 2:
                    return 'host exception class %d escaped from DRAW %r' % (st['status'][1], text)
                if st['status'] == [9, 9]:
                    return None
                if g0['text']:
                    if st['status'] != [1, 5]:
                        return 'DRAW in text mode did not raise Illegal function call'
                    continue
                if 'c' not in src:
                    known = False
                if not known:
                    comparable = False
                    continue
                ref.reqs = []
                try:
                    ref.run(src['c'])
                    exp_status = [0, 0]
                except RefError as e:
                    exp_status = [1, e.err]
                except RefUnknown:
                    known = False
                    comparable = False
                    continue
                what = 'DRAW %r (group %d)' % (text, gi)
                if st['status'] != exp_status:
                    return '%s: status %r, reference %r' % (what, st['status'], exp_status)
                if tuple(st['pen']) != tuple(ref.pen):
                    return '%s: pen ends at %r, reference %r' % (what, st['pen'], list(ref.pen))
                if st['reqs'] != ref.reqs:
                    return '%s: requests %r, reference %r' % (what, st['reqs'][:6], ref.reqs[:6])
                if (st['gs']['scale'], st['gs']['attr'], st['gs']['angle']) != (ref.scale, ref.attr, ref.angle):
                    return '%s: scale/colour/angle %r, reference %r' % (
                        what, (st['gs']['scale'], st['gs']['attr'], st['gs']['angle']), (ref.scale, ref.attr, ref.angle))
                if exp_status == [0, 0] and not g0['window'] and tuple(st['gs']['last']) != tuple(ref.pen):
                    return '%s: last point %r is not the pen %r' % (what, st['gs']['last'], list(ref.pen))
                if g0['window'] and st['gs']['last'] != g0['last']:
                    return '%s: last point moved although WINDOW is active' % what
                reqs += ref.reqs
                self.count('oracle_statements_checked_against_reference')
            expected.append(reqs)
        # POINT deviation markers
        pos = 0
        for si, st in enumerate(run['stmts']):
            pos += 7 * run['marks'].count(si)
            nreq = len(st['reqs'])
            rec = out[pos:pos + 14 + 6 * nreq]
            pos += 14 + 6 * nreq
            if len(rec) >= 13 and (rec[11] == -777777 or rec[12] == -777777):
                return 'POINT(0)/POINT(1) do not report the pen position %r' % (st['pen'],)
        # pixels: the same picture as LINE / PAINT statements for the reference requests
        if comparable and run['pixels'] is not None and not run['stopped'] and \
                all(st['status'] == [0, 0] for st in run['stmts']):     # (an error message is pixels too)
            nattr = MODES[case['mode']][2]
            ok = all(-32768 <= v <= 32767 for rs in expected for r in rs for v in r[1:5 if r[0] == 0 else 3]) and \
                all(0 <= a < nattr for rs in expected for r in rs for a in ([r[5]] if r[0] == 0 else [r[3], r[4]]))
            if ok and not any(g['window'] for g in run['starts']) and \
                    not any(p.startswith('WINDOW') for g in case['groups'] for p in g['pre']):
                ref_pixels = self._ref_pixels(case, expected)
                if ref_pixels is not None:
                    self.count('oracle_pixel_buffers_compared_with_LINE_PAINT')
                if ref_pixels is not None and ref_pixels != run['pixels']:
                    diff = sum(1 for a, b in zip(ref_pixels, run['pixels']) if a != b)
                    return 'pixels differ from the LINE/PAINT statements for the same requests (%d pixels)' % diff
        return None

    def _ref_pixels(self, case, expected):
        with core.time_limit(120):
            s = self._session(case['mode'])
            try:
                for grp, reqs in zip(case['groups'], expected):
                    for st in grp['pre']:
                        s.execute(st)
                    for r in reqs:
                        s._impl.interpreter.error_num = 0
                        if r[0] == 0:
                            s.execute('LINE (%d,%d)-(%d,%d),%d' % (r[1], r[2], r[3], r[4], r[5]))
                        else:
                            s.execute('PAINT (%d,%d),%d,%d' % (r[1], r[2], r[3], r[4]))
                        if s._impl.interpreter.error_num:
                            return None
                return self._pixels(s)
            except Exception:
                self._drop_session()
                return None

    def shrink_candidates(self, case):
        case = self.undescribe(case)
        if case.get('k') == 'fl':
            return
        # drop groups, draws, tokens, variables
        gs = case['groups']
        for i in range(len(gs)):
            if len(gs) > 1:
                yield dict(case, groups=gs[:i] + gs[i + 1:])
        for i, g in enumerate(gs):
            for j in range(len(g['draws'])):
                if len(g['draws']) > 1:
                    g2 = dict(g, draws=g['draws'][:j] + g['draws'][j + 1:])
                    yield dict(case, groups=gs[:i] + [g2] + gs[i + 1:])
            if g['pre']:
                yield dict(case, groups=gs[:i] + [dict(g, pre=[])] + gs[i + 1:])
            for j, src in enumerate(g['draws']):
                if 'c' in src:
                    toks = src['c']
                    cuts = [toks[:len(toks) // 2], toks[len(toks) // 2:]] if len(toks) > 1 else []
                    cuts += [toks[:m] + toks[m + 1:] for m in range(len(toks))] if len(toks) <= 30 else []
                    for c in cuts:
                        g2 = dict(g, draws=g['draws'][:j] + [{'c': c}] + g['draws'][j + 1:])
                        yield dict(case, groups=gs[:i] + [g2] + gs[i + 1:])
                else:
                    t = src['raw']
                    for m in range(len(t)):
                        g2 = dict(g, draws=g['draws'][:j] + [{'raw': t[:m] + t[m + 1:]}] + g['draws'][j + 1:])
                        yield dict(case, groups=gs[:i] + [g2] + gs[i + 1:])
        for i in range(len(case['vars'])):
            yield dict(case, vars=case['vars'][:i] + case['vars'][i + 1:])


CHECK = C33
