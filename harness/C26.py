"""C26 - File sharing and record locks exclude each other."""
import os
import struct

from vlib import core
from harness import common

MODES = ['I', 'O', 'A', 'R']
LOCKS = ['', 'SHARED', 'R', 'W', 'RW']
ACCS = ['', 'R', 'W', 'RW']
NAMES = {1: 'F1', 2: 'F2'}
WORDS = {'R': 'READ', 'W': 'WRITE', 'RW': 'READ WRITE'}
MODE_WORDS = {'I': 'INPUT', 'O': 'OUTPUT', 'A': 'APPEND', 'R': 'RANDOM'}
COQ_MODE = {'I': 'MI', 'O': 'MO', 'A': 'MA', 'R': 'MR'}
COQ_LOCK = {'': 'LNone', 'SHARED': 'LShared', 'R': 'LR', 'W': 'LW', 'RW': 'LRW'}
COQ_ACC = {'': 'ANone', 'R': 'AR', 'W': 'AW', 'RW': 'ARW'}
BIG = [0, -1, 2 ** 24, 2 ** 24 + 1, 2 ** 25 - 3, 2 ** 25 - 2, 2 ** 25 - 1, 2 ** 25, 2 ** 25 + 1, 2 ** 25 + 2,
       2 ** 25 + 3, 2 ** 25 + 4, 40000]
BIG_PUT = [0, -1, 2 ** 25 + 3, 2 ** 25 + 4, 2 ** 25 + 6, 2 ** 26]


def single(x):
    """nearest single-precision value of an integer, as an integer (independent of pcbasic and of the model)."""
    return int(struct.unpack('<f', struct.pack('<f', float(x)))[0])


def stmt(op):
    k = op[0]
    if k == 'open':
        _, nm, n, mode, acc, lock, reclen, old = op
        if old:
            s = 'OPEN "%s", #%d, "%s"' % (mode, n, NAMES[nm])
            return s + (', %d' % reclen if reclen is not None else '')
        s = 'OPEN "%s"' % NAMES[nm]
        if mode != 'R' or reclen is None or reclen % 2:
            s += ' FOR ' + MODE_WORDS[mode]
        if acc:
            s += ' ACCESS ' + WORDS[acc]
        if lock == 'SHARED':
            s += ' SHARED'
        elif lock:
            s += ' LOCK ' + WORDS[lock]
        s += ' AS %d' % n
        return s + (' LEN=%d' % reclen if reclen is not None else '')
    if k == 'close':
        return 'CLOSE %d' % op[1]
    if k in ('lock', 'unlock'):
        _, n, a, b = op
        s = '%s #%d' % (k.upper(), n)
        if a is None and b is None:
            return s
        return s + ', ' + ('%d' % a if a is not None else '') + (' TO %d' % b if b is not None else '')
    if k in ('get', 'put'):
        _, n, pos = op
        return '%s #%d' % (k.upper(), n) + (', %d' % pos if pos is not None else '')
    if k == 'tread':
        return 'X$=INPUT$(1, #%d)' % op[1]
    raise ValueError(op)


def opt(x):
    return 'None' if x is None else '(Some %s)' % ('(%d)' % x if x < 0 else '%d' % x)


def z(x):
    return '(%d)' % x if x < 0 else '%d' % x


def coq_op(op):
    k = op[0]
    if k == 'open':
        _, nm, n, mode, acc, lock, reclen, old = op
        return '(OpOpen %d %s %s %s %s %s)' % (nm, z(n), COQ_MODE[mode], COQ_ACC[acc], COQ_LOCK[lock],
                                               z(128 if reclen is None else reclen))
    if k == 'close':
        return '(OpClose %s)' % z(op[1])
    if k in ('lock', 'unlock'):
        return '(%s %s %s %s)' % ('OpLock' if k == 'lock' else 'OpUnlock', z(op[1]), opt(op[2]), opt(op[3]))
    if k == 'tread':
        return '(OpTextRead %s)' % z(op[1])
    return '(%s %s %s)' % ('OpGet' if k == 'get' else 'OpPut', z(op[1]), opt(op[2]))


def decode(out, nops):
    """trace -> list of (result, {n: entry}) with entry = dict(name, mode, lock, acc, recpos, locks=set)."""
    res = []
    i = 0
    for _ in range(nops):
        r = (out[i], out[i + 1])
        i += 2
        ents = {}
        for n in (1, 2, 3):
            if out[i] == 0:
                i += 1
                continue
            name, mode, lock, acc, recpos, cnt = out[i + 1:i + 7]
            i += 7
            locks = []
            for _ in range(cnt):
                locks.append((out[i], out[i + 1]))
                i += 2
            ents[n] = {'name': name, 'mode': MODES[mode], 'lock': LOCKS[lock], 'acc': ACCS[acc], 'recpos': recpos,
                       'locks': [None if l == (0, 0) else l for l in locks]}
        i += 2
        res.append((r, ents))
    return res


def recs(r):
    """the set of record numbers of a held/requested range as (lo, hi); None = empty."""
    if r is None:
        return (1, float('inf'))
    return (r[0], r[1]) if r[0] <= r[1] else None


def overlap(r1, r2):
    a, b = recs(r1), recs(r2)
    if a is None or b is None:
        return False
    return max(a[0], b[0]) <= min(a[1], b[1])


class C26(core.Check):
    ID = 'C26'
    GEN = ['gen_locks']
    PROPS = 'props/C26.v'
    MODEL_IMPORTS = ['gen.Gen_locks', 'model.Locks']
    QUICK_CASES = 600
    THOROUGH_CASES = 6000
    TRUSTED = ['hand model model/Locks.v of Locks/LockingParameters (state threading, list_open, the loops over the '
               'other open files, Python set semantics of lock_set) and of the OPEN/CLOSE/LOCK/UNLOCK/GET/PUT glue '
               'in devices/files.py and devices/disk.py, tied by correspondence on statement histories in a real '
               'Session; range test, record limits, RandomFile pointer arithmetic regenerated from the AST; '
               'open/access decision tables dumped from the imported Locks class and proved equal to the model',
               'record numbers are integer literals; single-precision rounding of record numbers is modelled '
               '(single_round) and tied by correspondence only',
               'reading of the first sentence: OPEN FOR OUTPUT/APPEND of a name that is open fails and there is never '
               'more than one OUTPUT/APPEND opener; a file open for OUTPUT can still be opened for INPUT/RANDOM '
               '(GW-BASIC 3.23 behaviour recorded in tests/basic/unsorted/LockFilesOutput) - fixes/K26a.json']
    RULE = ('histories of 4..18 OPEN (all modes, ACCESS and LOCK clauses, old and new syntax) / LOCK / UNLOCK '
            '(contained, containing, overlapping, adjacent, whole-file, inverted, boundary ranges) / GET / PUT / CLOSE '
            'over file numbers 1..3 (+ invalid numbers) on one or two names, executed statement by statement in a '
            'real Session on a temp disk; after every statement the error number, the lock table '
            '(name, mode, lock, access, record pointer, sorted lock set of every number) and file existence are '
            'compared with the model; oracle = interval-set reference on the observed trace. non-trivial = at least '
            'two successful LOCKs and one denied request; distinct by hash')
    histogram = None

    # ---- cases
    def corpus(self):
        sh = lambda n, nm=1: ['open', nm, n, 'R', '', 'SHARED', 2, False]
        return [
            # D8: a containing range was accepted
            {'ops': [sh(1), sh(2), ['lock', 1, 2, 3], ['lock', 2, 1, 4], ['get', 2, 2], ['unlock', 2, 1, 4]]},
            {'ops': [sh(1), sh(2), ['lock', 1, 2, 3], ['lock', 1, 1, 4], ['lock', 2, 3, None], ['lock', 2, 2, 3]]},
            # tests/basic/unsorted/LockFilesOutput: lock held by an OUTPUT file, reader on another number
            {'ops': [['open', 1, 1, 'O', '', '', None, False], ['lock', 1, 1, 3],
                     ['open', 1, 3, 'R', '', '', None, False], ['get', 3, 2], ['put', 3, 4], ['put', 3, 2],
                     ['lock', 3, 1, 3], ['unlock', 1, 1, 2], ['unlock', 1, 1, 3], ['put', 3, 3]]},
            # tests/basic/unsorted/LOCK: exact unlock
            {'ops': [['open', 1, 1, 'R', '', '', None, False], ['lock', 1, None, None], ['lock', 1, None, None],
                     ['unlock', 1, None, None], ['lock', 1, 1, None], ['lock', 1, 2, 6], ['unlock', 1, 1, 6],
                     ['unlock', 1, 2, 6], ['unlock', 1, 1, None], ['unlock', 1, 1, None]]},
            # OUTPUT/APPEND exclusivity, both orders
            {'ops': [['open', 1, 1, 'O', '', '', None, False], ['open', 1, 2, 'O', '', '', None, False],
                     ['open', 1, 2, 'A', '', '', None, False], ['open', 1, 2, 'I', '', '', None, False],
                     ['open', 1, 3, 'A', '', '', None, False], ['close', 1], ['open', 1, 3, 'O', '', '', None, False],
                     ['close', 2], ['open', 1, 3, 'A', 'RW', '', None, False]]},
            # LOCK clauses / ACCESS (tests LockOPEN)
            {'ops': [['open', 1, 1, 'R', 'W', 'R', None, False], ['get', 1, 1], ['put', 1, 1], ['lock', 1, 1, None],
                     ['open', 1, 2, 'R', '', '', None, False], ['open', 1, 2, 'R', 'R', 'SHARED', None, False],
                     ['open', 1, 2, 'R', 'W', 'SHARED', None, False], ['put', 2, 1], ['get', 2, 1]]},
            # inverted and boundary ranges, bad numbers
            {'ops': [sh(1), sh(2), ['lock', 1, 5, 2], ['lock', 1, 5, 2], ['lock', 2, 1, 6], ['lock', 2, None, None],
                     ['lock', 1, 0, None], ['lock', 1, 2 ** 25 - 2, None], ['lock', 1, 2 ** 25 - 1, None],
                     ['get', 1, 2 ** 25], ['get', 1, None], ['get', 1, 2 ** 25 + 3],
                     ['lock', 4, 1, 1], ['lock', 0, 1, 1], ['lock', 256, 1, 1], ['get', 3, 1], ['close', 300]]},
            # C26e: OPEN-time LOCK clause of #1 forbids the access through #2 (sharing clause, no ACCESS clause)
            {'ops': [['open', 1, 1, 'R', '', 'R', 4, False], ['open', 1, 2, 'R', '', 'SHARED', 4, False],
                     ['get', 2, 2], ['put', 2, 2], ['close', 1], ['get', 2, 2], ['close', 2],
                     ['open', 1, 1, 'R', '', 'W', 4, False], ['open', 1, 2, 'R', '', 'SHARED', 4, False],
                     ['put', 2, 1], ['get', 2, 1], ['open', 1, 3, 'I', '', 'SHARED', None, False], ['tread', 3],
                     ['close', 1], ['open', 1, 1, 'R', '', 'R', 4, False], ['tread', 3], ['get', 2, 1],
                     ['tread', 2], ['tread', 0], ['tread', 4]]},
            # C26f: LOCK / UNLOCK through a sequential-mode number ignore the bounds (whole file)
            {'ops': [['open', 1, 2, 'R', '', 'SHARED', 8, False], ['put', 2, 1], ['open', 1, 1, 'I', '', 'SHARED', None, False],
                     ['lock', 1, 1, 2], ['put', 2, 7], ['get', 2, 5], ['lock', 2, 5, 6], ['lock', 2, None, None],
                     ['unlock', 1, 3, None], ['lock', 2, 1, 2], ['lock', 1, 7, 9], ['unlock', 2, 1, 2],
                     ['lock', 1, None, None], ['unlock', 1, 4, 5], ['unlock', 1, None, None]]},
            # INPUT of a file that does not exist; text files lock the whole file
            {'ops': [['open', 2, 1, 'I', '', '', None, False], ['open', 2, 1, 'A', '', 'SHARED', None, False],
                     ['open', 2, 2, 'I', '', 'SHARED', None, False], ['lock', 2, 3, 4], ['lock', 1, 7, 8],
                     ['unlock', 2, 1, 1], ['get', 2, 1], ['open', 1, 3, 'R', '', '', 0, False],
                     ['open', 1, 3, 'R', '', '', 129, False], ['open', 1, 3, 'I', 'W', '', None, False],
                     ['open', 1, 3, 'A', 'W', '', None, False], ['open', 1, 3, 'R', '', '', 5, True]]},
        ]

    def rand_range(self, rng, held):
        r = rng.random()
        if r < 0.12:
            return (None, None)
        if r < 0.17:
            return (rng.choice(BIG), None if rng.random() < 0.5 else rng.choice(BIG))
        if held and r < 0.6:
            h = rng.choice(held)
            if h is None:
                return (rng.randint(1, 8), None)
            s, e = h
            kind = rng.choice(['same', 'inside', 'contain', 'left', 'right', 'adj_l', 'adj_r', 'start', 'stop'])
            if kind == 'same':
                return (s, e) if s != e or rng.random() < 0.5 else (s, None)
            if kind == 'inside':
                a = rng.randint(min(s, e), max(s, e))
                return (a, rng.randint(a, max(s, e, a)))
            if kind == 'contain':
                return (max(1, s - rng.randint(0, 2)), e + rng.randint(0 if s > 1 else 1, 2))
            if kind == 'left':
                return (max(1, s - 2), s)
            if kind == 'right':
                return (e, e + 2)
            if kind == 'adj_l':
                return (max(1, s - 2), max(1, s - 1))
            if kind == 'adj_r':
                return (e + 1, e + 2)
            if kind == 'start':
                return (s, None)
            return (e, None)
        a = rng.randint(1, 9)
        r2 = rng.random()
        if r2 < 0.3:
            return (a, None)
        if r2 < 0.38:
            return (a, max(0, a - rng.randint(1, 3)))
        return (a, a + rng.randint(0, 4))

    def gen_history(self, rng, hist):
        profile = rng.choice(['shared', 'shared', 'shared', 'none', 'none', 'mixed'])
        ops = []
        opened = {}
        held = []
        far = set()
        two_names = rng.random() < 0.15
        n_ops = rng.randint(4, 18)
        nums = [1, 2, 3]
        if rng.random() < 0.75:
            # prologue: two or three numbers on the same file, compatible clauses
            lock = {'shared': 'SHARED', 'none': '', 'mixed': 'SHARED'}[profile]
            for n in rng.sample(nums, rng.choice([2, 3, 3])):
                mode = 'R' if rng.random() < 0.9 or opened else rng.choice(['O', 'A', 'I'])
                ops.append(['open', 1, n, mode, '', lock, rng.choice([None, 1, 2, 128]), False])
                opened[n] = mode
                hist['open'] += 1
            n_ops += len(ops)
        while len(ops) < n_ops:
            r = rng.random()
            n = rng.choice(nums) if rng.random() < 0.96 else rng.choice([0, 4, 255, 256, -1])
            if r < 0.12 or len(opened) < 2 and r < 0.5:
                free = [x for x in nums if x not in opened]
                if free and rng.random() < 0.9:
                    n = rng.choice(free)
                nm = 2 if two_names and rng.random() < 0.4 else 1
                mode = rng.choice(['R'] * 7 + ['I', 'O', 'A'])
                if profile == 'shared':
                    lock = 'SHARED' if rng.random() < 0.85 else rng.choice(LOCKS)
                elif profile == 'none':
                    lock = '' if rng.random() < 0.85 else rng.choice(LOCKS)
                else:
                    lock = rng.choice(LOCKS)
                acc = ''
                if rng.random() < 0.3:
                    acc = rng.choice(ACCS) if rng.random() < 0.3 or mode == 'R' else \
                        {'I': 'R', 'O': 'W', 'A': 'RW'}[mode]
                reclen = rng.choice([None, None, 1, 2, 128, rng.randint(1, 128)])
                if rng.random() < 0.03:
                    reclen = rng.choice([0, 129, 300])
                old = rng.random() < 0.06
                if old:
                    acc, lock = '', ''
                ops.append(['open', nm, n, mode, acc, lock, reclen, old])
                opened[n] = mode
                hist['open'] += 1
            elif r < 0.5:
                a, b = self.rand_range(rng, held)
                ops.append(['lock', n, a, b])
                if a is not None:
                    held.append((single(a), single(b) if b is not None else single(a)))
                else:
                    held.append(None)
                hist['lock'] += 1
            elif r < 0.65:
                if held and rng.random() < 0.7:
                    h = rng.choice(held)
                    a, b = (None, None) if h is None else h
                    if h is not None and a == b and rng.random() < 0.5:
                        b = None
                else:
                    a, b = self.rand_range(rng, held)
                ops.append(['unlock', n, a, b])
                hist['unlock'] += 1
            elif r < 0.94:
                k = 'get' if rng.random() < 0.5 else 'put'
                rr = rng.random()
                if rr < 0.25:
                    pos = None
                elif rr < 0.3:
                    # a PUT far beyond the end writes the whole gap: only rejected numbers for PUT
                    pos = rng.choice(BIG if k == 'get' else BIG_PUT)
                elif held and rr < 0.7:
                    h = rng.choice(held)
                    pos = rng.randint(1, 9) if h is None else rng.choice([h[0], h[1], h[0] - 1, h[1] + 1,
                                                                         (h[0] + h[1]) // 2])
                else:
                    pos = rng.randint(1, 9)
                # a PUT far beyond the end of the file writes the whole gap (gigabytes): turn it into a GET
                if pos is not None and 64 < single(pos) <= 2 ** 25:
                    k = 'get'
                    far.add(n)
                elif pos is not None and 1 <= single(pos) <= 64:
                    far.discard(n)      # (a rejected record number leaves the record pointer where it was)
                elif n in far:
                    k = 'get'
                ops.append([k, n, pos])
                hist[k] += 1
            elif r < 0.955:
                ops.append(['tread', n])
                hist['tread'] = hist.get('tread', 0) + 1
            else:
                ops.append(['close', n if rng.random() < 0.9 else rng.choice([0, 4, 256])])
                opened.pop(n, None)
                hist['close'] += 1
        return {'ops': ops}

    def gen_cases(self, n):
        hist = {'open': 0, 'lock': 0, 'unlock': 0, 'get': 0, 'put': 0, 'close': 0}
        out = [self.gen_history(self.rng, hist) for _ in range(n)]
        self.histogram = hist
        return out

    # ---- implementation
    def impl(self, case):
        d = common.tmpdir('c26')
        try:
            with common.new_session(devices={'C': d}, current_device='C:') as s:
                s.execute('REM')
                imp = s._impl
                errs = []
                orig = imp._handle_error

                def hook(e):
                    errs.append(e.err)
                    return orig(e)
                imp._handle_error = hook
                out = []
                for op in case['ops']:
                    del errs[:]
                    try:
                        with core.time_limit(60):
                            s.execute(stmt(op))
                        if op[0] == 'tread' and (not errs or errs[0] not in (5, 52, 54, 75)):
                            # the access was allowed; what is read depends on the data (not modelled)
                            out += [2, 8]
                        else:
                            out += [1, errs[0]] if errs else [0, 0]
                    except Exception as e:  # host exception escaping the session
                        out += common.canon_exc(e)
                    out += self.observe(imp, d)
            return out
        finally:
            common.rmtree(d)

    @staticmethod
    def observe(imp, d):
        from pcbasic.basic.devices import diskfiles
        dev = imp.files._devices[b'C:']
        lk = dev._locks._locking_parameters
        files = imp.files.files
        if set(lk.keys()) != set(files.keys()):
            return [-1]
        out = []
        ids = {b'F1': 1, b'F2': 2}
        for n in (1, 2, 3):
            p = lk.get(n)
            if p is None:
                out.append(0)
                continue
            f = files[n]
            recpos = f._recpos if isinstance(f, diskfiles.RandomFile) else 0
            locks = sorted((0, 0) if l == (None, None) else (int(l[0]), int(l[1])) for l in p.lock_set)
            out += [1, ids[p.name], MODES.index(p.mode.decode()), LOCKS.index((p.lock_type or b'').decode()),
                    ACCS.index((p.access or b'').decode()), recpos, len(locks)]
            for l in locks:
                out += list(l)
        out += [int(os.path.exists(os.path.join(d, 'F1'))), int(os.path.exists(os.path.join(d, 'F2')))]
        return out

    def model_term(self, case):
        return '(trace init [%s])' % '; '.join(coq_op(o) for o in case['ops'])

    def describe(self, case):
        return {'ops': case['ops'], 'basic': [stmt(o) for o in case['ops']]}

    def undescribe(self, d):
        return {'ops': d['ops']}

    def nontrivial(self, case, out):
        tr = decode(out, len(case['ops']))
        ok_locks = sum(1 for op, (r, _) in zip(case['ops'], tr) if op[0] == 'lock' and r == (0, 0))
        denied = sum(1 for op, (r, _) in zip(case['ops'], tr) if r == (1, 70))
        return ok_locks >= 2 and denied >= 1

    # ---- the property, read directly on the observed trace (interval-set reference, no Coq model)
    def oracle(self, case, out):
        try:
            tr = decode(out, len(case['ops']))
        except Exception:
            return 'trace cannot be decoded (lock table and file table out of step?)'
        prev = {}
        for i, (op, (res, ents)) in enumerate(zip(case['ops'], tr)):
            where = 'step %d %s: ' % (i + 1, stmt(op))
            # (1) held ranges on one name never overlap
            by_name = {}
            for n, e in ents.items():
                for l in e['locks']:
                    by_name.setdefault(e['name'], []).append((n, l))
            for nm, hl in by_name.items():
                for a in range(len(hl)):
                    for b in range(a + 1, len(hl)):
                        if overlap(hl[a][1], hl[b][1]):
                            return where + 'overlapping locks held at the same time: #%d %s and #%d %s' % (
                                hl[a][0], hl[a][1], hl[b][0], hl[b][1])
            k = op[0]
            ok = res == (0, 0)
            n = op[2] if k == 'open' else op[1]
            if k == 'open':
                nm, mode = op[1], op[3]
                holders = [m for m, e in prev.items() if e['name'] == nm]
                if mode in ('O', 'A') and holders and ok:
                    return where + 'OPEN FOR OUTPUT/APPEND succeeded on a file that is open as #%s' % holders
                if ok and sum(1 for e in ents.values() if e['name'] == nm and e['mode'] in ('O', 'A')) > 1:
                    return where + 'two OUTPUT/APPEND openers of one file'
            if k in ('lock', 'unlock') and n in prev and 1 <= n <= 255:
                a, b = op[2], op[3]
                if a is None and b is None:
                    req = None
                else:
                    s = single(a) if a is not None else 1
                    e = single(b) if b is not None else s
                    if not (1 <= s <= 2 ** 25 - 2 and 1 <= e <= 2 ** 25 - 2):
                        if ok:
                            return where + 'record number outside 1..2^25-2 accepted'
                        prev = ents
                        continue
                    req = (s, e)
                if prev[n]['mode'] != 'R':
                    req = None          # text files lock the whole file
                nm = prev[n]['name']
                if k == 'lock':
                    clash = [(m, l) for m, e in prev.items() if e['name'] == nm for l in e['locks']
                             if overlap(req, l)]
                    if clash and res != (1, 70):
                        return where + 'request overlaps held %s but the result is %s' % (clash, res)
                    if ok:
                        want = set(prev[n]['locks']) | {req}
                        if set(ents[n]['locks']) != want:
                            return where + 'granted lock is not recorded'
                else:
                    exact = req in prev[n]['locks']
                    if exact != ok:
                        return where + 'UNLOCK %s with held set %s gave %s' % (req, prev[n]['locks'], res)
                    if not ok and res != (1, 70):
                        return where + 'failed UNLOCK is not Permission denied: %s' % (res,)
                    if ok and set(ents[n]['locks']) != set(prev[n]['locks']) - {req}:
                        return where + 'UNLOCK removed something else'
                for m in ents:
                    if m != n and m in prev and set(ents[m]['locks']) != set(prev[m]['locks']):
                        return where + 'lock set of another file number changed'
            if (k in ('get', 'put') and n in prev and prev[n]['mode'] == 'R') or \
                    (k == 'tread' and n in prev and prev[n]['mode'] == 'I'):
                # a LOCK READ / LOCK WRITE clause given by another number at OPEN forbids the access (75)
                want = 'W' if k == 'put' else 'R'
                nm0 = prev[n]['name']
                deny = [m for m, e in prev.items() if m != n and e['name'] == nm0 and e['lock'] in ('R', 'W', 'RW')
                        and want in e['lock']]
                badpos = k != 'tread' and op[2] is not None and not 1 <= single(op[2]) <= 2 ** 25
                if deny and not badpos and res != (1, 75):
                    return where + 'file number(s) %s opened the file with a LOCK clause that forbids this access, ' \
                                   'result %s' % (deny, res)
            if k in ('get', 'put') and n in prev and prev[n]['mode'] == 'R':
                pos = op[2]
                if pos is None:
                    rec = prev[n]['recpos'] + 1
                else:
                    rec = single(pos)
                    if not 1 <= rec <= 2 ** 25:
                        if res != (1, 63):
                            return where + 'record number outside 1..2^25: %s' % (res,)
                        prev = ents
                        continue
                nm = prev[n]['name']
                blockers = [(m, l) for m, e in prev.items() if m != n and e['name'] == nm for l in e['locks']
                            if overlap((rec, rec), l) and not (k == 'get' and e['mode'] in ('O', 'A'))]
                if blockers and ok:
                    return where + 'record %d is locked through %s but the access succeeded' % (rec, blockers)
            prev = ents
        return None

    # ---- known finding K26a (literal reading of the first sentence)
    K26A = [['open', 1, 1, 'O', '', '', None, False], ['open', 1, 2, 'R', '', '', None, False]]

    def known_match(self, finding, case, out):
        return False

    def known_rerun(self, finding):
        if finding.get('id') != 'K26a':
            return True
        case = {'ops': self.K26A}
        out = self.impl(case)
        tr = decode(out, 2)
        return tr[0][0] == (0, 0) and tr[1][0] == (0, 0)


CHECK = C26
