"""C17 - Tokenising and listing are consistent."""
import random

from vlib import core
from harness import common, progen
from harness import gen_C17 as G

SYNTAXES = ['advanced', 'pcjr', 'tandy']


class _Recorder(object):
    """Stands in for the `values` object of Tokeniser/Lister: delegates everything, and records the two
    float conversions the Coq model takes as parameters (text -> number token, float bytes -> text)."""

    def __init__(self, real):
        self._real = real
        self.tok = {}
        self.txt = {}

    def __getattr__(self, name):
        return getattr(self._real, name)

    def from_repr(self, word, allow_nonnum, typechar=None):
        key = bytes(word)
        try:
            v = self._real.from_repr(word, allow_nonnum, typechar)
            self.tok[key] = [0] + list(bytearray(v.to_token()))
        except Exception as e:
            self.tok[key] = common.canon_exc(e)
            raise
        return v

    def from_bytes(self, token_bytes):
        v = self._real.from_bytes(token_bytes)
        if len(token_bytes) in (4, 8):
            try:
                self.txt[bytes(token_bytes)] = list(bytearray(v.to_str(leading_space=False, type_sign=True)))
            except Exception:
                pass
        return v


def zll(pairs):
    return '[' + ';'.join('(%s,%s)' % (core.zl(list(bytearray(a))), core.zl(list(b))) for a, b in pairs) + ']'


class C17(core.Check):
    ID = 'C17'
    GEN = ['gen_tokens']
    PROPS = 'props/C17.v'
    MODEL_IMPORTS = ['gen.Gen_tokens', 'model.Tok', 'model.Lister', 'model.Lines', 'model.C17_glue']
    QUICK_CASES = 1500
    THOROUGH_CASES = 8000
    ALLOWED_AXIOMS = []
    TRUSTED = ['hand models model/Tok.v (Tokeniser.tokenise_line + the CodeStream readers it uses) and '
               'model/Lister.v (Lister.detokenise_line) tied by correspondence on generated text lines, token '
               'lines and grammar items x 3 dialects; the keyword tables and byte sets are regenerated from '
               'tokens.py / tokeniser.py / lister.py on every run (gen_tokens, a table dumper)',
               'float literals: text -> token (values.from_repr(..).to_token()) and token -> text (to_str) are '
               'parameters of the model (C07); in the correspondence they are tables recorded from the '
               'implementation while it runs the same case',
               'model/Lister.v models the lister WITH fix D17a (fixes/D17a.patch, WHILE+ handling)']
    PARTIAL = ('C17_roundtrip_partial: the round trip is proved for every line of the inductive class '
               'Lines/CanonLine (model/Lines.v) and every pair of float conversions; that a float literal item '
               'satisfies fl_tok (fl_str token) = token (literals exactly representable with <= 7 / 16 digits) is a '
               'hypothesis of the class (item_oracle), not proved here - it is C07\'s round trip; the harness checks '
               'it on the implementation for every generated literal.  Octal literals are in the class only when '
               'followed by an operator or punctuation (the tokeniser swallows blanks after &O..).')
    RULE = ('kinds: text (progen program lines, keyword soup, garbage bytes; random capitalisation/spacing) -> '
            'tokens, listing, tokens of the listing; tokens (mutated token lines) -> listing, re-tokenised; word '
            '(Tokeniser._tokenise_word on keyword variants); items (lines generated from the grammar mirroring '
            'model/Lines.v: model says canonical, tokens and text renderers agree, implementation round-trips); '
            'items_any (perturbed item lists); itext (grammar lines rendered with random keyword capitalisation '
            'and extra blanks).  oracle on the implementation only: tokenise(list(t)) == t for grammar lines, '
            'tokenise(randomly capitalised text) == tokens, list(t) == rendered text.  non-trivial = more than one '
            'item / more than 3 bytes with a successful tokenisation; distinct by hash of (case, output)')
    histogram = None

    # ------------------------------------------------------------------ implementation access
    def _session(self, syn):
        cache = self.__dict__.setdefault('_sess', {})
        if syn not in cache:
            s = common.new_session(syntax=SYNTAXES[syn])
            s.start()
            impl = s._impl
            rec = _Recorder(impl.values)
            impl.tokeniser._values = rec
            impl.lister._values = rec
            cache[syn] = (s, impl.tokeniser, impl.lister, rec)
        return cache[syn]

    def _tokenise(self, syn, text):
        _, T, _, _ = self._session(syn)
        try:
            with core.time_limit(20):
                return [0], bytes(T.tokenise_line(bytes(text)).read())
        except Exception as e:
            return common.canon_exc(e), None

    def _list(self, syn, tokens):
        """tokens start with the NUL of a program line."""
        from pcbasic.basic.base import codestream
        _, _, L, _ = self._session(syn)
        st = codestream.TokenisedStream()
        st.write(bytes(tokens))
        st.seek(1)
        try:
            with core.time_limit(20):
                n, text, _ = L.detokenise_line(st)
            return [0], n, bytes(text)
        except Exception as e:
            return common.canon_exc(e), None, None

    def _stages(self, syn, tokens):
        """listing of a token line and the tokens of that listing, encoded like C17_glue.list_and_retok."""
        out = []
        text = tokens2 = None
        if tokens[:1] != b'\0':
            return out, text, tokens2
        st, n, text = self._list(syn, tokens)
        if st != [0]:
            return out + st, None, None
        out += [0, n, len(text)] + list(text)
        st, tokens2 = self._tokenise(syn, text)
        if st != [0]:
            return out + st, text, None
        out += [0, len(tokens2)] + list(tokens2)
        return out, text, tokens2

    def _run(self, case):
        cache = self.__dict__.setdefault('_runs', {})
        key = core.sha(case)
        if key in cache:
            return cache[key]
        syn = case['syn']
        rec = self._session(syn)[3]
        rec.tok, rec.txt = {}, {}
        res = {'tokens': None, 'text': None, 'tokens2': None}
        if case['k'] == 'text':
            st, tokens = self._tokenise(syn, bytes(bytearray(case['b'])))
            if st != [0]:
                out = st
            else:
                out = [0, len(tokens)] + list(tokens)
                o2, text, tokens2 = self._stages(syn, tokens)
                out += o2
                res.update(tokens=tokens, text=text, tokens2=tokens2)
        elif case['k'] == 'itext':
            st, tokens = self._tokenise(syn, bytes(bytearray(case['b'])))
            if st != [0]:
                out = st
            else:
                out = [0, len(tokens)] + list(tokens)
                o2, text, tokens2 = self._stages(syn, tokens)
                out += o2
                res.update(tokens=tokens, text=text, tokens2=tokens2)
        elif case['k'] == 'tokens':
            tokens = bytes(bytearray(case['b']))
            out, text, tokens2 = self._stages(syn, tokens)
            res.update(tokens=tokens, text=text, tokens2=tokens2)
        elif case['k'] in ('items', 'items_any'):
            to_token = self._to_token(syn)
            tokens = G.line_tokens(case['n'], case['items'], to_token)
            o2, text, tokens2 = self._stages(syn, tokens)
            if case['k'] == 'items':
                x = G.line_text(case['n'], case['items'])
                out = [1, len(tokens)] + list(tokens) + [len(x)] + list(x) + o2
            else:
                out = [len(tokens)] + list(tokens) + o2
            res.update(tokens=tokens, text=text, tokens2=tokens2)
        elif case['k'] == 'word':
            from pcbasic.basic.converter.tokeniser import PlainTextStream
            from pcbasic.basic.base import codestream
            _, T, _, _ = self._session(syn)
            b = bytes(bytearray(case['b']))
            ins = PlainTextStream(b)
            outs = codestream.TokenisedStream()
            w = T._tokenise_word(ins, outs)
            o = bytes(outs.getvalue())
            out = [len(o)] + list(o) + [len(w)] + list(w) + [len(b) - ins.tell()]
        else:
            raise ValueError(case['k'])
        res['out'] = out
        res['tt'] = sorted(rec.tok.items())
        res['ts'] = sorted(rec.txt.items())
        cache[key] = res
        return res

    def impl(self, case):
        return self._run(case)['out']

    def model_term(self, case):
        r = self._run(case)
        if case['k'] in ('items', 'items_any'):
            return '(run_%s %d %s %s %d %s)' % (case['k'], case['syn'], zll(r['tt']), zll(r['ts']), case['n'],
                                                G.coq_items(case['items']))
        b = core.zl(case['b'])
        if case['k'] == 'word':
            return '(run_word %d %s)' % (case['syn'], b)
        fn = 'run_text' if case['k'] in ('text', 'itext') else 'run_tokens'
        return '(%s %d %s %s %s)' % (fn, case['syn'], zll(r['tt']), zll(r['ts']), b)

    # ------------------------------------------------------------------ cases
    def corpus(self):
        texts = [
            b'10 PRINT 1', b'10 goto 100', b"20 IF A THEN 10 ELSE 20 ' hi", b'30 WHILE X<32768:a=&hff+&o17',
            b'40 x=1.5:y=3#:z=1e10:w=1.5d-3:v=100000:u=.25:t=1!:r=123456789:q=1e-38', b'?1',
            b'50 GO TO 5: GO SUB 6:go  to 7', b'60 A=&O1 2', b'60 A=&O17 AND 1', b'70 A=&HFFFFF',
            b'80 A=&O777777', b'90 PRINT 1 2', b'10 20 PRINT', b'65535 PRINT', b'65529 PRINT', b'6553 PRINT',
            b'100 A=1E99', b'110 A=1.2.3', b'120 A=1%+2', b'130 XWHILE+1', b'140 A=.', b'150 GOTO .',
            b'160 A=1E', b'170 A=& ', b'180 A=&HG', b'190 A=1 E', b'0 PRINT', b'0  PRINT', b'  5  PRINT',
            b'', b'   ', b'\r', b'10', b'10 ', b'10\tPRINT', b'10 REM\x00abc', b'10 PRINT "abc', b'10 DATA "a:b":c',
            b'10 DATA a"b:c', b'10 GO TO', b'10 GO TO1', b'10 GO  TOX', b'10 GO SUBX', b'10 GOX', b'10 FNA(1)',
            b'10 PRINT SPC(5)10', b'10 ON ERL GOTO 10,20', b'10 IF ERL=10 THEN 20', b'10 OPTION BASE 1',
            b'10 A\x01\xffB', b'10 PRINT USR0(1)', b"10 REMARK", b"10 REM'x", b"10 :REM'x", b"10 ELSE", b"10 1ELSE",
            b'10 PRINT 1E5ELSE', b'10 PRINT 1EQV2', b'10 NOISE 1:TERM', b'10 a$=mid$(b$,1)', b'10 PRINT\x7f',
            b'10 A=1\x1c2', b'10 A=1D+2#', b'10 A=1!#', b'10 A=12345678901234567890', b'10 A=32767:B=32768',
            b'10 A=00009:B=010:C=0256', b'99999 X', b'6552 9', b'10 &', b'10 &O', b'10 &h', b'10 &7 7', b'10 A=&O1 2 3:B=&O 7 7 +1', b'10 A=&O1\t7 AND 1', b'10 A=&O177777 1',
        ]
        out = [{'k': 'text', 'syn': i % 3, 'b': list(bytearray(t))} for i, t in enumerate(texts)]
        data_texts = [b'10 DATA "ab","c:d e"', b'10 DATA "at 9","at 10:30 print"', b'10 data 1,"x:y","p:q r',
                      b'10 DATA "a":DATA "b","c:d":print 1', b'10 DATA x,"a""b:c d",e:goto 10']
        out += [{'k': 'text', 'syn': i % 3, 'b': list(bytearray(t)), 'ci': True} for i, t in enumerate(data_texts)]
        out += [{'k': 'text', 'syn': i % 3, 'b': list(bytearray(b'20 DATA' + t)), 'ci': True, 'data_tail': list(bytearray(t))}
                for i, t in enumerate([b' "ab","c:d e"', b' "at 9","at 10:30 print",x', b' 1,"x:y","p:q r'])]
        ci_texts = [b'10 X=1 else X=2', b'10 IF A THEN X=1 else X=2', b'20 PRINT 1 eqv 2', b'30 print 2 Eqv 3:?1 eLSE',
                    b'40 for i=1 to 10 step 2', b'50 if x=1.5 then 10 else 20', b'60 a=1 and 2 or 3 xor 4 imp 5 mod 6',
                    b'70 A=1e5:b=1d5:c=&hff:d=&o17:e=1E+5else', b'80 go to 10:go sub 20', b'90 x=3 else y=4 eqv 5',
                    b'100 PRINT 7else 8', b'110 print 7eqv 8', b'120 on x gosub 10,20 else']
        out += [{'k': 'text', 'syn': i % 3, 'b': list(bytearray(t)), 'ci': True} for i, t in enumerate(ci_texts)]
        for i, l in enumerate(G.FLOAT_TEXTS):
            out.append({'k': 'text', 'syn': i % 3, 'b': list(bytearray(b'10 A=' + l)), 'ci': True,
                        'lits': [list(bytearray(l))]})
        H = b'\0\xc0\xde\x0a\0'
        toks = [b'\x1d\1\2\3', b'\x1d\1\2', b'\x1d\1', b'\x1d', b'\x1f\1\2\3\4', b'\x1f\1\2\3\4\5', b'\x0b\1',
                b'\x0c', b'\x0f', b'\x0e\1', b'\x1c\xff\xff', b'\x1b', b'\x7f', b'\xff', b'\xff\x81', b'\xa1',
                b' \xa1', b'\x0a', b'\x10', b'\x8f\xd9', b':\x8f\xd9abc\x91', b'"\x91\x11"\x91', b'\xb1\xe9\xe9',
                b'A\x91', b'FN\x91', b'USR\x91', b'1\xe9', b'\x91\x91', b'\x0b\0\0', b'\x0b\xff\xff',
                b'\x0c\xff\xff', b'\x0d\xff\xff', b'XWHILE\xe9\x12', b'\xfe\xa4\xfe\xa6', b'A' * 300]
        out += [{'k': 'tokens', 'syn': i % 3, 'b': list(bytearray(H + t))} for i, t in enumerate(toks)]
        out += [{'k': 'tokens', 'syn': 0, 'b': list(bytearray(t))} for t in
                [b'\0\0\0\1\2', b'\0\1\0\1', b'\0\1\0\0\0 \x91', b'\0\1\0\0\0\t\x91', b'\0\1\0\5\0\t\x91', b'\0']]
        out += [{'k': 'word', 'syn': i % 3, 'b': list(bytearray(t))} for i, t in enumerate(
            [b'print 1', b'PRINT', b'GO TO 1', b'go  sub', b'GO SUB1', b'GO   TO', b'GO   TOx', b'GO TO', b'GO', b'G',
             b'FNx', b'usrx', b'spc(1', b'TAB(', b'ELSE1', b'else', b'While ', b'MID$', b'mid$(', b'MIDx$', b'a.b$',
             b'NOISE', b'term ', b'INKEY$x', b'TOTAL=1', b'FORK', b'REMx', b"A'"])]
        B = G.b2l
        XW = [['name', B(b'XWHILE')], ['op', 61], ['name', B(b'XWHILE')], ['op', 43], ['int', 1]]     # D17a witness
        item_lines = [
            (10, XW), (0, XW), (65529, [['while'], ['sp'], ['name', B(b'XWHILE')], ['op', 43], ['op', 43], ['int', 1]]),
            (10, [['kw', B(b'IF')], ['sp'], ['name', B(b'A')], ['op', 61], ['flt', 29, [0, 0, 64, 129], B(b'1.5')], ['sp'],
                  ['kw', B(b'THEN')], ['sp'], ['jump', 100], ['sp'], ['else'], ['sp'], ['kw', B(b'PRINT')], ['sp'],
                  ['int', 1], ['p', 58], ['rem', B(b' x')]]),
            (0, [['kw', B(b'GOTO')], ['sp'], ['jump', 65529]]), (65529, [['quote', B(b'')]]), (1, []),
            (5, [['kw', B(b'PRINT')], ['sp'], ['str', B(b'abc'), False]]),
            (7, [['data', B(b' "a:b",c')], ['p', 58], ['kw', B(b'END')]]),
            (10, [['data', B(b' "ab","c:d e"')]]),                                   # seeded C17e witness
            (11, [['data', B(b' "at 9","at 10:30 print",x')], ['p', 58], ['kw', B(b'END')]]),
            (12, [['data', B(b' 1,"x:y","p:q r')]]),
            (8, [['name', B(b'A')], ['op', 61], ['hex', 65535], ['op', 43], ['oct', 65535], ['op', 45], ['int', 32767]]),
            (9, [['kw', B(b'ON')], ['sp'], ['kw', B(b'ERL')], ['sp'], ['kw', B(b'GOSUB')], ['sp'], ['jump', 6553], ['p', 44],
                 ['jump', 0]]),
        ]
        # keyword directly followed by a type character / punctuation (theorem C17_keyword_then_punct_roundtrip)
        for i, (kwd, ch) in enumerate([(b'INPUT', b'$'), (b'INT', b'%'), (b'ABS', b'!'), (b'PRINT', b'#'), (b'KEY', b'('),
                                       (b'RND', b')'), (b'INPUT', b','), (b'PRINT', b';'), (b'NEXT', b':'),
                                       (b'CLOSE', b'#'), (b'LOCATE', b','), (b'USING', b'$')]):
            item_lines.append((10 + i, [['kw', B(kwd)], ['p', bytearray(ch)[0]]]))
        out += [{'k': 'items', 'syn': i % 3, 'n': n, 'items': its} for i, (n, its) in enumerate(item_lines)]
        out.append({'k': 'items', 'syn': 1, 'n': 3, 'items': [['kw', B(b'NOISE')], ['sp'], ['int', 1], ['p', 58],
                                                              ['kw', B(b'TERM')]]})
        return out

    def _to_token(self, syn):
        from pcbasic.basic.base import tokens as tk
        cache = self.__dict__.setdefault('_tt', {})
        if syn not in cache:
            cache[syn] = dict(tk.TokenKeywordDict(SYNTAXES[syn]).to_token)
        return cache[syn]

    def _float_pairs(self, syn):
        """(lead, trail, listed text) of float literals, from the implementation."""
        cache = self.__dict__.setdefault('_fp', {})
        if syn not in cache:
            _, T, L, rec = self._session(syn)
            pairs = []
            for txt in G.FLOAT_TEXTS:
                t = bytes(T.tokenise_line(b'1 A=' + txt).read())[7:]
                if t[:1] in (b'\x1d', b'\x1f') and len(t) in (5, 9):
                    listed = bytes(rec._real.from_bytes(t[1:]).to_str(leading_space=False, type_sign=True))
                    # the class has the literals the property speaks about (exactly representable, <= 7 / 16
                    # digits, decided by an independent reference - never dropped because the implementation
                    # fails on them) plus others whose text happens to convert back to the same token
                    if G.exactly_representable(txt) or bytes(T.tokenise_line(b'1 A=' + listed).read())[7:] == t:
                        pairs.append((bytearray(t)[0], t[1:], listed))
            cache[syn] = pairs
        return cache[syn]

    def _gen_items(self, rng, hist, perturb=False):
        syn = rng.randrange(3)
        while True:
            g = G.Gen(rng, list(self._to_token(syn).keys()), self._float_pairs(syn))
            items = g.line()
            if len(G.line_text(0, items)) - 2 <= 255:      # the lister cuts the listed body at 255 bytes
                break
        n = rng.choice([0, 1, 10, 100, 6552, 6553, 32767, 65529]) if rng.random() < 0.3 else rng.randrange(65530)
        kind = 'items'
        if perturb and items:
            kind = 'items_any'
            for _ in range(rng.randrange(1, 3)):
                q = rng.random()
                pos = rng.randrange(len(items) + 1)
                if q < 0.35 and pos < len(items):
                    del items[pos]
                elif q < 0.7:
                    g2 = G.Gen(rng, list(self._to_token(syn).keys()), self._float_pairs(syn))
                    g2.an, g2.aj = rng.random() < 0.5, rng.random() < 0.5
                    rng.choice([g2.number, g2.sp, lambda: g2.name(rng.choice(G.NAMES)), lambda: g2.kw(rng.choice(g2.kws)),
                                lambda: g2.p(rng.choice([b':', b',', b'(', b')', b'$', b'.', b'1'])),
                                lambda: g2.op(b'+'), lambda: g2.emit(['else']), lambda: g2.emit(['while'])])()
                    items[pos:pos] = g2.items
                elif pos + 1 < len(items):
                    items[pos], items[pos + 1] = items[pos + 1], items[pos]
            if not items:
                items = [['sp']]
        for it in items:
            hist['item_' + it[0]] = hist.get('item_' + it[0], 0) + 1
        hist[kind] = hist.get(kind, 0) + 1
        return {'k': kind, 'syn': syn, 'n': n, 'items': items}

    def _gen_itext(self, rng, hist):
        c = self._gen_items(rng, hist)
        items, n = c['items'], c['n']
        spaced = rng.random() < 0.5
        parts = [b'%d ' % n]
        if rng.random() < 0.2:
            parts = [rng.choice([b' ', b'  ', b'\t']) + parts[0]]
        if spaced and n != 0 and rng.random() < 0.5:
            parts.append(b' ')
        for it in items:
            t = G.item_text(it)
            k = it[0]
            if k in ('kw', 'name', 'else', 'while', 'hex', 'oct'):
                t = self._randcase(rng, t)
            elif k in ('rem', 'data'):
                t = self._randcase(rng, t[:3 if k == 'rem' else 4]) + t[3 if k == 'rem' else 4:]
            elif k == 'flt':
                t = self._randcase(rng, t)
            parts.append(t)
            if spaced and k not in ('rem', 'quote', 'data') and not (k == 'str' and not it[2]) and rng.random() < 0.25:
                parts.append(rng.choice([b' ', b'  ']))
        if spaced and len(b''.join(parts)) > 250:
            # the lister cuts a listed body at 255 bytes: keep the spaced rendering well below that
            parts = [b'%d ' % n] + [G.item_text(it) for it in items]
            spaced = False
        hist['itext_spaced' if spaced else 'itext_case'] = hist.get('itext_spaced' if spaced else 'itext_case', 0) + 1
        return {'k': 'itext', 'syn': c['syn'], 'n': n, 'items': items, 'sp': spaced,
                'b': list(bytearray(b''.join(parts)))}

    def _keywords(self, syn):
        from pcbasic.basic.base import tokens as tk
        cache = self.__dict__.setdefault('_kws', {})
        if syn not in cache:
            cache[syn] = sorted(tk.TokenKeywordDict(SYNTAXES[syn]).to_token.keys())
        return cache[syn]

    @staticmethod
    def _randcase(rng, text):
        """random capitalisation outside string literals."""
        mode = rng.choice(['upper', 'lower', 'mixed', 'asis'])
        out = bytearray()
        instr = False
        for ch in bytearray(text):
            if ch == 34:
                instr = not instr
            c = bytes(bytearray([ch]))
            if not instr and mode != 'asis':
                if mode == 'upper':
                    c = c.upper()
                elif mode == 'lower':
                    c = c.lower()
                elif rng.random() < 0.5:
                    c = c.swapcase()
            out += c
        return bytes(out)

    GARBAGE_POOL = (b'0123456789' * 2 + b'..&&HhOo EeDd+-!#%' + b'  \t\n' + b'"\':?,;()' + b'GOTOSUBgotosub' +
                    b'\x00\r\x1c\x1d\x1f\x7f\x80\xff\x0e\x11' + b'ABCXYZabcxyz=<>*/\\^$')

    def _gen_text(self, rng, hist):
        r = rng.random()
        syn = rng.randrange(3)
        if r < 0.5:
            nums = [rng.choice([0, 1, 10, 100, 255, 256, 1000, 6552, 6553, 32767, 32768, 65529, 65530, 99999])
                    if rng.random() < 0.2 else 10 * rng.randrange(1, 3000)]
            body = progen.line_body(rng, [10, 20, 100, 1000, 65529])
            body = body.encode('latin1')
            text = (b'%d ' % nums[0] if rng.random() < 0.9 else b'') + self._randcase(rng, body)
            if rng.random() < 0.12:
                # DATA statement with several quoted / unquoted items, random case of the keyword, maybe more code
                tail, open_end = G.data_tail(rng)
                body = self._randcase(rng, b'DATA') + tail
                if not open_end and rng.random() < 0.5:
                    body += rng.choice([b':print 1', b': rem x', b":'q", b':DATA "p:q r",s'])
                # a line number above 65529 is not a line number: its last digits and the D of DATA read as a number (99999D)
                text = b'%d ' % (nums[0] if nums[0] <= 65529 else 10) + body
                hist['text_data'] = hist.get('text_data', 0) + 1
                hist['text_progen'] += 1
                return {'k': 'text', 'syn': syn, 'b': list(bytearray(text[:255])), 'ci': True,
                        'data_tail': list(bytearray(tail))}
            hist['text_progen'] += 1
        elif r < 0.7:
            # keyword soup: keywords, names, numbers, separators glued with random spacing
            kws = self._keywords(syn)
            parts = []
            for _ in range(rng.randrange(1, 9)):
                q = rng.random()
                if q < 0.45:
                    parts.append(rng.choice(kws))
                elif q < 0.6:
                    parts.append(rng.choice([b'A', b'X1', b'GO', b'FNA', b'USR1', b'A.B', b'E', b'D', b'EL', b'Z$', b'I%']))
                elif q < 0.8:
                    parts.append(rng.choice([b'1', b'10', b'255', b'256', b'32767', b'32768', b'65529', b'65530',
                                             b'1.5', b'.5', b'1E5', b'1D5', b'1E+5', b'&HFF', b'&O17', b'&17', b'3#',
                                             b'2!', b'7%', b'1e', b'1 2', b'100000', b'6553', b'65535']))
                else:
                    parts.append(rng.choice([b'"s"', b'"', b':', b',', b';', b'(', b')', b"'", b'?', b'#', b'=', b'+',
                                             b'-', b'.', b'[', b']']))
            sep = [b'', b' ', b'  ', b'\t']
            text = b'%d ' % rng.choice([0, 5, 10, 6552, 65529]) + b''.join(p + rng.choice(sep) for p in parts)
            text = self._randcase(rng, text)
            hist['text_soup'] += 1
        else:
            n = rng.choice([0, 1, 2, 3, 5, 8, 13, 21, 40])
            text = bytes(bytearray(rng.choice(bytearray(self.GARBAGE_POOL)) if rng.random() < 0.9
                                   else rng.randrange(256) for _ in range(n)))
            if rng.random() < 0.6:
                text = b'%d' % rng.choice([0, 7, 10, 6552, 6553, 65529]) + rng.choice([b'', b' ', b'  ']) + text
            hist['text_garbage'] += 1
        c = {'k': 'text', 'syn': syn, 'b': list(bytearray(text[:255]))}
        if r < 0.7 and 0 not in c['b'] and 13 not in c['b']:
            c['ci'] = True        # generated program text: subject to the capitalisation clause of the oracle
        return c

    def _gen_float(self, rng, hist):
        """a line with float literals of every shape; `lits` are the literal texts as typed."""
        syn = rng.randrange(3)
        lits = []
        for _ in range(rng.choice([1, 1, 2, 3])):
            lits.append(G.random_exact_literal(rng) if rng.random() < 0.6 else rng.choice(G.FLOAT_TEXTS))
        tmpl = rng.randrange(4)
        if tmpl == 0:
            body = b':'.join(b'A=' + l for l in lits)
        elif tmpl == 1:
            body = b'PRINT ' + b';'.join(lits)
        elif tmpl == 2:
            body = b'IF X=' + lits[0] + b' THEN PRINT ' + lits[-1] + b' ELSE PRINT ' + lits[0] + b' EQV ' + lits[-1]
        else:
            body = b'FOR I=' + lits[0] + b' TO ' + lits[-1] + b' STEP ' + lits[0]
        if rng.random() < 0.3:
            body = body.lower()
        text = b'%d ' % rng.choice([10, 100, 65529]) + body
        hist['text_float'] = hist.get('text_float', 0) + 1
        return {'k': 'text', 'syn': syn, 'b': list(bytearray(text)), 'ci': True,
                'lits': [list(bytearray(l)) for l in lits]}

    def _gen_tokens(self, rng, hist):
        syn = rng.randrange(3)
        body = progen.line_body(rng, [10, 20]).encode('latin1')
        st, t = self._tokenise(syn, b'10 ' + body)
        if st != [0] or not t:
            t = b'\0\xc0\xde\x0a\0\x91 \x12'
        t = bytearray(t)
        for _ in range(rng.randrange(0, 4)):
            q = rng.random()
            pos = rng.randrange(3, len(t) + 1)
            if q < 0.4 and pos < len(t):
                t[pos] = rng.choice([0x0b, 0x0c, 0x0e, 0x0f, 0x11, 0x1b, 0x1c, 0x1d, 0x1f, 0x22, 0x3a, 0x8f, 0xd9, 0xa1,
                                     0xb1, 0xe9, 0xfd, 0xfe, 0xff, 0x0a, 0x09, 0x7f, 0x20, 0x41, 0x31, rng.randrange(256)])
            elif q < 0.7:
                t[pos:pos] = bytearray([rng.randrange(256)])
            elif pos < len(t):
                del t[pos:]
        hist['tokens_mutated'] += 1
        return {'k': 'tokens', 'syn': syn, 'b': list(t[:300])}

    def _gen_word(self, rng, hist):
        syn = rng.randrange(3)
        w = rng.choice(self._keywords(syn) + [b'GO TO', b'GO SUB', b'GO  TO', b'GO   TO', b'GO', b'A', b'ZZ', b'X.1'])
        if not (65 <= bytearray(w)[0] <= 90):
            w = b'A' + w
        if rng.random() < 0.3:
            w = w[:rng.randrange(1, len(w) + 1)]
        w = self._randcase(rng, w)
        w += rng.choice([b'', b' ', b'1', b'X', b'$', b'(', b'.', b'x y', b' TO', b' SUB', b'  TO 1', b'=1', b'%'])
        hist['word'] += 1
        return {'k': 'word', 'syn': syn, 'b': list(bytearray(w))}

    def gen_cases(self, n):
        rng = self.rng
        hist = {'text_progen': 0, 'text_soup': 0, 'text_garbage': 0, 'tokens_mutated': 0, 'word': 0}
        out = []
        for i in range(n):
            m = i % 10
            if m < 2:
                out.append(self._gen_text(rng, hist))
            elif m < 3:
                out.append(self._gen_float(rng, hist))
            elif m < 4:
                out.append(self._gen_tokens(rng, hist))
            elif m < 5:
                out.append(self._gen_word(rng, hist))
            elif m < 7:
                out.append(self._gen_items(rng, hist))
            elif m < 9:
                out.append(self._gen_itext(rng, hist))
            else:
                out.append(self._gen_items(rng, hist, perturb=True))
        self.histogram = hist
        return out

    def nontrivial(self, case, out):
        if case['k'] in ('items', 'items_any', 'itext'):
            return len(case['items']) > 1
        return len(case['b']) > 3 and out[:1] == [0] or case['k'] == 'word'

    def describe(self, case):
        d = dict(case)
        if 'items' in case:
            d['canonical_text'] = repr(G.line_text(case['n'], case['items']))
            if 'b' in case:
                d['text'] = repr(bytes(bytearray(case['b'])))
        elif case['k'] != 'tokens':
            d['text'] = repr(bytes(bytearray(case['b'])))
        return d

    def undescribe(self, d):
        return {k: v for k, v in d.items() if k not in ('canonical_text', 'text')}


    def shrink_candidates(self, case):
        """grammar cases are not shrunk: a sub-list of a canonical item list is in general not canonical, so a
        shrunk case would no longer be a witness against the property; byte-string cases lose bytes."""
        if case['k'] in ('items', 'items_any', 'itext') or 'lits' in case or 'data_tail' in case:
            return
        v = case['b']
        n = len(v)
        cuts = []
        if n > 1:
            cuts += [v[:n // 2], v[n // 2:]]
        if n <= 40:
            cuts += [v[:i] + v[i + 1:] for i in range(n)]
        else:
            step = max(1, n // 8)
            cuts += [v[:i] + v[i + step:] for i in range(0, n, step)]
        for c in cuts:
            d = dict(case)
            d['b'] = c
            yield d

    @staticmethod
    def _recase(text, mode, rng=None):
        """re-spell `text` in upper / lower / random capitalisation everywhere outside string literals, REM / '
        tails and DATA tails (conservatively: from the first REM, ' or DATA outside a literal to the end)."""
        b = bytearray(text)
        up = bytes(b).upper()
        out = bytearray()
        instr = False
        i = 0
        while i < len(b):
            ch = b[i]
            if ch == 34:
                instr = not instr
            if not instr and (ch == 39 or up[i:i + 3] == b'REM' or up[i:i + 4] == b'DATA'):
                # the keyword itself may still change case, its tail may not
                n = 0 if ch == 39 else (3 if up[i:i + 3] == b'REM' else 4)
                head = bytes(b[i:i + n])
                head = head.upper() if mode == 'upper' else head.lower() if mode == 'lower' else bytes(
                    bytearray(c ^ 32 if rng.random() < 0.5 and (65 <= c <= 90 or 97 <= c <= 122) else c
                              for c in bytearray(head)))
                return bytes(out) + head + bytes(b[i + n:])
            c = bytes(bytearray([ch]))
            if not instr:
                if mode == 'upper':
                    c = c.upper()
                elif mode == 'lower':
                    c = c.lower()
                elif rng.random() < 0.5:
                    c = c.swapcase()
            out += c
            i += 1
        return bytes(out)

    def _case_oracle(self, case):
        """keywords are recognised case-insensitively: the line in lower / upper / random capitalisation of
        everything outside string literals, REM/' tails and DATA tails tokenises like its upper-case spelling."""
        syn = case['syn']
        x = bytes(bytearray(case['b']))
        ref = self._tokenise(syn, self._recase(x, 'upper'))
        rng = random.Random(core.sha(case))
        for mode in ('asis', 'lower', 'mixed', 'mixed'):
            v = x if mode == 'asis' else self._recase(x, mode, rng)
            got = self._tokenise(syn, v)
            if got != ref:
                return 'capitalisation changes the tokens: %r tokenises differently from %r' % (
                    v, self._recase(x, 'upper'))
        return None

    def oracle(self, case, out):
        """direct reading of the property on the implementation (no Coq model involved)."""
        r = self._run(case)
        if case['k'] == 'itext' or (case['k'] == 'text' and case.get('ci')):
            if case['b']:
                why = self._case_oracle(case)
                if why:
                    return why
        if case['k'] == 'text' and 'data_tail' in case:
            # DATA items, quoted or not, are stored byte for byte up to the end of the statement, and the line
            # lists as text that re-enters as the identical token line
            tail = bytes(bytearray(case['data_tail']))
            if r['tokens'] is None or r['text'] is None:
                return 'DATA line could not be tokenised / listed'
            if self._to_token(case['syn'])[b'DATA'] + tail not in r['tokens']:
                return 'DATA items %r are not stored as typed: tokens %r' % (tail, r['tokens'])
            if r['tokens2'] != r['tokens']:
                return 'tokenise(list(T)) != T for a DATA line: listed %r' % (r['text'],)
        if case['k'] == 'text' and 'lits' in case:
            # float literal clause, on the implementation: a line whose number literals are exactly representable
            # with at most 7 / 16 significant digits lists as text that re-enters as the identical token line
            lits = [bytes(bytearray(l)) for l in case['lits']]
            if all(G.exactly_representable(l) for l in lits):
                if r['tokens'] is None or r['text'] is None:
                    return 'line with exactly representable literals %r could not be tokenised / listed' % (lits,)
                if r['tokens2'] != r['tokens']:
                    return ('tokenise(list(T)) != T for exactly representable literals %r: listed %r'
                            % (lits, r['text']))
                if len(lits) == 1 and r['text'].count(b'=') == 1 and b':' not in r['text']:
                    listed = r['text'].split(b'=')[1].strip()
                    try:
                        if G.literal_value(listed)[0] != G.literal_value(lits[0])[0]:
                            return 'literal %r is listed as %r: value changed' % (lits[0], listed)
                    except ValueError:
                        pass
        if case['k'] == 'items':
            # a line of the canonical grammar lists as text that re-enters as the identical tokenised line
            if r['text'] is None:
                return 'canonical token line could not be listed'
            if r['tokens2'] != r['tokens']:
                return 'canonical token line does not re-enter identically: listed %r' % (r['text'],)
            if r['text'] != G.line_text(case['n'], case['items']):
                return 'canonical token line listed as %r' % (r['text'],)
        if case['k'] == 'itext':
            if not case['b']:
                return None
            if r['tokens'] is None or r['text'] is None:
                return 'grammar line could not be tokenised / listed'
            # tokenise(list(tokenise(x))) == tokenise(x)
            if r['tokens2'] != r['tokens']:
                return 'tokenise(list(tokenise(x))) != tokenise(x); listed %r' % (r['text'],)
            if not case['sp']:
                # capitalisation only: the tokens are those of the grammar line, the listing is its canonical text
                want = G.line_tokens(case['n'], case['items'], self._to_token(case['syn']))
                if r['tokens'] != want:
                    return 'keyword capitalisation changed the tokens'
                if r['text'] != G.line_text(case['n'], case['items']):
                    return 'listing is not the canonical text: %r' % (r['text'],)
        return None


CHECK = C17
