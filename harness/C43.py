"""C43 - Session API values round-trip.

A case is a short script of API calls on a fresh Session:
  {'cp': '437', 'ops': [op, ...]}     op =
    ['base', b]               s.execute('OPTION BASE b')
    ['dim', name, dims]       s.execute('DIM name(dims)')
    ['set', name, val]        s.set_variable(name, val)
    ['get', name, ty]         s.get_variable(name, as_type=TY[ty])
    ['eval', name, idx]       s.evaluate('name' / 'name(i,j)')      (+ PRINT of the same, for the oracle)
    ['conv', val, ty]         s.convert(val, TY[ty])
    ['raw', name, bytes]      scalars.set(name, values.from_bytes(bytes))   (to exercise to_value on any buffer)
  val = ['i', n] | ['t', 0/1] | ['f', float.hex() | 'inf' | '-inf' | 'nan'] | ['y', bytes] | ['u', code points]
        | ['l', [val, ...]] | ['n']
The model (theories/model/Api.v, `run`) executes the same script; outputs are framed per op.
"""
import math
import unicodedata
from fractions import Fraction

from vlib import core
from harness import common

SIGILS = '%!#$'
TYNAMES = {0: None, 1: int, 2: float, 3: bool, 4: bytes, 5: str, 6: list}
CPS = ['437', '850', '936', '932', '866']
CPS_W = ['437', '850', '866', '437', '850', '866', '936', '932']
PYCODEC = {'437': 'cp437', '850': 'cp850', '866': 'cp866'}

FLOAT_POOL = [0.0, -0.0, 1.0, -1.0, 0.5, 0.1, -0.1, 0.7, 1.7, 100.7, 3.14159, 1 / 3, 2 / 3, 1e38, 1.7e38,
              1.7014117331926443e+38, 1.7014118346046923e+38, 1.70141183e38, 1.8e38, 1e39, 1e300,
              1.7976931348623157e308, 1e-38, 2.9387358770557188e-39, 2.93873587705572e-39, 2.9e-39, 3e-39,
              1.469367938527859e-39, 1e-40, 1e-290, 1e-300, 1e-320, 5e-324, 2.2250738585072014e-308,
              8388607.5, 8388608.5, 8388609.5, 16777215.0, 16777216.0, 16777217.0, 16777219.0, 33554431.0,
              12345678.9, 0.699999988079071, 0.6999999284744263, 2.0 ** 23 - 0.25, 2.0 ** 24 - 0.5,
              2.0 ** 24 - 0.25, 2.0 ** 127, 2.0 ** 127 * (2 - 2.0 ** -23), 2.0 ** 127 * (2 - 2.0 ** -24),
              2.0 ** 127 * (2 - 2.0 ** -52), 2.0 ** -128, 2.0 ** -129, 2.0 ** -129 * (2 - 2.0 ** -24),
              2.0 ** -129 * (2 - 2.0 ** -52), 2.0 ** -130,
              float('inf'), float('-inf'), float('nan'), 32767.0, -32768.0, 32767.5, 3.5, 3.0, -0.5]
INT_POOL = common.INT16_POOL + [32768, -32769, 65535, 65536, -65536, 10 ** 10, 2 ** 31, 2 ** 53, 2 ** 53 + 1,
                                2 ** 63, -2 ** 63, 10 ** 38, 2 ** 127, 2 ** 127 - 2 ** 102, 2 ** 128, 10 ** 40,
                                2 ** 1023, 2 ** 1024 - 2 ** 970, 2 ** 1024 - 2 ** 970 - 1, 2 ** 1024, 10 ** 400]


# ---------------------------------------------------------------------------------------------------------
# value encodings

def f2me(x):
    """finite float -> canonical (m, e): x = m * 2**e, m odd or (0, 0)"""
    if x == 0:
        return 0, 0
    p, q = x.as_integer_ratio()
    e = -(q.bit_length() - 1)
    while p % 2 == 0:
        p //= 2
        e += 1
    return p, e


def fhex(x):
    if x != x:
        return 'nan'
    if x in (float('inf'), float('-inf')):
        return 'inf' if x > 0 else '-inf'
    return x.hex()


def unhex(h):
    return float(h) if h in ('nan', 'inf', '-inf') else float.fromhex(h)


def py(val):
    k = val[0]
    if k == 'i':
        return int(val[1])
    if k == 't':
        return bool(val[1])
    if k == 'f':
        return unhex(val[1])
    if k == 'y':
        return bytes(val[1])
    if k == 'u':
        return ''.join(chr(c) for c in val[1])
    if k == 'l':
        return [py(v) for v in val[1]]
    if k == 'n':
        return None
    raise ValueError(val)


def zint(n):
    return '(%d)' % n


def coq(val, nfc=True):
    """Coq term of a value; unicode strings are NFC-normalised (what Codepage._split_unicode does first) unless the
    value never reaches the codepage (nfc=False: a same-type / identity conversion returns the object itself)"""
    k = val[0]
    if k == 'i':
        return '(PInt %s)' % zint(int(val[1]))
    if k == 't':
        return '(PBool %s)' % ('true' if val[1] else 'false')
    if k == 'f':
        x = unhex(val[1])
        if x != x:
            return 'PNan'
        if x in (float('inf'), float('-inf')):
            return '(PInf %s)' % ('false' if x > 0 else 'true')
        m, e = f2me(x)
        return '(PFloat %s %s)' % (zint(m), zint(e))
    if k == 'y':
        return '(PBytes %s)' % core.zl(val[1])
    if k == 'u':
        s = ''.join(chr(c) for c in val[1])
        if nfc:
            s = unicodedata.normalize('NFC', s)
        return '(PUni %s)' % core.zl([ord(c) for c in s])
    if k == 'l':
        return '(PList [%s])' % ';'.join(coq(v, nfc) for v in val[1])
    if k == 'n':
        return 'PNone'
    raise ValueError(val)


def enc_py(v):
    if v is None:
        return [5]
    if isinstance(v, bool):
        return [6, int(v)]
    if isinstance(v, int):
        return [0, v]
    if isinstance(v, float):
        if v != v:
            return [8]
        if v in (float('inf'), float('-inf')):
            return [7, int(v < 0)]
        m, e = f2me(v)
        return [1, m, e]
    if isinstance(v, (bytes, bytearray)):
        return [2, len(v)] + list(v)
    if isinstance(v, str):
        return [4, len(v)] + [ord(c) for c in v]
    if isinstance(v, list):
        out = [3, len(v)]
        for x in v:
            out += enc_py(x)
        return out
    return [9]


def dec_py(l, i=0):
    """inverse of enc_py on a list of ints: returns (value, next index); floats come back as Fraction or str"""
    t = l[i]
    if t == 5:
        return None, i + 1
    if t == 6:
        return bool(l[i + 1]), i + 2
    if t == 0:
        return l[i + 1], i + 2
    if t == 1:
        return ('F', Fraction(l[i + 1]) * Fraction(2) ** l[i + 2]), i + 3
    if t == 7:
        return ('F', '-inf' if l[i + 1] else 'inf'), i + 2
    if t == 8:
        return ('F', 'nan'), i + 1
    if t == 2:
        n = l[i + 1]
        return bytes(l[i + 2:i + 2 + n]), i + 2 + n
    if t == 4:
        n = l[i + 1]
        return ''.join(chr(c) for c in l[i + 2:i + 2 + n]), i + 2 + n
    if t == 3:
        n = l[i + 1]
        i += 2
        out = []
        for _ in range(n):
            v, i = dec_py(l, i)
            out.append(v)
        return out, i
    return ('?', t), i + 1


def frames(out):
    res = []
    i = 0
    while i < len(out):
        n = out[i]
        res.append(out[i + 1:i + 1 + n])
        i += 1 + n
    return res


ERRTEXT = [(b'Duplicate Definition', 10), (b'Subscript out of range', 9), (b'Illegal function call', 5),
           (b'Overflow', 6), (b'Out of memory', 7), (b'Syntax error', 2), (b'Type mismatch', 13),
           (b'Out of string space', 14), (b'String too long', 15)]


def err_of_output(out):
    if isinstance(out, str):
        out = out.encode('latin-1', 'replace')
    if not out.strip():
        return [0]
    for t, n in ERRTEXT:
        if t.lower() in out.lower():
            return [1, n]
    return [2, 8]


def vis_ops(case):
    """the observed ops of a case ('exec' ops only create string garbage and scratch variables)"""
    return [op for op in case['ops'] if op[0] != 'exec']


CLEAR_FORMS = ['CLEAR', 'NEW', 'RUN', '10 REM', '10 REM\rRUN']


def basic_literal(val):
    """a BASIC literal with the same value as the Python value (only ints and quote-free printable byte strings)"""
    if val[0] == 'i':
        return str(val[1])
    if val[0] == 'y':
        assert all(32 <= c < 127 and c != 34 for c in val[1])
        return '"%s"' % ''.join(chr(c) for c in val[1])
    raise ValueError(val)


def limit_depth(val, maxdepth):
    """replace lists nested deeper than maxdepth by an int leaf"""
    if val[0] != 'l':
        return val
    if maxdepth == 0:
        return ['i', 1]
    return ['l', [limit_depth(v, maxdepth - 1) for v in val[1]]]


def sanitize(case):
    """Memory is not modelled: a list nested 4 deep assigned to an array that was never dimensioned auto-dimensions
    11^4 elements, which is Out of memory for doubles (and borderline for the other types).  Such values are cut to
    depth 3 unless the array was dimensioned before (then the rank mismatch is Subscript out of range, no allocation)."""
    dimmed = set()
    ops = []
    for op in case['ops']:
        if op[0] == 'dim':
            dimmed.add(op[1].upper())
        elif op[0] == 'clear':
            dimmed.clear()
        elif op[0] == 'set' and '(' in op[1] and op[1].upper().split('(')[0] not in dimmed:
            op = [op[0], op[1], limit_depth(op[2], 3)]
        ops.append(op)
    return dict(case, ops=ops)


def name_bytes(name):
    return [ord(c) for c in name]


def expr_of(name, idx):
    return name if not idx else '%s(%s)' % (name, ','.join(str(i) for i in idx))


# ---------------------------------------------------------------------------------------------------------
# reference conversions for the oracle (exact rational arithmetic, no model)

def mbf_nearest(x, nbits):
    """the value the property allows for a finite non-zero float x stored in an MBF float with nbits mantissa bits:
    nearest representable (halves away from zero), largest value on overflow, zero on underflow"""
    fx = Fraction(x)
    a = abs(fx)
    e = math.frexp(abs(x))[1]
    # a = f * 2**e, 0.5 <= f < 1 ; ulp = 2**(e - nbits)
    ulp = Fraction(2) ** (e - nbits)
    q = a / ulp
    man = int(q + Fraction(1, 2))          # floor(q + 1/2)
    if man == 2 ** nbits:
        man //= 2
        e += 1
        ulp *= 2
    # exponent byte = e + 128 must be in 1..255
    if e + 128 > 255:
        big = (2 ** nbits - 1) * Fraction(2) ** (127 - nbits)
        return -big if fx < 0 else big
    if e + 128 <= 0:
        return Fraction(0)
    r = man * ulp
    return -r if fx < 0 else r


def to_double(fr):
    """Fraction -> nearest double as Fraction (round half even), for 56-bit double mantissas read back"""
    return Fraction(float(fr))


class C43(core.Check):
    ID = 'C43'
    GEN = ['gen_arrays', 'gen_codepages', 'gen_codepages_dbcs']
    PROPS = 'props/C43.v'
    MODEL_IMPORTS = ['gen.Gen_arrays', 'model.Api', 'model.Api_env']
    QUICK_CASES = 600
    THOROUGH_CASES = 6000
    TRUSTED = [
        'hand model model/Api.v of api.py / implementation.py (set_variable, get_variable, get_converter, evaluate of a '
        'variable reference), Values.from_value / to_value, Integer and Float pack/unpack, Arrays.from_list / to_list / '
        'check_dim / allocate, tied by correspondence on real Sessions; flat array positions are the regenerated '
        'gen.Gen_arrays.arrays_index (C12), codepage conversion is model/Codepage.v over regenerated tables (C41)',
        'Python floats are modelled as dyadic rationals m*2^e; math.frexp / math.ldexp / math.floor / +0.5 / int->float '
        'rounding are modelled as exact rational operations (argued exact in design_notes/C43.md) and only tested',
        'string space, memory limits, byte-level array buffers (C10/C12/C20) and the expression parser are not modelled: '
        'a stored string is what its pointer dereferences to, evaluate() is modelled for variable references only',
        'unicodedata.normalize(NFC) is not modelled (the model takes the normalised string)',
    ]
    PARTIAL = ('float clause: proved for the executable model of the fixed Float.from_value (nearest value, exact for '
               'representable ones) and, independently, from a nearest-or-adjacent contract (C43_float_partial); the '
               'Python float primitives are modelled, not verified. "evaluate returns what PRINT shows" is proved as '
               'evaluate = get_variable on the stored value; the decimal PRINT rendering is C07 and here only tested '
               'by the oracle. The unicode string theorem is per character for all pages and for whole strings on '
               'single-byte pages without multi-code-point clusters.')
    RULE = ('scripts of set_variable / get_variable / evaluate / convert on fresh real Sessions (codepages 437, 850, '
            '936, 932, 866; OPTION BASE unset/0/1; arrays pre-dimensioned exactly / larger / smaller / not at all): '
            'ints dense at the 16-bit limits and far outside, bools, floats (pool of boundary values: representable '
            'singles, halves, MBF range limits, subnormals, inf, nan; random mantissa/exponent), ints into float '
            'variables, byte strings up to 300 bytes, unicode strings of repertoire and non-repertoire characters, '
            'nested lists of rank 1-4 incl. empty / ragged / mixed nesting, raw buffers; malformed names. '
            'Every op output compared with the model; oracle = direct round-trip reading with exact rational '
            'arithmetic and Python codecs. non-trivial = a set succeeded and a get returned a value; distinct by hash')
    histogram = None

    # -------------------------------------------------------------------------------------------------
    def corpus(self):
        A, Af, Ad, As = 'A%', 'A!', 'A#', 'A$'
        c = []

        def sc(ops, cp='437'):
            c.append({'cp': cp, 'ops': ops})
        for n in (0, 1, -1, 32767, -32768, 32768, -32769, 10 ** 30):
            sc([['set', A, ['i', n]], ['get', A, 0], ['eval', A, []]])
        sc([['set', A, ['t', 1]], ['get', A, 0], ['set', A, ['t', 0]], ['get', A, 0], ['get', A, 3], ['get', A, 2]])
        sc([['set', Af, ['t', 1]], ['get', Af, 0], ['set', Ad, ['t', 1]], ['get', Ad, 0], ['get', Ad, 1]])
        # K43a: float into an integer variable
        sc([['set', A, ['f', fhex(3.5)]], ['get', A, 0]])
        sc([['set', A, ['f', fhex(1e10)]], ['set', A, ['f', 'nan']], ['set', A, ['f', 'inf']], ['get', A, 0]])
        # D43a witnesses
        for x in (1e-300, 1e-320, 5e-324, float('inf'), float('-inf'), float('nan'), 0.7, 0.699999988079071, 0.1,
                  1e39, -1e39, 2.9e-39, 16777217.0):
            sc([['set', Af, ['f', fhex(x)]], ['get', Af, 0], ['eval', Af, []],
                ['set', Ad, ['f', fhex(x)]], ['get', Ad, 0], ['eval', Ad, []]])
        sc([['set', Af, ['i', 10 ** 400]], ['get', Af, 0], ['set', Ad, ['i', 2 ** 53 + 1]], ['get', Ad, 0],
            ['set', Ad, ['i', -10 ** 400]], ['get', Ad, 0]])
        # strings
        sc([['set', As, ['y', [97, 98, 99]]], ['get', As, 0], ['get', As, 5], ['eval', As, []]])
        sc([['set', As, ['u', [97, 233, 0x20ac, 0x4e2d, 98]]], ['get', As, 0], ['get', As, 5]])
        sc([['set', As, ['u', [0x2022, 7, 13, 10, 0x266a]]], ['get', As, 0], ['get', As, 5]])
        sc([['set', As, ['u', [101, 0x301, 0, 65, 0, 300]]], ['get', As, 0], ['get', As, 5]])
        sc([['set', As, ['y', [120] * 255]], ['get', As, 0], ['set', As, ['y', [120] * 256]], ['get', As, 0]])
        sc([['set', As, ['i', 5]], ['set', As, ['n']], ['set', A, ['y', [1]]], ['set', Af, ['y', [1]]],
            ['set', Af, ['n']], ['set', A, ['l', [['i', 1]]]]])
        sc([['set', As, ['u', [0x4e02, 0x2500, 0x2500, 97]]], ['get', As, 0], ['get', As, 5]], cp='936')
        # names
        sc([['set', 'A', ['i', 1]], ['get', 'A', 0], ['set', '', ['i', 1]], ['set', 'b%', ['i', 7]], ['get', 'B%', 0],
            ['get', 'b%', 0], ['set', 'B()', ['l', [['i', 1]]]], ['get', 'c%()', 0], ['get', 'c%()', 2]])
        # arrays
        sc([['dim', 'A%', [1, 2]], ['set', 'A%()', ['l', [['l', [['i', 1], ['i', 2], ['i', 3]]],
                                                          ['l', [['i', 4], ['i', 5], ['i', 6]]]]]],
            ['get', 'A%()', 0], ['eval', 'A%', [1, 0]], ['eval', 'A%', [0, 1]], ['eval', 'A%', [2, 0]]])
        sc([['base', 1], ['dim', 'A%', [2, 3]], ['set', 'A%()', ['l', [['l', [['i', 1], ['i', 2], ['i', 3]]],
                                                                       ['l', [['i', 4], ['i', 5], ['i', 6]]]]]],
            ['get', 'A%()', 0], ['eval', 'A%', [2, 1]], ['eval', 'A%', [0, 1]]])
        sc([['dim', 'A%', [1, 1, 1]], ['set', 'A%()', ['l', [['l', [['l', [['i', 1], ['i', 2]]], ['l', [['i', 3], ['i', 4]]]]],
                                                             ['l', [['l', [['i', 5], ['i', 6]]], ['l', [['i', 7], ['i', 8]]]]]]]],
            ['get', 'A%()', 0]])
        sc([['set', 'A%()', ['l', [['i', 1], ['i', 2], ['i', 3]]]], ['get', 'A%()', 0], ['get', 'A%()', 2]])
        sc([['base', 1], ['set', 'A%()', ['l', [['i', 1], ['i', 2], ['i', 3]]]], ['get', 'A%()', 0]])
        sc([['set', 'A%()', ['l', [['i', k] for k in range(12)]]], ['get', 'A%()', 0]])
        sc([['dim', 'A%', [1]], ['set', 'A%()', ['l', [['i', 1], ['i', 2], ['i', 3]]]], ['get', 'A%()', 0]])
        sc([['dim', 'A%', [1, 1]], ['set', 'A%()', ['l', [['i', 1], ['i', 2]]]], ['set', 'A%()', ['l', []]],
            ['set', 'A%()', ['l', [['l', []]]]], ['set', 'A%()', ['l', [['l', [['i', 1], ['i', 2]]], ['l', [['i', 3]]]]]],
            ['get', 'A%()', 0], ['set', 'A%()', ['l', [['l', [['i', 1]]], ['i', 3]]]],
            ['set', 'A%()', ['l', [['i', 1], ['l', [['i', 2]]]]]], ['set', 'A%()', ['i', 5]], ['set', 'A%()', ['i', 0]],
            ['get', 'A%()', 0], ['get', 'A%()', 2], ['get', 'A%()', 6]])
        # D43b witnesses
        sc([['dim', 'A$', [1]], ['set', 'A$()', ['l', [['u', [97, 98]], ['u', [233]]]]], ['get', 'A$()', 0],
            ['get', 'A$()', 5]])
        sc([['dim', 'B%', [1]], ['set', 'B%()', ['l', [['t', 1], ['t', 0]]]], ['get', 'B%()', 0],
            ['dim', 'C!', [1]], ['set', 'C!()', ['l', [['t', 1], ['f', fhex(0.7)]]]], ['get', 'C!()', 0]])
        sc([['dim', 'B%', [1]], ['set', 'B%()', ['l', [['i', 1], ['i', 40000]]]], ['get', 'B%()', 0],
            ['set', 'B%()', ['y', [97, 98]]], ['get', 'B%()', 0]])
        # the same value assigned again after BASIC changed / cleared the variable (stale "last assigned" caches)
        sc([['set', 'A%', ['i', 5]], ['let', 'A%', ['i', 7]], ['get', 'A%', 0], ['set', 'A%', ['i', 5]], ['get', 'A%', 0],
            ['eval', 'A%', []]])
        for form in range(len(CLEAR_FORMS)):
            sc([['set', 'A%', ['i', 5]], ['set', 'B$', ['y', [120, 121]]], ['set', 'F!', ['f', fhex(0.5)]],
                ['clear', form], ['get', 'A%', 0],
                ['set', 'A%', ['i', 5]], ['set', 'B$', ['y', [120, 121]]], ['set', 'F!', ['f', fhex(0.5)]],
                ['get', 'A%', 0], ['get', 'B$', 0], ['get', 'F!', 0], ['eval', 'B$', []]])
        sc([['base', 1], ['set', 'C%()', ['l', [['i', 1], ['i', 2]]]], ['letel', 'C%', [2], ['i', 9]], ['get', 'C%()', 0],
            ['set', 'C%()', ['l', [['i', 1], ['i', 2]]]], ['get', 'C%()', 0], ['clear', 0], ['get', 'C%()', 0],
            ['set', 'C%()', ['l', [['i', 1], ['i', 2]]]], ['get', 'C%()', 0], ['letel', 'C%', [0], ['i', 1]],
            ['letel', 'D$', [3, 11], ['y', [65]]], ['letel', 'D$', [3, 1], ['y', [65]]], ['get', 'D$()', 0]])
        # string-space pressure in one session: collections must not detach strings converted earlier in the same row
        press = [['dim', 'A$', [3]]]
        for rnd in range(30):
            row = [['y', [48 + rnd % 10, 65 + i] + [97 + (rnd + i) % 26] * 50] for i in range(4)]
            press += [['set', 'A$()', ['l', row]], ['get', 'A$()', 0], ['set', 'T$', ['y', [104, 105, 48 + rnd % 10]]],
                      ['get', 'T$', 0]]
        c.append({'cp': '437', 'mem': 8000, 'ops': press})
        # ragged list, 4 deep, with a 402-digit int (VERIF_SEED=7 alarm: undimensioned it auto-dimensions 11^4 doubles =
        # Out of memory, which the memory-free model cannot say; dimensioned, the rank mismatch comes first; the
        # generator now cuts undimensioned values to depth 3, see sanitize)
        deep = ['l', [['l', [['l', [['l', [['i', 1]]], ['f', fhex(1 / 3)]]]]], ['l', [['l', [['l', [['i', 1]]], ['t', 0]]]]],
                      ['l', [['l', [['i', -10 ** 401], ['f', '0x1.fffffffffc000p-48']]]]]]]
        c.append({'cp': '866', 'ops': [['dim', 'Y#', [1, 1, 1]], ['set', 'Y#()', deep], ['get', 'Y#()', 0],
                                       ['eval', 'Y#', [1, 0, 1]], ['get', 'Y#()', 5]]})
        c.append(sanitize({'cp': '866', 'ops': [['set', 'Y#()', deep], ['get', 'Y#()', 0], ['eval', 'Y#', [1, 0, 1]],
                                                ['get', 'Y#()', 5]]}))
        c.append({'cp': '437', 'ops': [['set', 'Y#()', ['l', [['l', [['i', -10 ** 401], ['f', fhex(0.5)]]], ['i', 3]]]],
                                       ['get', 'Y#()', 0]]})
        # identity conversion of a decomposed unicode string returns it unchanged (no NFC): minimised thorough alarm
        sc([['conv', ['u', [35, 56, 110, 768, 102, 45]], 5], ['conv', ['u', [110, 768]], 0], ['conv', ['u', [110, 768]], 4],
            ['conv', ['u', [68, 242]], 6], ['conv', ['l', [['u', [110, 768]]]], 6], ['conv', ['t', 1], 5]])
        sc([['conv', ['i', 5], 2], ['conv', ['f', fhex(-2.5)], 1], ['conv', ['t', 1], 1], ['conv', ['t', 1], 2],
            ['conv', ['i', 0], 3], ['conv', ['y', [7, 130, 65]], 5], ['conv', ['u', [233, 0x20ac]], 4],
            ['conv', ['i', 10 ** 400], 2], ['conv', ['f', 'inf'], 1], ['conv', ['f', 'nan'], 1], ['conv', ['i', 1], 4],
            ['conv', ['i', 2 ** 53 + 1], 2], ['conv', ['n'], 1], ['conv', ['f', 'nan'], 3]])
        sc([['raw', 'A#', [255, 255, 255, 255, 255, 255, 127, 129]], ['get', 'A#', 0], ['eval', 'A#', []],
            ['raw', 'A#', [4, 0, 0, 0, 0, 0, 0, 129]], ['get', 'A#', 0],
            ['raw', 'A#', [12, 0, 0, 0, 0, 0, 0, 129]], ['get', 'A#', 0],
            ['raw', 'A!', [1, 2, 131, 0]], ['get', 'A!', 0], ['raw', 'A%', [0, 128]], ['get', 'A%', 0]])
        return c

    # -------------------------------------------------------------------------------------------------
    # generators
    def rname(self, sigil):
        rng = self.rng
        first = rng.choice('ABCXYZabq')
        rest = ''.join(rng.choice('ABZ09.az') for _ in range(rng.choice([0, 0, 0, 1, 2, 5])))
        return first + rest + sigil

    def rint(self):
        rng = self.rng
        r = rng.random()
        if r < 0.45:
            return rng.choice(INT_POOL) * rng.choice([1, 1, -1])
        if r < 0.8:
            return rng.randint(-32768, 32767)
        if r < 0.9:
            return rng.randint(-70000, 70000)
        return rng.randint(-2 ** 70, 2 ** 70)

    def rfloat(self):
        rng = self.rng
        r = rng.random()
        if r < 0.3:
            x = rng.choice(FLOAT_POOL)
            return x if rng.random() < 0.7 or x != x else -x
        if r < 0.75:
            # random mantissa width and exponent, dense around the MBF range limits
            w = rng.choice([1, 2, 8, 23, 24, 25, 26, 40, 52, 53])
            m = rng.getrandbits(w) | (1 << (w - 1)) | rng.choice([0, 1])
            if rng.random() < 0.3:
                m = (1 << w) - rng.choice([1, 2, 3])
            e = rng.choice([rng.randint(-140, 130), rng.randint(-140, 130), rng.randint(-30, 30),
                            rng.choice([-130, -129, -128, -127, 126, 127, 128]), rng.randint(-1074, 1023)]) - (w - 1)
            try:
                x = math.ldexp(m, e)
            except OverflowError:
                x = float('inf')
            return x * rng.choice([1, -1])
        if r < 0.9:
            return rng.uniform(-1, 1) * 10 ** rng.randint(-45, 45)
        return float(rng.randint(-2 ** 26, 2 ** 26)) + rng.choice([0, 0.5, 0.25, 0.75])

    def repertoire(self, cpname):
        cache = self.__dict__.setdefault('_reps', {})
        if cpname not in cache:
            import importlib
            cpm = importlib.import_module('pcbasic.basic.codepage')
            data = importlib.import_module('pcbasic.data.codepages')
            cp = cpm.Codepage(data.read_codepage(cpname))
            cache[cpname] = sorted(cp._unicode_to_cp.keys())
        return cache[cpname]

    def rustr(self, cpname, maxlen=20):
        rng = self.rng
        rep = self.repertoire(cpname)
        n = rng.choice([0, 1, 1, 2, 3, 5, 8, maxlen])
        out = []
        for _ in range(n):
            r = rng.random()
            if r < 0.6:
                out.append(rng.choice(rep))
            elif r < 0.8:
                out.append(chr(rng.randrange(32, 127)))
            elif r < 0.85:
                out.append(chr(rng.choice([0, 7, 9, 10, 13, 27, 28, 31, 127, 128, 255])))
            elif r < 0.9:
                out.append(chr(rng.choice([0x300, 0x301, 0x308, 0x327])))
            elif r < 0.97:
                out.append(chr(rng.choice([0x20ac, 0x4e2d, 0x3b1, 0x416, 0x2500, 0x2550, 0xe9, 0xff, 0x100])))
            else:
                out.append(chr(rng.choice([0xFFFF, 0x10000, 0x1F600])))
        return [ord(c) for c in ''.join(out)]

    def rbytes(self):
        rng = self.rng
        r = rng.random()
        n = rng.choice([0, 1, 2, 3, 5, 10]) if r < 0.7 else rng.choice([40, 100, 254, 255, 256, 300])
        return common.rand_bytes(rng, n)

    def rleaf(self, sigil, cp, wild=0.08):
        rng = self.rng
        if rng.random() < wild:
            return rng.choice([['n'], ['y', [65]], ['i', 40000], ['f', fhex(2.5)], ['u', [97]], ['t', 1],
                               ['l', [['i', 1]]], ['f', 'nan'], ['f', 'inf']])
        if sigil == '%':
            return ['t', rng.randrange(2)] if rng.random() < 0.1 else ['i', rng.randint(-32768, 32767)
                                                                       if rng.random() < 0.7 else self.rint()]
        if sigil in '!#':
            r = rng.random()
            if r < 0.1:
                return ['t', rng.randrange(2)]
            if r < 0.25:
                return ['i', self.rint()]
            return ['f', fhex(self.rfloat())]
        if rng.random() < 0.5:
            return ['y', self.rbytes()[:rng.choice([3, 8, 300])]]
        return ['u', self.rustr(cp, 6)]

    def rnested(self, shape, sigil, cp, wild):
        if len(shape) == 1:
            return ['l', [self.rleaf(sigil, cp, wild) for _ in range(shape[0])]]
        return ['l', [self.rnested(shape[1:], sigil, cp, wild) for _ in range(shape[0])]]

    def damage(self, val):
        """ragged / empty / mixed nesting"""
        rng = self.rng
        if val[0] != 'l' or not val[1]:
            return val
        items = list(val[1])
        r = rng.random()
        i = rng.randrange(len(items))
        if r < 0.25:
            items[i] = ['l', []]
        elif r < 0.45:
            items[i] = ['i', rng.choice([0, 1])]
        elif r < 0.65 and items[i][0] == 'l' and items[i][1]:
            items[i] = ['l', items[i][1][:-1]]
        elif r < 0.8:
            items[i] = self.damage(items[i])
        else:
            items.append(items[i])
        return ['l', items]

    def gen_scalar(self, hist):
        rng = self.rng
        cp = '437' if rng.random() < 0.8 else rng.choice(CPS_W)
        ops = []
        names = []
        for _ in range(rng.choice([1, 1, 2, 3])):
            sigil = rng.choice(SIGILS)
            name = self.rname(sigil) if not names or rng.random() < 0.7 else rng.choice(names)
            names.append(name)
            sigil = name[-1]
            r = rng.random()
            if r < 0.06:
                val = rng.choice([['n'], ['y', [65]], ['i', 7], ['f', fhex(2.5)], ['u', [97]], ['l', [['i', 1]]], ['t', 1]])
            elif sigil == '%':
                val = ['t', rng.randrange(2)] if rng.random() < 0.1 else ['i', self.rint()]
                if rng.random() < 0.04:
                    val = ['f', fhex(self.rfloat())]
            elif sigil in '!#':
                val = self.rleaf(sigil, cp, 0)
            else:
                val = ['y', self.rbytes()] if rng.random() < 0.45 else ['u', self.rustr(cp)]
            hist['set_' + sigil] = hist.get('set_' + sigil, 0) + 1
            ops.append(['set', name, val])
            ops.append(['get', name if rng.random() < 0.8 else name.swapcase(), 0])
            ops.append(['eval', name, []])
            if rng.random() < 0.3:
                ty = rng.choice([1, 2, 3, 4, 5, 6])
                ops.append(['get', name, ty])
            if rng.random() < 0.4:
                # the BASIC side changes or clears the variable; then the API assigns the SAME value again
                ops += self.basic_change(name)
                ops += [['set', name, val], ['get', name, 0], ['eval', name, []]]
                hist['reassign_after_basic_change'] = hist.get('reassign_after_basic_change', 0) + 1
        for name in names[:-1]:
            if rng.random() < 0.7:
                ops.append(['get', name, 0])
        return {'cp': cp, 'ops': ops}

    def basic_literal_for(self, sigil):
        rng = self.rng
        if sigil == '$':
            return ['y', [rng.choice([c for c in range(32, 127) if c != 34]) for _ in range(rng.choice([0, 1, 3, 8]))]]
        return ['i', rng.choice([0, 1, -1, 7, 255, -32768, 32767, rng.randint(-32768, 32767)])]

    def basic_change(self, name, idx=None):
        """ops by which BASIC itself changes the variable: LET with a literal, or CLEAR / NEW / RUN / a program line"""
        rng = self.rng
        if rng.random() < 0.55:
            if idx is None:
                return [['let', name, self.basic_literal_for(name[-1])]]
            return [['letel', name, idx, self.basic_literal_for(name[-1])]]
        return [['clear', rng.randrange(len(CLEAR_FORMS))]]

    def gen_history(self, hist):
        """one session, a few variables, values drawn from a SMALL pool per variable (identical repeats are frequent),
        API assignments interleaved with BASIC-side assignments and CLEAR / NEW / RUN / program lines; every variable
        is read back after every step"""
        rng = self.rng
        cp = '437'
        ops = []
        basesel = rng.choice([None, None, 0, 1])
        b = basesel or 0
        if basesel is not None:
            ops.append(['base', basesel])
        scal = [self.rname(sg) for sg in rng.sample(SIGILS, rng.choice([1, 2, 3]))]
        pools = {}
        for nm in scal:
            sg = nm[-1]
            pools[nm] = [self.basic_literal_for(sg) if rng.random() < 0.5 else
                         (['t', rng.randrange(2)] if sg != '$' and rng.random() < 0.2 else self.rleaf(sg, cp, 0))
                         for _ in range(rng.choice([1, 2, 2, 3]))]
        arr = None
        if rng.random() < 0.5:
            sg = rng.choice(SIGILS)
            arr = self.rname(sg)
            while arr.upper() in [x.upper() for x in scal]:
                arr = self.rname(sg)
            shape = [rng.choice([1, 2, 3]) for _ in range(rng.choice([1, 2]))]
            pools[arr] = [self.rnested(shape, sg, cp, 0) for _ in range(2)]
        live = []
        for _ in range(rng.choice([6, 9, 12, 16])):
            r = rng.random()
            if r < 0.55:
                nm = rng.choice(scal + ([arr] if arr else []))
                if nm == arr:
                    if rng.random() < 0.3:
                        ops.append(['dim', arr, [k - 1 + b for k in shape]])
                    ops.append(['set', arr + '()', rng.choice(pools[arr])])
                    key = arr + '()'
                else:
                    ops.append(['set', nm, rng.choice(pools[nm])])
                    key = nm
                if key not in live:
                    live.append(key)
            elif r < 0.8 or not live:
                nm = rng.choice(scal + ([arr] if arr else []))
                if nm == arr:
                    ops += self.basic_change(arr, [rng.randrange(b, k + b) for k in shape])
                else:
                    ops += self.basic_change(nm)
            else:
                nm = rng.choice(live)
                if nm.endswith('()'):
                    ops.append(['eval', nm[:-2], [rng.randrange(b, k + b) for k in shape]])
                else:
                    ops.append(['eval', nm, []])
            for key in live:
                ops.append(['get', key, 0])
        hist['history'] = hist.get('history', 0) + 1
        hist['history_ops'] = hist.get('history_ops', 0) + len(ops)
        return {'cp': cp, 'ops': ops}

    def gen_array(self, hist):
        rng = self.rng
        cp = '437' if rng.random() < 0.85 else rng.choice(CPS_W)
        sigil = rng.choice('%%%!#$')
        name = self.rname(sigil)
        rank = rng.choice([1, 1, 2, 2, 3, 3, 4])
        small = [1, 1, 2, 2, 3, 4]
        shape = [rng.choice(small if rank > 1 else small + [5, 10, 11, 12]) for _ in range(rank)]
        if rank == 4:
            shape = [rng.choice([1, 2]) for _ in range(4)]
        basesel = rng.choice([None, 0, 1, 1])
        b = basesel or 0
        ops = []
        if basesel is not None:
            ops.append(['base', basesel])
        predim = rng.choice(['exact', 'exact', 'exact', 'larger', 'smaller', 'none', 'otherrank'])
        if rank == 4 and predim in ('none', 'otherrank'):
            predim = 'exact'
        exact = [n - 1 + b for n in shape]
        if predim == 'exact':
            ops.append(['dim', name, exact])
        elif predim == 'larger':
            ops.append(['dim', name, [d + rng.choice([0, 1, 2]) for d in exact]])
        elif predim == 'smaller':
            ops.append(['dim', name, [max(b, d - rng.choice([0, 1])) for d in exact]])
        elif predim == 'otherrank':
            ops.append(['dim', name, [2] * rng.choice([r for r in (1, 2, 3) if r != rank])])
        wild = rng.choice([0, 0, 0, 0.1])
        val = self.rnested(shape, sigil, cp, wild)
        kind = 'regular'
        if rng.random() < 0.15:
            val = self.damage(val)
            kind = 'damaged'
        hist['array_rank%d_%s_%s' % (rank, predim, kind)] = hist.get('array_rank%d_%s_%s' % (rank, predim, kind), 0) + 1
        hist['base_%s' % basesel] = hist.get('base_%s' % basesel, 0) + 1
        aname = name + '()'
        ops.append(['set', aname, val])
        ops.append(['get', aname, 0])
        for _ in range(rng.choice([1, 2, 3])):
            idx = [rng.randrange(b, n + b) if rng.random() < 0.85 else rng.choice([-1, 0, n + b, 11, 12])
                   for n in shape]
            if rng.random() < 0.05:
                idx = idx[:-1] or [0, 0]
            ops.append(['eval', name, idx])
        if rng.random() < 0.25:
            ops.append(['get', aname, rng.choice([1, 2, 3, 4, 5, 6])])
        if rng.random() < 0.2:
            # overwrite part of it and read again
            shape2 = [rng.randint(1, n) for n in shape]
            ops.append(['set', aname, self.rnested(shape2, sigil, cp, 0)])
            ops.append(['get', aname, 0])
        if rng.random() < 0.1:
            ops.append(['base', rng.choice([0, 1])])
            ops.append(['get', aname, 0])
        return {'cp': cp, 'ops': ops}

    def gen_misc(self, hist):
        rng = self.rng
        cp = rng.choice(CPS_W)
        ops = []
        r = rng.random()
        if r < 0.4:
            for _ in range(rng.randint(1, 5)):
                val = rng.choice([['i', self.rint()], ['f', fhex(self.rfloat())], ['t', rng.randrange(2)],
                                  ['y', self.rbytes()[:12]], ['u', self.rustr(cp, 6)], ['n'], ['l', [['i', 1]]]])
                ops.append(['conv', val, rng.choice([0, 1, 2, 3, 4, 5, 6])])
            hist['convert'] = hist.get('convert', 0) + 1
        elif r < 0.8:
            for _ in range(rng.randint(1, 4)):
                sigil = rng.choice('%!#')
                size = {'%': 2, '!': 4, '#': 8}[sigil]
                b = common.rand_bytes(rng, size)
                if rng.random() < 0.3:
                    b = [rng.choice([0, 255, 128, 127, 4, 12, 8]) for _ in range(size)]
                if sigil != '%' and rng.random() < 0.7 and b[-1] == 0:
                    b[-1] = rng.randint(1, 255)
                nm = 'R' + sigil
                ops += [['raw', nm, b], ['get', nm, 0], ['eval', nm, []]]
            hist['raw'] = hist.get('raw', 0) + 1
        else:
            bad = rng.choice(['A', '', 'a%(', '(', 'A(1)', 'ab', '%', 'A$%'])
            ops += [['set', bad, ['i', 1]], ['get', bad, 0], ['set', bad + '()', ['l', [['i', 1]]]]]
            hist['bad_name'] = hist.get('bad_name', 0) + 1
        return {'cp': cp, 'ops': ops}

    def gen_pressure(self, hist):
        """one long history in ONE small-memory session: string arrays and scalars are re-assigned through the API
        (and string garbage is made through BASIC) so that string-space collections happen inside set_variable;
        after every assignment every variable is read back.  Live data stays far below the free space."""
        rng = self.rng
        mem = rng.choice([7500, 8000, 9000, 12000])
        ops = []
        basesel = rng.choice([None, 0, 1])
        b = basesel or 0
        if basesel is not None:
            ops.append(['base', basesel])
        arrays = {}
        for nm in rng.sample(['P$', 'Q$', 'RR$'], rng.choice([1, 2])):
            shape = rng.choice([[2], [3], [4], [5], [2, 2], [2, 3], [3, 2]])
            arrays[nm] = shape
            ops.append(['dim', nm, [k - 1 + b for k in shape]])
        scalars = rng.sample(['S$', 'T1$', 'U$', 'N%', 'F#'], rng.choice([1, 2, 3]))
        maxlen = 40 if sum(len(sh) > 1 for sh in arrays.values()) else 60

        def rstr(tag):
            k = rng.choice([0, 5, 20, maxlen, maxlen, maxlen])
            return ['y', ([ord(c) for c in tag] + [rng.randrange(33, 127)] * k)[:maxlen]]

        def nest(shape, tag):
            if len(shape) == 1:
                return ['l', [rstr('%s%d' % (tag, i)) for i in range(shape[0])]]
            return ['l', [nest(shape[1:], '%s%d' % (tag, i)) for i in range(shape[0])]]

        live = []
        for rnd in range(rng.choice([16, 24, 32, 48])):
            r = rng.random()
            if r < 0.7:
                nm = rng.choice(sorted(arrays))
                ops.append(['set', nm + '()', nest(arrays[nm], '%d' % rnd)])
                if nm + '()' not in live:
                    live.append(nm + '()')
            elif r < 0.9:
                nm = rng.choice(scalars)
                val = rstr('s%d' % rnd) if nm[-1] == '$' else (['i', rng.randint(-32768, 32767)] if nm[-1] == '%'
                                                               else ['f', fhex(self.rfloat())])
                ops.append(['set', nm, val])
                if nm not in live:
                    live.append(nm)
            else:
                ops.append(['exec', 'ZQ$=STRING$(%d,"q")+"r":ZR$=ZQ$+ZQ$:ZR$=""' % rng.choice([20, 60, 100])])
            for nm in live:
                ops.append(['get', nm, 0])
            if live and rng.random() < 0.3:
                nm = rng.choice(live)
                if nm.endswith('()'):
                    sh = arrays[nm[:-2]]
                    ops.append(['eval', nm[:-2], [rng.randrange(b, k + b) for k in sh]])
                else:
                    ops.append(['eval', nm, []])
        hist['pressure_history'] = hist.get('pressure_history', 0) + 1
        hist['pressure_ops'] = hist.get('pressure_ops', 0) + len(ops)
        return {'cp': '437', 'mem': mem, 'ops': ops}

    def gen_cases(self, n):
        rng = self.rng
        hist = {}
        out = []
        for i in range(max(12, n // 15)):
            out.append(self.gen_pressure(hist))
        for i in range(n):
            r = rng.random()
            if r < 0.40:
                out.append(self.gen_scalar(hist))
            elif r < 0.80:
                out.append(self.gen_array(hist))
            elif r < 0.88:
                out.append(self.gen_misc(hist))
            else:
                out.append(self.gen_history(hist))
        # every int at the 16-bit limits +-3 and a stride through the range
        edge = list(range(-32771, -32764)) + list(range(32764, 32772)) + list(range(-3, 4))
        stride = 97 if self.tier == 'thorough' else 2039
        for v in edge + list(range(-32768, 32768, stride)):
            out.append({'cp': '437', 'ops': [['set', 'N%', ['i', v]], ['get', 'N%', 0], ['eval', 'N%', []]]})
        hist['int_sweep'] = len(edge) + len(range(-32768, 32768, stride))
        # every byte value in a string, and every repertoire character of the single-byte pages
        for cpn in ('437', '850', '866'):
            rep = [u for u in self.repertoire(cpn) if len(u) == 1]
            step = 16 if self.tier == 'thorough' else 64
            for k in range(0, len(rep), step):
                chunk = [ord(u) for u in rep[k:k + step]]
                out.append({'cp': cpn, 'ops': [['set', 'S$', ['u', chunk]], ['get', 'S$', 0], ['get', 'S$', 5]]})
        for k in range(0, 256, 32):
            out.append({'cp': '437', 'ops': [['set', 'S$', ['y', list(range(k, k + 32))]], ['get', 'S$', 0],
                                             ['get', 'S$', 5], ['eval', 'S$', []]]})
        self.histogram = hist
        return [sanitize(c) for c in out]

    # -------------------------------------------------------------------------------------------------
    # implementation adapter
    def session(self, cp, mem=None):
        kw = {}
        if mem:
            kw['max_memory'] = mem
        if cp != '437':
            cache = self.__dict__.setdefault('_cpdicts', {})
            if cp not in cache:
                import importlib
                cache[cp] = importlib.import_module('pcbasic.data').read_codepage(cp)
            kw['codepage'] = cache[cp]
        s = common.new_session(**kw)
        s.start()
        return s

    def impl(self, case):
        side = {}
        out = []
        with self.session(case['cp'], case.get('mem')) as s:
            with core.time_limit(120):
                k = 0
                for op in case['ops']:
                    if op[0] == 'exec':
                        # BASIC statements that only produce string garbage / scratch variables: not an observed op
                        try:
                            s.execute(op[1])
                        except Exception:
                            pass
                        continue
                    try:
                        r = self.do_op(s, op, side, k)
                    except Exception as e:
                        r = common.canon_exc(e)
                    out += [len(r)] + r
                    k += 1
        self.__dict__.setdefault('_side', {})[core.sha(case)] = side
        return out

    def do_op(self, s, op, side, k):
        kind = op[0]
        if kind == 'base':
            return err_of_output(s.execute('OPTION BASE %d' % op[1]))
        if kind == 'dim':
            return err_of_output(s.execute('DIM %s(%s)' % (op[1], ','.join(str(d) for d in op[2]))))
        if kind == 'set':
            s.set_variable(op[1], py(op[2]))
            return [0]
        if kind == 'let':
            # the BASIC side changes a variable the API also writes
            return err_of_output(s.execute('%s=%s' % (op[1], basic_literal(op[2]))))
        if kind == 'letel':
            return err_of_output(s.execute('%s(%s)=%s' % (op[1], ','.join(str(i) for i in op[2]), basic_literal(op[3]))))
        if kind == 'clear':
            return err_of_output(s.execute(CLEAR_FORMS[op[1]]))
        if kind == 'get':
            ty = TYNAMES[op[2]]
            v = s.get_variable(op[1]) if ty is None else s.get_variable(op[1], as_type=ty)
            return [0] + enc_py(v)
        if kind == 'eval':
            expr = expr_of(op[1], op[2])
            v = s.evaluate(expr)
            try:
                side[k] = s.execute('PRINT ' + expr, as_type=bytes)
            except Exception as e:        # pragma: no cover
                side[k] = repr(e).encode()
            return [0] + enc_py(v)
        if kind == 'conv':
            return [0] + enc_py(s.convert(py(op[1]), TYNAMES[op[2]]))
        if kind == 'raw':
            name = op[1].upper().encode('ascii')
            s._impl.memory.scalars.set(name, s._impl.values.from_bytes(bytearray(op[2])))
            return [0]
        raise ValueError(op)

    # -------------------------------------------------------------------------------------------------
    # model
    def model_term(self, case):
        ops = []
        for op in vis_ops(case):
            kind = op[0]
            if kind == 'base':
                ops.append('OBase %d' % op[1])
            elif kind == 'dim':
                ops.append('ODim %s %s' % (core.zl(name_bytes(op[1])), core.zl(op[2])))
            elif kind == 'set':
                ops.append('OSet %s %s' % (core.zl(name_bytes(op[1])), coq(op[2])))
            elif kind == 'let':
                # LET name = literal stores what set_variable stores for the same value
                ops.append('OSet %s %s' % (core.zl(name_bytes(op[1])), coq(op[2])))
            elif kind == 'letel':
                ops.append('OLetEl %s %s %s' % (core.zl(name_bytes(op[1])), core.zl(op[2]), coq(op[3])))
            elif kind == 'clear':
                ops.append('OClear')
            elif kind == 'get':
                ops.append('OGet %s %d' % (core.zl(name_bytes(op[1])), op[2]))
            elif kind == 'eval':
                ops.append('OEval %s %s' % (core.zl(name_bytes(op[1])), core.zl(op[2])))
            elif kind == 'conv':
                # only unicode -> bytes (type 4) goes through the codepage and its NFC normalisation
                ops.append('OConv %s %d' % (coq(op[1], nfc=(op[2] == 4)), op[2]))
            elif kind == 'raw':
                ops.append('ORaw %s %s' % (core.zl(name_bytes(op[1])), core.zl(op[2])))
        return '(run (env_of "%s"%%string) st_init [%s])' % (case['cp'], ';'.join(ops))

    # -------------------------------------------------------------------------------------------------
    # oracle: the property read directly on the observed behaviour
    @staticmethod
    def documented(sigil, val, top=True):
        """is `val` a value the developer's guide allows for a variable of this sigil (lists: for arrays)?"""
        k = val[0]
        if sigil == '$':
            return k in ('y', 'u')
        return k in ('i', 't', 'f')

    @classmethod
    def documented_list(cls, sigil, val):
        """regular, non-empty nested list of documented values: returns the shape or None"""
        if val[0] != 'l' or not val[1]:
            return None
        kinds = set(v[0] == 'l' for v in val[1])
        if len(kinds) != 1:
            return None
        if kinds == {False}:
            return [len(val[1])] if all(cls.documented(sigil, v) for v in val[1]) else None
        shapes = [cls.documented_list(sigil, v) for v in val[1]]
        if any(sh is None for sh in shapes) or any(sh != shapes[0] for sh in shapes):
            return None
        return [len(val[1])] + shapes[0]

    def expect_leaf(self, sigil, val, cp):
        """what get_variable must return for a stored documented leaf: ('eq', v) | ('float', Fraction) | None (unchecked)
        or ('err', n) when the set must fail with BASIC error n"""
        k = val[0]
        if sigil == '%':
            if k == 't':
                return ('eq', -1 if val[1] else 0)
            if k == 'i':
                return ('eq', val[1]) if -32768 <= val[1] <= 32767 else ('err', 6)
            return None     # float into an integer variable: K43a
        if sigil in '!#':
            nbits = 24 if sigil == '!' else 56
            if k == 't':
                return ('float', Fraction(-1 if val[1] else 0))
            if k == 'i':
                n = val[1]
                if n == 0:
                    return ('float', Fraction(0))
                try:
                    x = float(n)
                except OverflowError:
                    big = to_double((2 ** nbits - 1) * Fraction(2) ** (127 - nbits))
                    return ('float', -big if n < 0 else big)
                return ('float', to_double(mbf_nearest(x, nbits)))
            x = unhex(val[1])
            if x != x:
                return ('err', 5)
            if x in (float('inf'), float('-inf')):
                big = to_double((2 ** nbits - 1) * Fraction(2) ** (127 - nbits))
                return ('float', big if x > 0 else -big)
            if x == 0:
                return ('float', Fraction(0))
            return ('float', to_double(mbf_nearest(x, nbits)))
        # strings
        if k == 'y':
            return ('eq', bytes(val[1])) if len(val[1]) <= 255 else ('err', 15)
        if k == 'u':
            codec = PYCODEC.get(cp)
            s = ''.join(chr(c) for c in val[1])
            if codec is None or not all((32 <= ord(c) < 127) or ord(c) >= 160 for c in s):
                return None
            try:
                b = s.encode(codec)
            except UnicodeEncodeError:
                return None
            if len(b) != len(s) or b.decode(codec) != s or len(b) > 255:
                return None
            if not all(c in self.repertoire(cp) for c in s):
                return None
            return ('eq', b)
        return None

    @staticmethod
    def same(exp, got):
        if exp is None:
            return True
        if exp[0] == 'eq':
            return got == exp[1] and type(got) == type(exp[1])
        if exp[0] == 'float':
            return isinstance(got, tuple) and got[0] == 'F' and got[1] == exp[1]
        return True

    def check_nested(self, sigil, val, got, cp, exact_shape):
        """compare a documented nested list with what get_variable returned (got may be larger)"""
        if val[0] == 'l':
            if not isinstance(got, list) or len(got) < len(val[1]) or (exact_shape and len(got) != len(val[1])):
                return 'array read back with a different shape'
            for v, g in zip(val[1], got):
                w = self.check_nested(sigil, v, g, cp, exact_shape)
                if w:
                    return w
            return None
        exp = self.expect_leaf(sigil, val, cp)
        if exp is not None and exp[0] != 'err' and not self.same(exp, got):
            return 'array element %r read back as %r' % (val, got)
        return None

    def oracle(self, case, out):
        fr = frames(out)
        ops = vis_ops(case)
        cp = case['cp']
        side = self.__dict__.get('_side', {}).get(core.sha(case), {})
        base = None
        dims = {}
        last_ok_set = {}     # upper name -> val, only while nothing else wrote the variable
        for k, (op, o) in enumerate(zip(ops, fr)):
            kind = op[0]
            if kind == 'base' and o == [0] and base is None:
                base = op[1]
            if kind == 'dim' and o == [0]:
                dims[op[1].upper()] = op[2]
                if base is None:
                    base = 0
            if kind == 'raw':
                last_ok_set.pop(op[1].upper(), None)
            if kind == 'clear':
                # CLEAR / NEW / RUN / storing a line: nothing assigned earlier may be expected any more
                last_ok_set.clear()
                dims.clear()
                base = None
            if kind == 'letel':
                last_ok_set.pop(op[1].upper() + '()', None)
                if base is None and o == [0]:
                    base = 0
            if kind in ('set', 'let'):
                name = op[1].upper()
                val = op[2]
                sigil_ok = name.split('(')[0][-1:] in tuple(SIGILS) and name.split('(')[0][-1:] != ''
                if not sigil_ok:
                    continue
                sigil = name.split('(')[0][-1]
                is_arr = '(' in name
                doc = self.documented_list(sigil, val) if is_arr else (self.documented(sigil, val) or None)
                last_ok_set.pop(name, None)
                if o[:1] == [2] and doc:
                    # documented argument types must not escape as a host exception
                    return 'set_variable(%r, <documented %s value>) raised a non-BASIC exception (class %d)' % (
                        op[1], sigil, o[1])
                if not is_arr and doc:
                    exp = self.expect_leaf(sigil, val, cp)
                    if exp is not None and exp[0] == 'err':
                        if o != [1, exp[1]]:
                            return 'set_variable(%r, %r) should raise BASIC error %d, got %r' % (op[1], val, exp[1], o)
                    elif exp is not None and o != [0]:
                        return 'set_variable(%r, %r) failed: %r' % (op[1], val, o)
                if o == [0]:
                    last_ok_set[name] = (val, doc, base, dict(dims))
                    if is_arr and base is None:
                        base = 0
            if kind in ('get', 'eval') and o[:1] == [2] and (kind == 'eval' or op[2] == 0):
                nm = op[1].upper().split('(')[0]
                if nm[-1:] in tuple(SIGILS) and nm[-1:] != '':
                    return '%s(%r) raised a non-BASIC exception (class %d)' % (
                        'get_variable' if kind == 'get' else 'evaluate', expr_of(op[1], op[2]) if kind == 'eval' else op[1], o[1])
            if kind == 'get' and op[2] == 0 and o[:1] == [0]:
                name = op[1].upper()
                if name in last_ok_set:
                    val, doc, b_at, dims_at = last_ok_set[name]
                    got, _ = dec_py(o, 1)
                    sigil = name.split('(')[0][-1]
                    if '(' in name:
                        if doc:
                            b = b_at or 0
                            exact = dims_at.get(name.split('(')[0]) == [n - 1 + b for n in doc]
                            w = self.check_nested(sigil, val, got, cp, exact)
                            if w:
                                return w
                    elif doc:
                        exp = self.expect_leaf(sigil, val, cp)
                        if exp is not None and exp[0] != 'err' and not self.same(exp, got):
                            return 'variable %r was last assigned %r (history: %s) but get_variable returned %r' % (
                                op[1], val, ' / '.join(x[0] for x in ops[max(0, k - 6):k]), got)
            if kind == 'eval' and o[:1] == [0]:
                got, _ = dec_py(o, 1)
                # evaluate agrees with get_variable: compare with the preceding get of the same variable
                if k > 0 and ops[k - 1][0] == 'get' and ops[k - 1][2] == 0 and fr[k - 1][:1] == [0] \
                        and ops[k - 1][1].upper() == op[1].upper() and not op[2]:
                    g2, _ = dec_py(fr[k - 1], 1)
                    if g2 != got:
                        return 'evaluate(%r) = %r but get_variable = %r' % (op[1], got, g2)
                # ... and with what PRINT shows
                w = self.check_print(got, side.get(k), op)
                if w:
                    return w
        return None

    @staticmethod
    def check_print(got, printed, op):
        if printed is None or got is None:
            return None
        text = printed
        if text.endswith(b'\r\n'):
            text = text[:-2]
        if isinstance(got, bool):
            return None
        if isinstance(got, int):
            exp = (b' ' if got >= 0 else b'-') + str(abs(got)).encode() + b' '
            if text != exp:
                return 'evaluate(%r) = %r but PRINT shows %r' % (expr_of(op[1], op[2]), got, printed)
        elif isinstance(got, bytes):
            # PRINT interprets control characters; compare only plain text
            if all(32 <= c < 127 for c in got) and len(got) < 70 and text != got:
                return 'evaluate(%r) = %r but PRINT shows %r' % (expr_of(op[1], op[2]), got, printed)
        elif isinstance(got, tuple) and got[0] == 'F' and isinstance(got[1], Fraction):
            try:
                shown = Fraction(text.decode('ascii').strip().replace('D', 'E').replace('!', '').replace('#', ''))
            except (ValueError, ZeroDivisionError):
                return 'PRINT of a number shows %r' % (printed,)
            v = got[1]
            digits = 7 if op[1][-1:] == '!' else 16
            tol = abs(v) * Fraction(10) ** (1 - digits)
            if abs(shown - v) > tol:
                return 'evaluate(%r) = %s but PRINT shows %r' % (expr_of(op[1], op[2]), float(v), printed)
        return None

    def nontrivial(self, case, out):
        fr = frames(out)
        ok_set = any(op[0] in ('set', 'raw') and o == [0] for op, o in zip(vis_ops(case), fr))
        ok_get = any(op[0] in ('get', 'eval', 'conv') and o[:1] == [0] and len(o) > 1 for op, o in zip(vis_ops(case), fr))
        return ok_set and ok_get or (case['ops'] and case['ops'][0][0] == 'conv' and ok_get)

    # -------------------------------------------------------------------------------------------------
    # known finding K43a: a float assigned to an integer variable raises struct.error
    def known_match(self, finding, case, out):
        if finding.get('id') != 'K43a':
            return False
        fr = frames(out) if out else []
        for op, o in zip(vis_ops(case), fr):
            if op[0] == 'set' and o == [2, 7]:
                name = op[1].upper().split('(')[0]
                if name.endswith('%') and self._has_float(op[2]):
                    return True
        return False

    @classmethod
    def _has_float(cls, val):
        if val[0] == 'f':
            return True
        return val[0] == 'l' and any(cls._has_float(v) for v in val[1])

    def known_rerun(self, finding):
        if finding.get('id') != 'K43a':
            return True
        case = {'cp': '437', 'ops': [['set', 'A%', ['f', fhex(3.5)]]]}
        return frames(self.impl(case))[0] == [2, 7]

    def shrink_candidates(self, case):
        ops = case['ops']
        for i in range(len(ops)):
            if len(ops) > 1:
                yield dict(case, ops=ops[:i] + ops[i + 1:])
        for i, op in enumerate(ops):
            if op[0] in ('set', 'conv'):
                pos = 2 if op[0] == 'set' else 1
                for v in self.shrink_val(op[pos]):
                    op2 = list(op)
                    op2[pos] = v
                    yield dict(case, ops=ops[:i] + [op2] + ops[i + 1:])

    def shrink_val(self, val):
        if val[0] in ('y', 'u', 'l') and val[1]:
            n = len(val[1])
            if n > 1:
                yield [val[0], val[1][:n // 2]]
                yield [val[0], val[1][n // 2:]]
            if n <= 12:
                for i in range(n):
                    yield [val[0], val[1][:i] + val[1][i + 1:]]
            if val[0] == 'l':
                for i, v in enumerate(val[1][:6]):
                    for v2 in self.shrink_val(v):
                        yield ['l', val[1][:i] + [v2] + val[1][i + 1:]]


CHECK = C43
