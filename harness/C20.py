"""C20 - User-defined functions never disturb the caller's variables."""
from vlib import core
from harness import StrSpace_lang as L
from harness.C10 import P, D, lit, sv, cat, FRE_S, W_D15, W_D10D_ALIAS, W_RECURSION, C10


def fn(name, *args):
    return ['fn', name, list(args)]


# DEF FNA$(X$)=X$ : FNA$("hello") returned the caller's X$; DEF FNB!(X!)=X! likewise (D20a)
W_D20A = {'steps': [P(['def', 'A$', ['X$'], sv('X$')]), P(['def', 'P!', ['X!'], sv('X!')]),
                    P(['let', sv('X$'), cat(lit('glob'), lit('al'))]), P(['let', sv('X!'), ['num', 5, '%']]),
                    P(['let', sv('C$'), fn('A$', lit('hello'))]), P(['let', sv('Q!'), fn('P!', ['num', 7, '%'])])]}
# DEF FNC$(Y$,X$)=Y$+X$ : FNC$(X$,Y$) bound X$ from the already overwritten Y$ (D20b)
W_D20B = {'steps': [P(['def', 'C$', ['Y$', 'X$'], cat(sv('Y$'), sv('X$'))]),
                    P(['def', 'K%', ['Y%', 'X!'], ['cat', sv('Y%'), ['cat', sv('Y%'), sv('X!')]]]),
                    P(['let', sv('X$'), lit('x')]), P(['let', sv('Y$'), lit('y')]),
                    P(['let', sv('X!'), ['num', 1, '%']]), P(['let', sv('Y%'), ['num', 2, '%']]),
                    P(['let', sv('A$'), fn('C$', sv('X$'), sv('Y$'))]),
                    P(['let', sv('N%'), fn('K%', sv('X!'), sv('Y%'))])]}
# errors while the arguments are converted leave temp_values entries behind (D15, second half)
W_ARGERR = {'steps': [P(['def', 'A$', ['X$', 'Y%'], sv('X$')]),
                      P(['let', sv('C$'), fn('A$', cat(lit('ab'), lit('c')), ['num', 40000, '!'])]),
                      P(['let', sv('B$'), lit('zz')]), P(['let', sv('Q!'), FRE_S])]}


# repeated parameter names: the caller's variable must come back, whatever the order of save and bind
W_DUP = {'steps': [P(['def', 'P!', ['X', 'X!'], ['cat', sv('X!'), ['num', 0, '%']]]),
                   P(['def', 'A$', ['A$', 'X!', 'A$'], cat(sv('A$'), lit('-'))]),
                   P(['def', 'K%', ['Y%', 'Y%'], ['len', ['chr', ['num', 300, '%']]]]),
                   P(['let', sv('X!'), ['num', 5, '%']]), P(['let', sv('A$'), lit('mine')]), P(['let', sv('Y%'), ['num', 9, '%']]),
                   P(['let', sv('Q!'), fn('P!', ['num', 1, '%'], ['num', 2, '%'])]),
                   P(['let', sv('C$'), fn('A$', lit('p'), ['num', 3, '%'], lit('q'))]),
                   P(['let', sv('N%'), fn('K%', ['num', 1, '%'], ['num', 2, '%'])]),
                   P(['let', sv('R!'), sv('X!')]), P(['let', sv('B$'), sv('A$')])]}


# converted arguments are collector roots from the moment they are converted: a collection while a LATER argument of
# the same call is evaluated (FRE("") in it, or a nested call that allocates) must not lose the earlier ones
W_ARGGC = {'steps': [P(['let', sv('C$'), cat(lit('gggggggggg'), lit('g'))]), P(['let', sv('A$'), cat(lit('aaaa'), lit('a'))]),
                     P(['let', sv('B$'), cat(lit('b'), lit('b'))]), P(['let', sv('C$'), lit('')]),
                     P(['def', 'C$', ['X$', 'Y!', 'Y$'], cat(sv('X$'), lit('|'), sv('Y$'))]),
                     P(['def', 'B$', ['X$'], cat(sv('X$'), ['str', FRE_S])]),
                     P(['let', sv('C$'), fn('C$', cat(sv('B$'), lit('c')), FRE_S, cat(sv('A$'), lit('d')))]),
                     P(['let', sv('C$'), fn('C$', sv('A$'), ['num', 1, '%'], ['str', FRE_S])]),
                     P(['let', sv('C$'), fn('C$', cat(sv('B$'), lit('e')), ['num', 2, '%'], fn('B$', lit('n')))]),
                     P(['let', sv('Q!'), FRE_S]), P(['let', sv('X$'), sv('C$')])]}


def arggc_case(rng):
    """multi-argument calls: earlier arguments are string temporaries / heap strings, a later one collects"""
    strs = ['A$', 'B$', 'X$', 'Y$']
    steps = []
    if rng.random() < 0.5:
        steps.append(D(['clear', rng.choice([60, 100, 150, 250, 400])]))
    steps.append(P(['let', sv('C$'), cat(lit('g' * rng.choice([3, 10, 25])), lit('g'))]))
    for nm in strs[:rng.choice([2, 3, 4])]:
        steps.append(P(['let', sv(nm), cat(lit(nm[0].lower() * rng.choice([1, 4, 9])), lit('.'))]))
    steps.append(P(['let', sv('C$'), lit('')]))
    steps.append(P(['def', 'B$', ['X$'], cat(sv('X$'), ['str', FRE_S])]))
    steps.append(P(['def', 'A$', ['Y$', 'X$'], cat(sv('X$'), sv('Y$'))]))

    def collecting(numeric):
        if numeric:
            return rng.choice([FRE_S, ['len', ['str', FRE_S]], ['len', fn('B$', lit('q'))]])
        return rng.choice([['str', FRE_S], fn('B$', lit('n')), fn('B$', cat(sv('A$'), lit('m'))),
                           ['left', cat(lit('yy'), lit('z')), ['len', ['str', FRE_S]]]])

    def early():
        return rng.choice([cat(sv(rng.choice(strs)), lit('c')), sv(rng.choice(strs)), cat(lit('t'), lit('u')),
                           fn('A$', lit('p'), sv(rng.choice(strs)))])

    for k in range(rng.choice([2, 3, 4])):
        params, args = [], []
        npar = rng.choice([2, 3, 4])
        late = rng.randrange(1, npar)
        pool = ['X$', 'Y$', 'A$', 'B$']
        rng.shuffle(pool)
        for i in range(npar):
            if i >= late and rng.random() < 0.5:
                params.append(rng.choice(['Y!', 'X%', 'Z#', 'X!']))
                args.append(collecting(True) if i == late or rng.random() < 0.3 else ['num', rng.randrange(0, 99), '%'])
            else:
                params.append(pool[i])
                args.append(early() if i < late else (collecting(False) if i == late or rng.random() < 0.3 else early()))
        body = sv(params[0])
        for q in params[1:]:
            if q.endswith('$'):
                body = cat(body, lit('|'), sv(q))
        steps.append(P(['def', 'C$', params, body]))
        for _ in range(rng.choice([1, 2])):
            steps.append(P(['let', sv('C$'), ['fn', 'C$', list(args)]]))
            steps.append(P(['let', sv(rng.choice(strs)), cat(sv('C$'), lit(''))]))
    steps.append(P(['let', sv('Q!'), FRE_S]))
    steps.append(P(['let', sv('C$'), sv('A$')]))
    return {'steps': steps}


# the default type of a sigil-less parameter is looked up when the call is made: DEFINT etc. between two calls
def deftype_case(rng=None, kinds=('INT', 'DBL', 'STR', 'SNG'), rng_range=('X', 'X')):
    steps = [P(['def', 'P!', ['X', 'Y%'], ['cat', ['num', 1, '%'], ['len', sv('A$')]]]),
             P(['def', 'A$', ['Y$', 'X'], cat(sv('Y$'), lit('-'))]),
             P(['let', sv('X!'), ['num', 11, '%']]), P(['let', sv('X%'), ['num', 12, '%']]),
             P(['let', sv('X#'), ['num', 13, '%']]), P(['let', sv('X$'), lit('gx')]), P(['let', sv('Y$'), lit('gy')]),
             P(['let', sv('Q!'), fn('P!', ['num', 5, '%'], ['num', 6, '%'])]),
             P(['let', sv('C$'), fn('A$', lit('p'), ['num', 7, '%'])])]
    for k in kinds:
        steps.append(P(['deftype', k, rng_range[0], rng_range[1]]))
        steps.append(P(['let', sv('Q!'), fn('P!', ['num', 5, '%'] if k != 'STR' else lit('s'), ['num', 6, '%'])]))
        steps.append(P(['let', sv('C$'), fn('A$', lit('p'), lit('t') if k == 'STR' else ['num', 7, '%'])]))
        steps.append(P(['let', sv('R!'), fn('P!', lit('wrong') if k != 'STR' else ['num', 1, '%'], ['num', 6, '%'])]))
    return {'steps': steps}


W_DEFT = deftype_case()


class C20(C10):
    ID = 'C20'
    PROPS = 'props/C20.v'
    QUICK_CASES = 110
    THOROUGH_CASES = 1500
    RULE = ('generated DEF FN sets (1..4 functions, 0..4 parameters of all four types, parameters that shadow globals '
            'and parameters that do not exist yet, bodies that read parameters and globals, allocate strings, call '
            'FRE("") and other functions, self- and mutually recursive), optional CLEAR ,n (30 bytes .. default), then '
            '5..120 calls / assignments with arguments that convert or fail (type mismatch, overflow, string too long); '
            'all variables, current, _temp and free memory compared with the model after every step; oracle: dict '
            'reference semantics in which a call binds, evaluates and restores. non-trivial = a function call returned')
    TRUSTED = C10.TRUSTED
    PARTIAL = ('C20_call (3) - parameters read their converted arguments during the body - assumes as many arguments as '
               'parameters (a mismatch is a syntax error in the code and not modelled)')

    def corpus(self):
        return [dict(w) for w in (W_D15, W_D20A, W_D20B, W_ARGERR, W_RECURSION, W_D10D_ALIAS, W_DUP, W_DEFT, W_ARGGC)] + [
            {'steps': [P(['def', 'A$', [], lit('k')]), P(['let', sv('A$'), fn('A$')])]},
            {'steps': [D(['clear', 60]), P(['def', 'B$', ['X$', 'Y$', 'X!', 'Y%'], cat(sv('X$'), sv('Y$'))]),
                       P(['let', sv('A$'), fn('B$', lit('abc'), lit('def'), ['num', 1, '%'], ['num', 2, '%'])]),
                       P(['let', sv('Q!'), FRE_S])]},
        ]

    def gen_cases(self, n):
        rng = self.rng
        out = []
        hist = {}
        for i in range(n):
            if i % 8 == 7:
                ks = [rng.choice(['INT', 'SNG', 'DBL', 'STR']) for _ in range(rng.choice([1, 2, 3]))]
                out.append(deftype_case(kinds=ks, rng_range=rng.choice([('X', 'X'), ('W', 'Z'), ('A', 'Z')])))
                continue
            if i % 8 == 3:
                out.append(arggc_case(rng))
                continue
            ns = rng.choice([5, 10, 20, 30, 60, 120] if rng.random() < 0.1 else [5, 10, 20, 30])
            out.append(L.gen_history(rng, ns, fnw=0.55, big=0.1, nfs=(1, 2, 2, 3, 4),
                                     mems=(None, None, None, 30, 60, 100, 150, 250, 400, 2000)))
        for c in out:
            for s in c['steps']:
                k = s['s'][0] + ('/direct' if L.is_direct(s) else '')
                hist[k] = hist.get(k, 0) + 1
        self.histogram = hist
        return out

    def nontrivial(self, case, out):
        res = self._run(case)

        def has_fn(e):
            return isinstance(e, list) and (e[:1] == ['fn'] or any(has_fn(x) for x in e))
        return any(t['err'] == [0, 0] and has_fn(s['s']) for s, t in zip(case['steps'], res['steps']))


CHECK = C20
