"""C30 - Graphics never draws outside the viewport or the active page."""
from vlib import core
from harness import common
from harness import C30_gfx as G

OPS = ['PSET', 'PRESET', 'AND', 'OR', 'XOR']


def coord_pool(rng, lo, hi, size):
    """A coordinate far inside / at / just outside / far outside [lo, hi] (size = screen extent)."""
    r = rng.random()
    if r < 0.35:
        return rng.randint(lo, hi) if hi >= lo else lo
    if r < 0.6:
        return rng.choice([lo - 2, lo - 1, lo, lo + 1, hi - 1, hi, hi + 1, hi + 2, 0, -1, size - 1, size, size + 1])
    if r < 0.8:
        return rng.choice([-3, -17, -100, size + 3, size + 100, 2 * size, -size])
    if r < 0.97:
        return rng.choice([-1000, 1000, -32768, 32767, -32767, 5000, -9999, 20000])
    return rng.choice([32768, -32769, 40000, -70000, 1e6])


def hist_text(h):
    """SCREEN statement of one history step [mode, colorswitch, apage, vpage] (None = argument omitted)."""
    parts = ['' if v is None else '%d' % v for v in h]
    while parts and parts[-1] == '':
        parts.pop()
    return 'SCREEN ' + ','.join(parts)


def hist_pages(hist):
    """(apage, vpage) that GW-BASIC's rules give after the SCREEN statements of a history, starting from 0, 0:
    an omitted active page persists, an omitted visual page becomes the active page."""
    ap = vp = 0
    for (m, cs, a, v) in hist:
        if a is not None:
            ap = a
        vp = v if v is not None else ap
    return ap, vp


class C30(core.Check):
    ID = 'C30'
    GEN = ['gen_viewport', 'gen_raster']
    PROPS = 'props/C30.v'
    MODEL_IMPORTS = ['lib.GfxPrims', 'gen.Gen_viewport', 'gen.Gen_raster', 'model.Matrix', 'model.Viewport',
                     'model.Raster']
    QUICK_CASES = 420
    THOROUGH_CASES = 4200
    TRUSTED = [
        'hand model model/Matrix.v of ByteMatrix.__setitem__ (int,int)/(slice,slice) incl. negative and out-of-range '
        'indices, and the one-line funnel GraphicsViewPort.__setitem__, tied by correspondence: every write request '
        'recorded at graph_view.__setitem__ in a real Session is replayed through the model and the changed pixels '
        'of the pages must agree',
        'translator checks (fail closed): every subscript store of graphics.py is `self.graph_view[..] = ..`; '
        'pixel buffers are handed to the viewport only by init_mode / set_page(self._pages[apagenum]); '
        'each graphics statement starts with the text-mode guard',
        'float arithmetic of WINDOW / STEP / CIRCLE / DRAW (coordinates, radii) is not modelled: the physical '
        'integer coordinates that reach the regenerated _draw_line/_draw_box/_draw_box_filled are recorded from '
        'the run; CIRCLE, PAINT and DRAW enter the model as their recorded request lists',
    ]
    PARTIAL = ('unconditional for PSET, LINE[,B|BF], VIEW (regenerated corner checks), PUT, CIRCLE/ellipse and DRAW (as '
               'arbitrary integer pixel requests; octant loops / DRAW interpreter and all float arithmetic not '
               'modelled as code) and solid PAINT (through C32 model/Flood.v); tiled PAINT: interval requests proved '
               'safe given interval inside the bounds, which is not derived from _flood_fill (replayed, tested)')
    RULE = ('a real Session per video adapter (quick: cga, ega; thorough: + vga, tandy, pcjr, hercules, olivetti, '
            'ega_mono), every graphics SCREEN of it, random active/visual page, optional VIEW [SCREEN] and WINDOW '
            '[SCREEN], uniform background; one random statement (PSET PRESET LINE[,B|BF][,style] VIEW CIRCLE PAINT '
            'DRAW PUT) - in part after a history of SCREEN statements that selects a non-zero active page and then '
            'changes mode / colorswitch with omitted or equal page arguments - with coordinates far inside / at / just outside / far outside screen and viewport; text mode '
            'cases; pixel buffers of ALL pages diffed before/after; non-trivial = at least one pixel changed or a '
            'BASIC error; distinct by hash of (case, output)')
    histogram = None

    # ------------------------------------------------------------------ cases
    def corpus(self):
        base = {'video': 'ega', 'screen': 1, 'apage': 0, 'vpage': 0, 'view': None, 'window': None, 'bg': 0,
                'last': None}

        def c(**kw):
            d = dict(base)
            d.update(kw)
            return d
        return [
            c(stmt={'k': 'pset', 'x': 10, 'y': 10, 'c': 2}),
            c(stmt={'k': 'pset', 'x': -1, 'y': 10, 'c': 2}),
            c(stmt={'k': 'pset', 'x': 320, 'y': 199, 'c': 1}),
            c(stmt={'k': 'line', 'x0': -100, 'y0': -50, 'x1': 500, 'y1': 400, 'c': 3, 'shape': ''}),
            c(stmt={'k': 'line', 'x0': -10, 'y0': -10, 'x1': -5, 'y1': -5, 'c': 1, 'shape': 'BF'}),
            c(stmt={'k': 'line', 'x0': 330, 'y0': 210, 'x1': 400, 'y1': 300, 'c': 1, 'shape': 'BF'}),
            c(stmt={'k': 'line', 'x0': -32768, 'y0': -32768, 'x1': 32767, 'y1': 32767, 'c': 1, 'shape': 'BF'}),
            c(stmt={'k': 'line', 'x0': -32768, 'y0': -32768, 'x1': 32767, 'y1': 32767, 'c': 1, 'shape': 'B'}),
            c(view=[50, 40, 100, 90, False], stmt={'k': 'line', 'x0': -200, 'y0': -200, 'x1': 300, 'y1': 300, 'c': 2,
                                                   'shape': 'BF'}),
            c(view=[50, 40, 100, 90, True], stmt={'k': 'line', 'x0': 0, 'y0': 0, 'x1': 319, 'y1': 199, 'c': 2,
                                                  'shape': 'B', 'pat': 0xAAAA}),
            c(view=[100, 90, 50, 40, False], stmt={'k': 'line', 'x0': -60, 'y0': 20, 'x1': 30, 'y1': -45, 'c': 1,
                                                   'shape': ''}),
            c(view=[50, 40, 100, 90, False], stmt={'k': 'circle', 'x': 25, 'y': 25, 'r': 40, 'c': 3}),
            c(view=[50, 40, 100, 90, False], stmt={'k': 'paint', 'x': 5, 'y': 5, 'c': 2}),
            c(view=[50, 40, 100, 90, True], stmt={'k': 'draw', 's': 'BM60,50 U30 R80 D100 L200 E20 F9'}),
            c(stmt={'k': 'view', 'x0': 10, 'y0': 10, 'x1': 100, 'y1': 100, 'screen': True, 'fill': 2, 'border': 3}),
            # omitted fill / border on a non-blank screen (D30a: they were drawn in attribute 0)
            c(bg=2, stmt={'k': 'view', 'x0': 10, 'y0': 10, 'x1': 100, 'y1': 100, 'screen': False, 'fill': None, 'border': None}),
            c(bg=2, stmt={'k': 'view', 'x0': 10, 'y0': 10, 'x1': 100, 'y1': 100, 'screen': True, 'fill': 1, 'border': None}),
            c(bg=3, stmt={'k': 'view', 'x0': 100, 'y0': 90, 'x1': 20, 'y1': 30, 'screen': False, 'fill': None, 'border': 1}),
            c(stmt={'k': 'view', 'x0': 0, 'y0': 0, 'x1': 319, 'y1': 199, 'screen': False, 'fill': 1, 'border': 2}),
            c(stmt={'k': 'view', 'x0': 10, 'y0': 10, 'x1': 400, 'y1': 100, 'screen': False, 'fill': 1, 'border': 2}),
            c(screen=7, apage=1, vpage=0, stmt={'k': 'line', 'x0': 0, 'y0': 0, 'x1': 319, 'y1': 199, 'c': 5,
                                                'shape': 'BF'}),
            c(screen=9, apage=1, vpage=1, bg=3, view=[100, 100, 200, 200, False],
              stmt={'k': 'line', 'x0': -5, 'y0': 50, 'x1': 700, 'y1': 52, 'c': 5, 'shape': ''}),
            c(screen=1, view=[50, 40, 100, 90, False], stmt={'k': 'put', 'x': 5, 'y': 5, 'w': 8, 'h': 6, 'op': 0,
                                                             'seed': 1}),
            c(screen=1, view=[50, 40, 100, 90, False], stmt={'k': 'put', 'x': 45, 'y': 5, 'w': 8, 'h': 6, 'op': 4,
                                                             'seed': 2}),
            c(screen=7, view=[50, 40, 100, 90, True], stmt={'k': 'put', 'x': 50, 'y': 40, 'w': 9, 'h': 3, 'op': 3,
                                                            'seed': 3}),
            c(screen=0, stmt={'k': 'pset', 'x': 10, 'y': 10, 'c': 2}),
            c(screen=0, stmt={'k': 'line', 'x0': 0, 'y0': 0, 'x1': 10, 'y1': 10, 'c': 1, 'shape': 'BF'}),
            c(screen=0, stmt={'k': 'circle', 'x': 25, 'y': 25, 'r': 40, 'c': 3}),
            c(screen=0, stmt={'k': 'view', 'x0': 10, 'y0': 10, 'x1': 100, 'y1': 100, 'screen': True, 'fill': 2,
                              'border': 3}),
            c(screen=0, stmt={'k': 'paint', 'x': 5, 'y': 5, 'c': 2}),
            c(screen=0, stmt={'k': 'view0'}),           # seeded C30f: bare VIEW in a text mode
            c(screen=0, stmt={'k': 'window0'}),
            c(screen=1, stmt={'k': 'window0'}),
            c(screen=0, stmt={'k': 'draw', 's': 'U10'}),
            c(screen=0, stmt={'k': 'put', 'x': 5, 'y': 5, 'w': 8, 'h': 6, 'op': 0, 'seed': 1}),
            # seeded C30d: a VIEW rejected for its fill / border attribute (> 255) while a viewport is active must not
            # draw anything and must leave that viewport in force
            c(view=[50, 40, 100, 90, True], probe=1,
              stmt={'k': 'view', 'x0': 100, 'y0': 100, 'x1': 150, 'y1': 150, 'screen': True, 'fill': 2, 'border': 300}),
            c(view=[50, 40, 100, 90, False], probe=3,
              stmt={'k': 'view', 'x0': 10, 'y0': 10, 'x1': 200, 'y1': 150, 'screen': False, 'fill': 256, 'border': 1}),
            c(view=[50, 40, 100, 90, True], probe=2,
              stmt={'k': 'view', 'x0': 100, 'y0': 100, 'x1': 150, 'y1': 150, 'screen': True, 'fill': None, 'border': -1}),
            c(view=[50, 40, 100, 90, True], probe=2,
              stmt={'k': 'view', 'x0': 100, 'y0': 100, 'x1': 400, 'y1': 150, 'screen': True, 'fill': 1, 'border': 2}),
            c(view=[50, 40, 100, 90, True], probe=2,
              stmt={'k': 'view', 'x0': 100, 'y0': 100, 'x1': 150, 'y1': 150, 'screen': False, 'fill': 1, 'border': 2}),
            # false alarm of VERIF_SEED=6: tiled PAINT after an outline in a colour that is not its border (the
            # outline is no longer drawn for tiled PAINT)
            c(video='ega', screen=7, apage=2, vpage=2, view=[87, 52, 92, 71, False], last=[-320, -70000],
              hist=[[8, None, 1, None], [None, None, 1, 0], [1, None, None, None], [7, None, None, None]],
              stmt={'k': 'paint', 'x': 0, 'y': 13, 'c': 3, 'tile': [233], 'prebox': [-1, 5, 8, 18]}),
            # seeded C30e: VIEW while page 0 is active, then SCREEN ,,1,0 (no mode change), then drawing on page 1
            c(video='ega', screen=7, apage=1, vpage=0, view=[50, 40, 100, 90, True], view_page=2,
              stmt={'k': 'line', 'x0': 0, 'y0': 0, 'x1': 319, 'y1': 199, 'c': 5, 'shape': 'BF'}),
            c(video='ega', screen=7, apage=1, vpage=0, view=[50, 40, 100, 90, False], view_page=2,
              stmt={'k': 'pset', 'x': 200, 'y': 150, 'c': 3}),
            # seeded C30: page kept over a mode change (SCREEN 7,,1,1 : SCREEN 8) - drawing must go to page 1
            c(video='vga', screen=8, hist=[[7, None, 1, 1], [8, None, None, None]],
              stmt={'k': 'line', 'x0': 20, 'y0': 20, 'x1': 40, 'y1': 30, 'c': 5, 'shape': 'BF'}),
            c(video='vga', screen=9, hist=[[7, None, 1, 1], [9, None, 1, None]],
              stmt={'k': 'pset', 'x': 10, 'y': 10, 'c': 3}),
            c(video='ega', screen=7, hist=[[8, None, 2, 0], [7, None, None, 0]],
              stmt={'k': 'circle', 'x': 100, 'y': 100, 'r': 20, 'c': 2}),
            c(video='ega', screen=1, hist=[[1, 1, 3, 3], [None, 0, None, None]],
              stmt={'k': 'line', 'x0': 0, 'y0': 0, 'x1': 100, 'y1': 50, 'c': 2, 'shape': 'B'}),
            c(video='vga', screen=8, hist=[[8, None, 1, 1], [None, None, 0, 0], [7, None, None, None], [8, None, 1, None]],
              stmt={'k': 'paint', 'x': 5, 'y': 5, 'c': 2}),
            c(window=[-100, -100, 100, 100, False], stmt={'k': 'line', 'x0': -150, 'y0': -150, 'x1': 150, 'y1': 150,
                                                          'c': 2, 'shape': 'B'}),
            c(window=[0, 0, 1, 1, True], view=[20, 20, 120, 90, False],
              stmt={'k': 'circle', 'x': 0.5, 'y': 0.5, 'r': 0.75, 'c': 1}),
        ]

    def gen_stmt(self, rng, w, h, vrect, nattr, text):
        x0, y0, x1, y1 = vrect
        lox, hix, loy, hiy = 0, x1 - x0, 0, y1 - y0

        def cx():
            return coord_pool(rng, lox, hix, w) if rng.random() < 0.7 else coord_pool(rng, x0, x1, w)

        def cy():
            return coord_pool(rng, loy, hiy, h) if rng.random() < 0.7 else coord_pool(rng, y0, y1, h)

        def col():
            r = rng.random()
            if r < 0.15:
                return None
            if r < 0.9:
                return rng.randrange(0, nattr)
            return rng.choice([nattr, 15, 255, 17])
        def vcol():
            # VIEW's fill / border: also values its range check (0..255) must reject before anything is touched
            if rng.random() < 0.2:
                return rng.choice([256, 257, 300, 1000, 32767, -1, -2, -32768])
            return col()
        k = rng.choice(['pset', 'pset', 'line', 'line', 'line', 'line', 'line', 'view', 'circle', 'paint', 'draw',
                        'put'])
        if text:
            # text mode: every statement form, also the coordinate-less VIEW and WINDOW (C30f)
            k = rng.choice(['pset', 'line', 'view', 'view0', 'view0', 'window0', 'window0', 'circle', 'paint', 'draw',
                            'put'])
            if k in ('view0', 'window0'):
                return {'k': k}
        elif rng.random() < 0.02:
            return {'k': 'window0'}
        if k == 'pset':
            return {'k': 'pset', 'x': cx(), 'y': cy(), 'c': col(), 'preset': rng.random() < 0.3,
                    'step': rng.random() < 0.2}
        if k == 'line':
            d = {'k': 'line', 'x0': cx(), 'y0': cy(), 'x1': cx(), 'y1': cy(), 'c': col(),
                 'shape': rng.choice(['', '', 'B', 'BF', 'BF'])}
            if rng.random() < 0.15:
                d['x0'] = d['y0'] = None
            if rng.random() < 0.15:
                d['step1'] = True
            if rng.random() < 0.25 and d['shape'] != 'BF':
                d['pat'] = rng.choice([0xAAAA, 0xF0F0, 1, 0x8000, 0, 0xFFFF, rng.randrange(65536), -1])
            return d
        if k == 'view':
            if rng.random() < 0.1:
                return {'k': 'view0'}
            d = {'k': 'view', 'x0': rng.choice([rng.randrange(w), cx()]), 'y0': rng.choice([rng.randrange(h), cy()]),
                 'x1': rng.choice([rng.randrange(w), cx()]), 'y1': rng.choice([rng.randrange(h), cy()]),
                 'screen': rng.random() < 0.5, 'fill': vcol(), 'border': vcol()}
            if any(d[c] is not None and not 0 <= d[c] <= 255 for c in ('fill', 'border')) and rng.random() < 0.8:
                # an attribute the range check rejects: make the rest of the statement valid so that this check decides
                d['x0'], d['x1'] = rng.sample(range(w), 2)
                d['y0'], d['y1'] = rng.sample(range(h), 2)
            return d
        if k == 'circle':
            d = {'k': 'circle', 'x': cx(), 'y': cy(), 'r': rng.choice([0, 0.4, 1, 2, 5, 10, 25, 40, 60, 100, 150]),
                 'c': col()}
            if rng.random() < 0.35:
                d['start'] = rng.choice([round(rng.uniform(-6.28, 6.28), 2), 0, -0.01, 6.28, -6.28, 3.14, 1.57])
                d['stop'] = rng.choice([round(rng.uniform(-6.28, 6.28), 2), 0, 6.28, -6.28, -3.14, 4.71])
            if rng.random() < 0.4:
                # extreme aspects: needle-thin and very flat ellipses (the tip-finishing loop of _draw_ellipse)
                d['aspect'] = rng.choice([0.001, 0.01, 0.1, 0.25, 0.5, 1, 2, 3.5, 10, 100, 1000])
            if rng.random() < (0.12 if self.tier == 'thorough' else 0.05):
                # extreme radii: far larger than the screen (thousands of requests, nearly all outside); the
                # recorded request list is replayed by the model, so keep it affordable in the quick tier
                d['r'] = rng.choice([300, 700, 1000, 2000] if self.tier == 'thorough' else [300, 500])
                if d.get('aspect') in (0.001, 0.01, 100, 1000):
                    d['aspect'] = rng.choice([0.1, 10])
            return d
        if k == 'paint':
            d = {'k': 'paint', 'x': cx(), 'y': cy(), 'c': col()}
            if rng.random() < 0.3:
                d['border'] = rng.randrange(nattr)
            small = (x1 - x0) * (y1 - y0) <= 3000
            if small and rng.random() < 0.5:
                d['tile'] = [rng.randrange(256) for _ in range(rng.choice([1, 2, 3, 4, 8]))]
            if rng.random() < 0.5 and hix >= 4 and hiy >= 4 and not d.get('tile'):
                # an outline in the border colour inside the viewport (partly outside it), drawn before the PAINT:
                # the fill must stop at it and at the viewport edge
                d['prebox'] = [rng.randint(-3, hix), rng.randint(-3, hiy), rng.randint(0, hix + 3),
                               rng.randint(0, hiy + 3)]
                if d.get('border') is None and d.get('c') is None:
                    d['border'] = rng.randrange(1, max(2, nattr))
            return d
        if k == 'draw':
            parts = []
            if rng.random() < 0.7:
                parts.append('BM%d,%d' % (cx() % 10000 if abs(cx()) < 10000 else 0, cy() % 10000))
            for _ in range(rng.randint(1, 6)):
                r = rng.random()
                if r < 0.6:
                    parts.append('%s%s%d' % (rng.choice(['', 'N', 'B']) if rng.random() < 0.3 else '',
                                             rng.choice('UDLREFGH'), rng.choice([1, 5, 20, 50, 200, 1000])))
                elif r < 0.75:
                    parts.append('M%s%d,%d' % (rng.choice(['', '+', '-']), rng.randrange(0, 700), rng.randrange(0, 400)))
                elif r < 0.85:
                    parts.append('C%d' % rng.randrange(nattr))
                elif r < 0.9:
                    parts.append('S%d' % rng.choice([1, 4, 8, 40, 255]))
                elif r < 0.95:
                    parts.append('A%d' % rng.randrange(4))
                else:
                    parts.append('TA%d' % rng.choice([-360, -45, 30, 90, 200, 360]))
            return {'k': 'draw', 's': ' '.join(parts)}
        # put
        sw, sh = rng.choice([1, 2, 3, 7, 8, 9, 16, 17, 33]), rng.choice([1, 2, 3, 5, 8, 13])
        px, py = coord_pool(rng, lox, hix - sw + 1, w), coord_pool(rng, loy, hiy - sh + 1, h)
        if rng.random() < 0.4:
            # exactly at / one pixel beyond each edge of the viewport (the two `contains` tests of put_)
            px = rng.choice([lox, lox - 1, hix - sw + 1, hix - sw + 2, px])
            py = rng.choice([loy, loy - 1, hiy - sh + 1, hiy - sh + 2, py])
        return {'k': 'put', 'x': px, 'y': py, 'w': sw, 'h': sh, 'op': rng.randrange(5), 'seed': rng.randrange(1 << 30)}

    def gen_cases(self, n):
        rng = self.rng
        videos = G.THOROUGH_VIDEOS if self.tier == 'thorough' else G.QUICK_VIDEOS
        hist = {}
        dims = {1: (320, 200, 4), 2: (640, 200, 2), 3: (160, 200, 16), 4: (320, 200, 4), 5: (320, 200, 16),
                6: (640, 200, 4), 7: (320, 200, 16), 8: (640, 200, 16), 9: (640, 350, 16), 10: (640, 350, 4)}
        out = []
        for i in range(n):
            video = rng.choice(videos)
            text = rng.random() < 0.07
            screen = 0 if text else rng.choice(G.SCREENS[video])
            w, h, nattr = dims.get(screen, (640, 200, 2))
            if video == 'hercules' and screen == 3:
                w, h, nattr = 720, 348, 2
            if video == 'olivetti' and screen == 3:
                w, h, nattr = 640, 400, 2
            case = {'video': video, 'screen': screen, 'apage': rng.choice([0, 0, 1, 1, 2, 3, 7]),
                    'vpage': rng.choice([0, 0, 1, 2]), 'view': None, 'window': None,
                    'bg': 0 if rng.random() < 0.7 else rng.randrange(nattr), 'last': None}
            vrect = (0, 0, w - 1, h - 1)
            if not text and rng.random() < 0.6:
                a, b = sorted([rng.randrange(w), rng.randrange(w)])
                c, d = sorted([rng.randrange(h), rng.randrange(h)])
                if a != b and c != d:
                    if rng.random() < 0.3:
                        # a small viewport: clipping matters more
                        b = min(w - 1, a + rng.randint(1, 40))
                        d = min(h - 1, c + rng.randint(1, 30))
                    if a != b and c != d:
                        case['view'] = [a, c, b, d, rng.random() < 0.5]
                        vrect = (a, c, b, d)
            if not text and rng.random() < 0.35:
                fx0 = rng.choice([-100, 0, -1, 5])
                fy0 = rng.choice([-100, 0, -1, 5])
                case['window'] = [fx0, fy0, fx0 + rng.choice([1, 50, 200, 1000]), fy0 + rng.choice([1, 50, 200, 1000]),
                                  rng.random() < 0.5]
            if not text and rng.random() < 0.3:
                case['last'] = [coord_pool(rng, 0, w - 1, w), coord_pool(rng, 0, h - 1, h)]
            if not text and video in ('cga', 'ega', 'vga') and rng.random() < 0.22:
                # a history: non-zero active page selected, then mode / colorswitch changes with omitted or equal
                # page arguments (pages persist over SCREEN), ending in this case's mode
                modes = G.SCREENS[video]
                a = rng.choice([1, 1, 2, 3])
                hh = [[rng.choice(modes), None, a, rng.choice([None, a, 0])]]
                for _ in range(rng.choice([1, 1, 2])):
                    kind = rng.random()
                    m2 = rng.choice(modes)
                    if kind < 0.4:
                        hh.append([m2, None, None, None])
                    elif kind < 0.6:
                        hh.append([m2, None, a, None])
                    elif kind < 0.75:
                        hh.append([m2, rng.choice([0, 1]), None, rng.choice([None, 0, a])])
                    elif kind < 0.85:
                        hh.append([None, rng.choice([0, 1]), None, None])
                    else:
                        a = rng.choice([0, 1, 2])
                        hh.append([None, None, a, rng.choice([None, 0])])
                hh.append(rng.choice([[screen, None, None, None], [screen, None, a, None],
                                        [screen, rng.choice([0, 1]), None, None]]))
                case['hist'] = hh
                case['bg'] = 0
            case['stmt'] = self.gen_stmt(rng, w, h, vrect, nattr, text)
            if not text and not case.get('hist') and rng.random() < 0.1:
                case['pcopy'] = True        # PCOPY <other page>, <active page> right before the statement
            elif not text and not case.get('hist') and case['view'] and rng.random() < 0.35:
                case['view_page'] = rng.choice([0, 0, 1, 2])    # VIEW while another page is active, then select
            if not text and (case['stmt']['k'] in ('view', 'view0') or rng.random() < 0.15):
                # a second step of the history: after the statement, flood the whole coordinate range with a filled
                # box and see (oracle) that exactly the viewport then in force is painted
                case['probe'] = rng.randrange(1, max(2, nattr))
            if case['stmt']['k'] == 'circle' and case['window']:
                # the radius is in WINDOW units: keep the physical radius what the generator chose (a unit-wide
                # WINDOW would otherwise turn r=100 into 64000 pixels, i.e. 360000 replayed requests)
                wd = case['window']
                sc = min(abs(wd[2] - wd[0]) / float(w), abs(wd[3] - wd[1]) / float(h))
                case['stmt']['r'] = round(case['stmt']['r'] * sc, 4)
            key = '%s/%s' % (case['stmt']['k'], 'text' if text else 'gfx')
            hist[key] = hist.get(key, 0) + 1
            hist['video ' + video] = hist.get('video ' + video, 0) + 1
            hist['screen %d' % screen] = hist.get('screen %d' % screen, 0) + 1
            if case['view']:
                hist['with VIEW'] = hist.get('with VIEW', 0) + 1
            if case['window']:
                hist['with WINDOW'] = hist.get('with WINDOW', 0) + 1
            if case.get('hist'):
                hist['with SCREEN history (page kept over mode change)'] = \
                    hist.get('with SCREEN history (page kept over mode change)', 0) + 1
            out.append(case)
        self.histogram = hist
        return out

    # ------------------------------------------------------------------ statement text
    @staticmethod
    def stmt_text(d):
        n = G.num
        k = d['k']
        if k == 'pset':
            t = '%s %s(%s,%s)' % ('PRESET' if d.get('preset') else 'PSET', 'STEP' if d.get('step') else '',
                                   n(d['x']), n(d['y']))
            if d.get('c') is not None:
                t += ',%d' % d['c']
            return t
        if k == 'line':
            t = 'LINE '
            if d.get('x0') is not None:
                t += '(%s,%s)' % (n(d['x0']), n(d['y0']))
            t += '-%s(%s,%s)' % ('STEP' if d.get('step1') else '', n(d['x1']), n(d['y1']))
            tail = ['' if d.get('c') is None else '%d' % d['c'], d.get('shape', ''),
                    '' if d.get('pat') is None else '%d' % d['pat']]
            while tail and tail[-1] == '':
                tail.pop()
            if tail:
                t += ',' + ','.join(tail)
            return t
        if k == 'view0':
            return 'VIEW'
        if k == 'window0':
            return 'WINDOW'
        if k == 'view':
            t = 'VIEW %s(%s,%s)-(%s,%s)' % ('SCREEN ' if d.get('screen') else '', n(d['x0']), n(d['y0']), n(d['x1']),
                                             n(d['y1']))
            tail = ['' if d.get('fill') is None else '%d' % d['fill'],
                    '' if d.get('border') is None else '%d' % d['border']]
            while tail and tail[-1] == '':
                tail.pop()
            if tail:
                t += ',' + ','.join(tail)
            return t
        if k == 'circle':
            t = 'CIRCLE (%s,%s),%s' % (n(d['x']), n(d['y']), n(d['r']))
            tail = ['' if d.get('c') is None else '%d' % d['c'],
                    '' if d.get('start') is None else n(d['start']), '' if d.get('stop') is None else n(d['stop']),
                    '' if d.get('aspect') is None else n(d['aspect'])]
            while tail and tail[-1] == '':
                tail.pop()
            if tail:
                t += ',' + ','.join(tail)
            return t
        if k == 'paint':
            t = 'PAINT (%s,%s)' % (n(d['x']), n(d['y']))
            if d.get('tile'):
                t += ',' + '+'.join('CHR$(%d)' % b for b in d['tile'])
            elif d.get('c') is not None:
                t += ',%d' % d['c']
            elif d.get('border') is not None:
                t += ','
            if d.get('border') is not None:
                t += ',%d' % d['border']
            return t
        if k == 'draw':
            return 'DRAW "%s"' % d['s']
        if k == 'put':
            return 'PUT (%s,%s),A%%,%s' % (n(d['x']), n(d['y']), OPS[d['op']])
        raise ValueError(k)

    # ------------------------------------------------------------------ implementation
    def _run(self, case):
        video = case['video']
        st = case['stmt']
        with core.time_limit(120):
            s = G.session(video)
            try:
                return self._run_in(s, case, st)
            except BaseException:
                G.drop_session(video)
                raise

    def _run_in(self, s, case, st):
        import random
        hist = case.get('hist')
        err = G.reset(s, 0 if hist else case['screen'])
        if err:
            raise RuntimeError('SCREEN %d not available on %s: %s' % (case['screen'], case['video'], err))

        def enter():
            # a history of SCREEN statements: page selections followed by mode / colorswitch changes that keep them
            for hstep in (hist or []):
                s._impl.interpreter.error_num = 0
                s.execute(hist_text(hstep))
                if s._impl.interpreter.error_num:
                    raise RuntimeError('history step %s refused on %s' % (hist_text(hstep), case['video']))
        enter()
        disp = s._impl.display
        g = disp.graphics
        text = bool(g._mode.is_text_mode)
        info = {'text': text}
        ex = s.execute
        sprite = None
        if st['k'] == 'put':
            # build the sprite array by GET from a scratch drawing, then clear the screen again
            ex('DIM A%(1200)')
            if not text:
                r2 = random.Random(st['seed'])
                na = g._num_attr
                for _ in range(st['w'] * st['h'] // 2 + 2):
                    ex('PSET (%d,%d),%d' % (r2.randrange(st['w']), r2.randrange(st['h']), r2.randrange(na)))
                ex('GET (0,0)-(%d,%d),A%%' % (st['w'] - 1, st['h'] - 1))
                ex('SCREEN 0,,0,0')
                if hist:
                    enter()
                else:
                    ex('SCREEN %d' % case['screen'])
                s._impl.interpreter.error_num = 0
                disp = s._impl.display
                g = disp.graphics
                name = s._impl.memory.complete_name(b'A%')
                sprite = [list(r) for r in g._mode.sprite_builder.unpack(
                    s._impl.memory.arrays.view_full_buffer(name)).to_rows()]
        if not text:
            npages = len(disp.pages)
            ap, vp = case['apage'] % npages, case['vpage'] % npages
            if hist:
                # the active page follows from the BASIC statements issued, not from the implementation's state
                ap, vp = hist_pages(hist)
            sel = []
            for p in (ap, (ap + 1) % npages, vp, 0):
                if p not in sel:
                    sel.append(p)
            sel = sel[:3]
            w, h = g._mode.pixel_width, g._mode.pixel_height
            if case['bg'] and not hist:
                for p in sel:
                    ex('SCREEN ,,%d,%d' % (p, p))
                    ex('LINE (0,0)-(%d,%d),%d,BF' % (w - 1, h - 1, case['bg']))
            if not hist:
                # (with a history no further page statement is issued: it would re-select the page)
                ex('SCREEN ,,%d,%d' % (ap, vp))
                if case.get('pcopy') and len(sel) > 1:
                    # PCOPY <another (equally filled) page>, <the ACTIVE page>, and no page statement after it: the
                    # drawing that follows must land in the page buffer that the snapshots read (C31d)
                    ex('PCOPY %d,%d' % (sel[1], ap))
                    s._impl.interpreter.error_num = 0
            if case['view']:
                v = case['view']
                vpg = case.get('view_page')
                if vpg is not None and not hist and npages > 1 and not case.get('pcopy'):
                    # the VIEW is given while ANOTHER page is active, then the page is selected (no mode change):
                    # the viewport is not a property of a page (C30e)
                    ex('SCREEN ,,%d,%d' % ((ap + 1 + vpg) % npages, vp))
                # VIEW with fill = background so that nothing visible changes
                ex('VIEW %s(%d,%d)-(%d,%d),%d,%d' % ('SCREEN ' if v[4] else '', v[0], v[1], v[2], v[3], case['bg'],
                                                     case['bg']))
                if vpg is not None and not hist and npages > 1 and not case.get('pcopy'):
                    ex('SCREEN ,,%d,%d' % (ap, vp))
            if case['window']:
                wd = case['window']
                ex('WINDOW %s(%s,%s)-(%s,%s)' % ('SCREEN ' if wd[4] else '', G.num(wd[0]), G.num(wd[1]), G.num(wd[2]),
                                                 G.num(wd[3])))
            if case['last']:
                ex('PSET (%s,%s),%d' % (G.num(case['last'][0]), G.num(case['last'][1]), case['bg']))
            if case.get('noise'):
                # random screen contents in colours below the drawing attribute (C31)
                r3 = random.Random(case['noise'][0])
                vr = info_rect = ([min(case['view'][0], case['view'][2]), min(case['view'][1], case['view'][3]),
                                   max(case['view'][0], case['view'][2]), max(case['view'][1], case['view'][3])]
                                  if case['view'] else [0, 0, w - 1, h - 1])
                ox, oy = (0, 0) if (not case['view'] or case['view'][4]) else (vr[0], vr[1])
                for _ in range(case['noise'][1]):
                    ax, ay = r3.randint(vr[0], vr[2]), r3.randint(vr[1], vr[3])
                    bx, by = r3.randint(vr[0], vr[2]), r3.randint(vr[1], vr[3])
                    ex('LINE (%d,%d)-(%d,%d),%d' % (ax - ox, ay - oy, bx - ox, by - oy, r3.randrange(case['noise'][2])))
            s._impl.interpreter.error_num = 0
            if not case.get('noise'):
                # a setup statement that failed (e.g. Overflow of the last-point PSET under WINDOW) has printed its
                # message into the active page: restore the uniform background the model starts from
                for p in sel:
                    pix = disp.pages[p]._pixels
                    if bytes(pix.to_bytes()) != bytes([case['bg']]) * (pix.width * pix.height):
                        pix[:, :] = case['bg']
            if st['k'] == 'paint' and st.get('prebox') and not case.get('window') and not st.get('tile'):
                # (not with a tile: the statement then has no colour argument, its border is the foreground attribute,
                # the outline would not be a border and its pixels would be overwritten - the model replays on a blank page)
                bcol = st.get('border') if st.get('border') is not None else st.get('c')
                if bcol is not None and bcol != case['bg']:
                    pb = st['prebox']
                    ex('LINE (%d,%d)-(%d,%d),%d,B' % (pb[0], pb[1], pb[2], pb[3], bcol))
                    s._impl.interpreter.error_num = 0
            info.update({'w': w, 'h': h, 'npages': npages, 'ap': ap, 'sel': sel, 'bpp': g._mode.bitsperpixel,
                         'view': G.view_of(g), 'nattr': g._num_attr})
            # oracle's own idea of the clip rectangle, from the BASIC statements issued (not from graph_view)
            if case['view']:
                v = case['view']
                info['rect'] = [min(v[0], v[2]), min(v[1], v[3]), max(v[0], v[2]), max(v[1], v[3])]
            else:
                info['rect'] = [0, 0, w - 1, h - 1]
            if st['k'] == 'put':
                try:
                    info['put_xy'] = [int(c) for c in g._get_window_physical(float(st['x']), float(st['y']))]
                except Exception as e:
                    info['put_xy'] = None
        else:
            info.update({'w': 0, 'h': 0, 'npages': 0, 'ap': 0, 'sel': [], 'bpp': 0, 'view': (False, 0, 0, 0, 0, 0, 0),
                         'rect': [0, 0, -1, -1]})
        info['sprite'] = sprite
        before = G.snapshot(s)
        rec = G.Recorder(s)
        status = None
        try:
            rec.install()
            try:
                ex(self.stmt_text(st))
            except Exception as e:
                status = common.canon_exc(e)
        finally:
            rec.remove()
        after = rec.after if rec.after is not None else G.snapshot(s)
        if status is None:
            status = [1, rec.err] if rec.err else [0]
        info['probe'] = None
        if case.get('probe') is not None and not text and not case.get('window') and status[0] != 2:
            mid = G.snapshot(s)
            s._impl.interpreter.error_num = 0
            ex('LINE (-32768,-32768)-(32767,32767),%d,BF' % case['probe'])
            post = G.snapshot(s)
            pw = [p._pixels.width for p in s._impl.display.pages]
            info['probe'] = {'err': s._impl.interpreter.error_num, 'mid': mid[info['ap']],
                             'diffs': [G.diff_cells(b, a, wd) for b, a, wd in zip(mid, post, pw)]}
        g = s._impl.display.graphics
        widths = [p._pixels.width for p in s._impl.display.pages]
        diffs = [G.diff_cells(b, a, wd) for b, a, wd in zip(before, after, widths)]
        info.update({'status': status, 'diffs': diffs, 'reqs': rec.reqs, 'calls': rec.calls,
                     'view_after': None if text else G.view_of(g)})
        if status[0] == 2:
            G.drop_session(case['video'])
        return info

    def _cached(self, case):
        case = self.undescribe(case)
        cache = self.__dict__.setdefault('_runs', {})
        key = core.sha(case)
        if key not in cache:
            if len(cache) > 6000:
                cache.clear()
            cache[key] = self._run(case)
        return cache[key]

    def impl(self, case):
        case = self.undescribe(case)
        self.__dict__.setdefault('_runs', {}).pop(core.sha(case), None)
        info = self._cached(case)
        out = list(info['status'])
        if info['status'][0] == 2:
            return out
        for p in info['sel']:
            out += G.diff_summary(info['diffs'][p])
        va = info['view_after'] if info['view_after'] is not None else info['view']
        out += [int(va[0]), va[1], va[2], va[3], va[4]]
        return out

    # ------------------------------------------------------------------ model
    def model_stmt(self, case, info):
        st = case['stmt']
        k = st['k']
        z = G.z
        ok = info['status'] == [0]
        err = info['status'][1] if info['status'][0] == 1 else 0
        text = info['text']
        calls = info['calls']
        flat = G.enc_reqs_flat(info['reqs'])
        def generic(gd):
            # CIRCLE / DRAW (and anything else that only issued single-pixel requests): the unconditional kind
            if all((not isinstance(i[0], slice)) and (not isinstance(i[1], slice)) and isinstance(d, int)
                   for (i, d) in info['reqs']):
                pts = []
                for (i, d) in info['reqs']:
                    pts += [int(i[0]), int(i[1]), d]
                return '(SPixels %d (decode_pts (Z.to_nat %d) %s) %d)' % (gd, len(info['reqs']) + 1,
                                                                          G.zl_chunked(pts), err)
            return '(SReqs %d (decode_reqs (Z.to_nat %d) %s) %d)' % (gd, len(info['reqs']) + 1, G.zl_chunked(flat), err)
        if k == 'pset':
            if ok and not text and len(info['reqs']) == 1:
                (yi, xi), a = info['reqs'][0]
                return '(SPset %s %s %s)' % (z(xi), z(yi), z(a))
            return '(SPset 0 0 0)' if text else generic(3)
        if k == 'line':
            if text:
                return '(SLine 0 0 0 0 0 0)'
            if ok and len(calls) == 1:
                name, a, kw = calls[0]
                a = list(a)
                if name == '_draw_line':
                    pat = a[5] if len(a) > 5 else kw.get('pattern', 0xffff)
                    return '(SLine %s)' % ' '.join(z(v) for v in a[:5] + [pat])
                if name == '_draw_box':
                    pat = a[5] if len(a) > 5 else kw.get('pattern', 0xffff)
                    return '(SBox %s)' % ' '.join(z(v) for v in a[:5] + [pat])
                if name == '_draw_box_filled':
                    return '(SBoxF %s)' % ' '.join(z(v) for v in a[:5])
            return generic(3)
        if k == 'window0':
            return '(SPixels 0 [] %d)' % err     # guard only: WINDOW draws nothing
        if k in ('view', 'view0'):
            if text:
                return '(SView 0 0 1 1 false None None)'
            ints = k == 'view' and all(isinstance(st[c], int) and abs(st[c]) < 32768 for c in ('x0', 'y0', 'x1', 'y1')) \
                and all(st.get(c) is None or abs(st[c]) < 32768 for c in ('fill', 'border'))
            if (ok or (err == 5 and ints)) and k == 'view':
                # (attribute as written, attribute drawn); a rejected VIEW (error 5 from its corner or attribute
                # checks) is modelled too: the model says nothing is drawn and the viewport stays
                drawn = {}
                for name, a, kw in calls:
                    if name == '_draw_box_filled':
                        drawn['fill'] = a[4]
                    if name == '_draw_box':
                        drawn['border'] = a[4]
                fill = border = 'None'
                if st.get('fill') is not None:
                    fill = '(Some (%s, %s))' % (z(st['fill']), z(drawn.get('fill', st['fill'])))
                if st.get('border') is not None:
                    border = '(Some (%s, %s))' % (z(st['border']), z(drawn.get('border', st['border'])))
                return '(SView %s %s %s %s %s %s %s)' % (z(st['x0']), z(st['y0']), z(st['x1']), z(st['y1']),
                                                        'true' if st.get('screen') else 'false', fill, border)
            return None     # plain VIEW / failed VIEW: handled by the caller (viewport reset is compared)
        if k == 'put':
            if text:
                return '(SPut 0 0 [] 0)'
            if info.get('put_xy') is not None and info['sprite'] is not None and (ok or err == 5):
                return '(SPut %s %s %s %d)' % (z(info['put_xy'][0]), z(info['put_xy'][1]),
                                               G.coq_matrix(info['sprite']), st['op'])
            return generic(3)
        gd = {'circle': 0, 'paint': 1, 'draw': 2}[k]
        return generic(gd)

    def model_term(self, case):
        info = self._cached(case)
        if info['status'][0] == 2:
            return core.zl(info['status'])
        stmt = self.model_stmt(case, info)
        view = info['view']
        if stmt is None:
            # VIEW without arguments or a VIEW that raised: no drawing; the model is the viewport reset / no change
            if info['status'] == [0]:
                return ('(0 :: List.concat (List.repeat [0] %d) ++ enc_vp (vp_unset %s))' % (len(info['sel']), G.coq_vp(view)))
            stmt = '(SReqs 3 [] %d)' % info['status'][1]
        sel = info['sel']
        ap_idx = sel.index(info['ap']) if info['ap'] in sel else 0
        vp_term = G.coq_vp(view)
        if not info['text']:
            # the viewport the model starts from is computed from the VIEW statement that was issued (before or
            # after the page selections of the setup), not read from the implementation: selecting a page must keep it
            base = '(VP false 0 0 %d %d %d %d)' % (info['w'] - 1, info['h'] - 1, info['w'], info['h'])
            v = case['view']
            vp_term = base if not v else '(vp_set %s %d %d %d %d %s)' % (base, v[0], v[1], v[2], v[3],
                                                                       'true' if v[4] else 'false')
        return '(run_case %s %d %d %d %d %d %d %s %s)' % (
            'true' if info['text'] else 'false', info['bpp'], info['w'], info['h'], len(sel), ap_idx, case['bg'],
            vp_term, stmt)

    # ------------------------------------------------------------------ property oracle (implementation only)
    def oracle(self, case, out):
        info = self._cached(case)
        if info['status'][0] == 2:
            return 'host exception %r from %s' % (info['status'], self.stmt_text(case['stmt']))
        diffs = info['diffs']
        if info['text']:
            if info['status'] != [1, 5]:
                return 'text mode: %s gave %r, not Illegal function call' % (self.stmt_text(case['stmt']), info['status'])
            if any(diffs):
                return 'text mode: pixels changed by %s' % self.stmt_text(case['stmt'])
            return None
        ap = info['ap']
        for p, d in enumerate(diffs):
            if p != ap and d:
                return 'page %d (active page is %d%s) changed at %r by %s' % (
                    p, ap, (' after ' + ': '.join(hist_text(h) for h in case['hist'])) if case.get('hist') else '',
                    d[:3], self.stmt_text(case['stmt']))
        why = self.probe_oracle(case, info)
        if why:
            return why
        if case['stmt']['k'] in ('view', 'view0') and info['status'][0] == 1 and any(diffs):
            p = [i for i, d in enumerate(diffs) if d][0]
            return '%s was rejected with error %d but changed pixel %r of page %d' % (
                self.stmt_text(case['stmt']), info['status'][1], diffs[p][0], p)
        x0, y0, x1, y1 = info['rect']
        if case['stmt']['k'] in ('view', 'view0'):
            x0, y0, x1, y1 = 0, 0, info['w'] - 1, info['h'] - 1
            st = case['stmt']
            if st['k'] == 'view' and all(isinstance(st[c], int) for c in ('x0', 'y0', 'x1', 'y1')):
                # an omitted fill leaves the inside of the new viewport alone, an omitted border its outside (D30a)
                a0, a1 = sorted((st['x0'], st['x1']))
                b0, b1 = sorted((st['y0'], st['y1']))
                for (y, x, v) in diffs[ap]:
                    inside = a0 <= x <= a1 and b0 <= y <= b1
                    # (with swapped corners the code draws the frame x0-1,y0-1,x1+1,y1+1 inside the viewport)
                    frame = st.get('border') is not None and (
                        x in (st['x0'] - 1, st['x1'] + 1) or y in (st['y0'] - 1, st['y1'] + 1))
                    if inside and st.get('fill') is None and not frame:
                        return 'pixel (%d,%d) inside the new viewport changed to %d by %s, which has no fill argument' % (
                            x, y, v, self.stmt_text(st))
                    if not inside and st.get('border') is None:
                        return 'pixel (%d,%d) outside the new viewport changed to %d by %s, which has no border argument' % (
                            x, y, v, self.stmt_text(st))
        for (y, x, v) in diffs[ap]:
            if not (x0 <= x <= x1 and y0 <= y <= y1):
                return 'pixel (%d,%d) outside the viewport (%d,%d)-(%d,%d) changed to %d by %s' % (
                    x, y, x0, y0, x1, y1, v, self.stmt_text(case['stmt']))
        return None

    def probe_oracle(self, case, info):
        """After the statement a filled box over the whole coordinate range must paint exactly the viewport in force:
        the new one after an accepted VIEW, the whole screen after plain VIEW, otherwise (also after a rejected
        VIEW) the one set before the statement."""
        pr = info.get('probe')
        if not pr or pr['err']:
            return None
        st = case['stmt']
        ok = info['status'] == [0]
        x0, y0, x1, y1 = info['rect']
        if st['k'] == 'view0' and ok:
            x0, y0, x1, y1 = 0, 0, info['w'] - 1, info['h'] - 1
        elif st['k'] == 'view' and ok:
            x0, x1 = sorted((st['x0'], st['x1']))
            y0, y1 = sorted((st['y0'], st['y1']))
        what = '%s then LINE (-32768,-32768)-(32767,32767),%d,BF' % (self.stmt_text(st), case['probe'])
        ap = info['ap']
        for p, d in enumerate(pr['diffs']):
            if p != ap and d:
                return 'page %d (active page is %d) changed by %s' % (p, ap, what)
        w = info['w']
        got = set((y, x) for (y, x, v) in pr['diffs'][ap])
        for (y, x) in got:
            if not (x0 <= x <= x1 and y0 <= y <= y1):
                return 'pixel (%d,%d) outside the viewport in force (%d,%d)-(%d,%d) changed by %s (status of the first: %r)' % (
                    x, y, x0, y0, x1, y1, what, info['status'])
        mid = pr['mid']
        for y in range(y0, y1 + 1):
            row = mid[y * w + x0: y * w + x1 + 1]
            for i, v in enumerate(row):
                if v != case['probe'] and (y, x0 + i) not in got:
                    return 'pixel (%d,%d) inside the viewport in force (%d,%d)-(%d,%d) not painted by %s' % (
                        x0 + i, y, x0, y0, x1, y1, what)
        return None

    def nontrivial(self, case, out):
        info = self._cached(case)
        return any(info['diffs']) or info['status'][0] == 1

    def describe(self, case):
        d = dict(case)
        d['text'] = self.stmt_text(case['stmt'])
        if case.get('hist'):
            d['history'] = ': '.join(hist_text(h) for h in case['hist'])
        return d

    def undescribe(self, case):
        d = dict(case)
        d.pop('text', None)
        d.pop('history', None)
        return d

    def shrink_candidates(self, case):
        case = self.undescribe(case)
        if case.get('hist') and len(case['hist']) > 2:
            for i in range(1, len(case['hist']) - 1):
                d = dict(case)
                d['hist'] = case['hist'][:i] + case['hist'][i + 1:]
                yield d
        for key in ('window', 'view', 'last'):
            if case.get(key) is not None:
                d = dict(case)
                d[key] = None
                yield d
        if case.get('bg'):
            d = dict(case)
            d['bg'] = 0
            yield d
        for key in ('apage', 'vpage'):
            if case.get(key):
                d = dict(case)
                d[key] = 0
                yield d
        st = case['stmt']
        for key in ('pat', 'start', 'stop', 'aspect', 'border', 'tile', 'step', 'step1', 'preset'):
            if st.get(key):
                d = dict(case)
                d['stmt'] = dict(st)
                d['stmt'].pop(key)
                yield d


CHECK = C30
