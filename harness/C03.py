"""C03 - Numeric conversions and binary encodings are exact and consistent."""
from fractions import Fraction

from vlib import core
from harness import common
from harness import mbf_common as M

UNARY = ['cint', 'fix', 'int', 'cdbl', 'csng', 'mki', 'mks', 'mkd', 'cvi', 'cvs', 'cvd', 'hex', 'oct']
MODEL_FN = {'cint': 'v_cint', 'fix': 'v_fix', 'int': 'v_int', 'cdbl': 'v_cdbl', 'mki': 'v_mki', 'mkd': 'v_mkd',
            'cvi': 'v_cvi', 'cvs': 'v_cvs', 'cvd': 'v_cvd', 'hex': 'v_hex', 'oct': 'v_oct'}
MAX_SINGLE = M.float_value([255, 255, 127, 255])
SWEEP = 64


class C03(core.Check):
    ID = 'C03'
    GEN = ['gen_mbf']
    PROPS = 'props/C03.v'
    MODEL_IMPORTS = ['gen.Gen_mbf', 'model.MBF']
    QUICK_CASES = 1000
    THOROUGH_CASES = 6000
    TRUSTED = ['idiom layer of translate/targets/gen_mbf.py + lib/MBFPrims.v (value buffers as byte lists; '
               'buffer-length class invariant)',
               'hand glue in model/MBF.v (Double.to_single/from_single, Float.ifloor, Integer.from_int, '
               'values.py entry points, %X/%o/int(s,base) digit functions, FloatErrorHandler) tied by '
               'correspondence through values.* on a real Session']
    RULE = ('unary cases: values.cint_/fix_/int_/csng_/cdbl_/mki_/mks_/mkd_/cvi_/cvs_/cvd_/hex_/oct_ and '
            'Values.from_repr("&H..","&O..","&..") on values built from byte patterns in a real Session '
            '(s._impl.values); result BYTES compared with the Coq model; CSNG/MKS$ in both error-handler '
            'modes. Pools: random bytes, non-canonical zeros, halves k+1/2 and adjacent encodings, int16 '
            'edges, exponent extremes, all-ones mantissas, carry-byte patterns for double->single. '
            'thorough: all 65536 integers through every unary conversion (as Integer, Single and Double) and '
            'HEX$/OCT$ -> &H/&O. Oracle: exact fractions.Fraction reading of every clause on the result '
            'bytes. non-trivial = Ok result on a non-zero input; distinct by hash')
    histogram = None

    # ---------------------------------------------------------------- cases
    def corpus(self):
        c = []
        for op in UNARY:
            for v in ([2, 0, 0], [2, 255, 255], [2, 0, 128], [4, 0, 0, 0, 0], [4, 1, 2, 131, 0],
                      [4, 0, 0, 0, 128], [4, 0, 0, 128, 128], [4, 0, 0, 0, 129], [4, 0, 0, 192, 129],
                      [4, 0, 254, 127, 144], [4, 0, 255, 127, 144], [4, 0, 0, 128, 144], [4, 0, 1, 128, 144],
                      [4, 255, 255, 127, 255], [4, 255, 255, 255, 255], [4, 255, 255, 127, 152],
                      [8, 0, 0, 0, 0, 0, 0, 0, 0], [8, 9, 9, 9, 9, 9, 9, 137, 0],
                      [8, 255, 255, 255, 255, 255, 255, 127, 255], [8, 255, 255, 255, 255, 255, 255, 255, 255],
                      [8, 0, 0, 0, 128, 255, 255, 127, 144], [8, 0, 0, 0, 128, 254, 255, 127, 144],
                      [8, 1, 0, 0, 128, 254, 255, 127, 144], [8, 255, 255, 255, 127, 255, 255, 127, 144],
                      [8, 0, 0, 0, 128, 255, 255, 127, 255], [8, 0, 0, 0, 127, 255, 255, 255, 255],
                      [8, 0, 0, 0, 0, 0, 0, 128, 129], [8, 0, 0, 0, 0, 0, 0, 192, 129],
                      [3], [3, 65], [3, 1, 2], [3, 1, 2, 3, 4], [3, 1, 2, 3, 4, 5, 6, 7, 8, 9]):
                c.append({'op': op, 'v': v})
        # witnesses of defect D03a (unsigned conversion of values below -32768)
        for x in (-40000, -70000, -32769, -65537, 65535, 65536, -32768):
            for t in (4, 8):
                for op in ('hex', 'oct'):
                    c.append({'op': op, 'v': [t] + M.float_encode(x, t)})
        for d in ([], [48], [70, 70, 70, 70], [49, 48, 48, 48, 48], [71], [49, 55, 55, 55, 55, 55],
                  [50, 48, 48, 48, 48, 48], [56], [55, 55]):
            c.append({'op': 'fromhex', 'd': d})
            c.append({'op': 'fromoct', 'd': d})
        c += self.boundary_cases()
        c.append({'op': 'sweep', 'lo': -32768})
        c.append({'op': 'sweep', 'lo': 32704})
        c.append({'op': 'sweep', 'lo': -32})
        return c

    # every rounding / overflow boundary of the signed and unsigned 16-bit ranges
    BOUNDARIES = [Fraction(65535, 2), 32768, Fraction(65537, 2), 32767, Fraction(-65535, 2), -32768,
                  Fraction(-65537, 2), -32767, -32769, Fraction(131071, 2), 65536, 65535, -65536,
                  Fraction(-131073, 2), Fraction(1, 2), Fraction(-1, 2), 0]
    OFFSETS = [0, Fraction(1, 4), Fraction(-1, 4), Fraction(49, 100), Fraction(-49, 100), Fraction(1, 2),
               Fraction(-1, 2), Fraction(3, 4), Fraction(-3, 4), 1, -1, Fraction(1, 1 << 30), Fraction(-1, 1 << 30)]

    @classmethod
    def boundary_values(cls, t):
        """Encodings of size t on both sides of every boundary: fixed fractions within one unit of it
        and the two adjacent representable values (witness class of seed C03f: -32768.25 etc.)."""
        seen, out = set(), []
        for b in cls.BOUNDARIES:
            for d in cls.OFFSETS:
                enc = M.float_encode(b + d, t)
                cands = [enc] + (M.float_neighbours(enc) if enc[-1] and d == 0 else [])
                for e in cands:
                    if tuple(e) not in seen:
                        seen.add(tuple(e))
                        out.append(e)
        return out

    def boundary_cases(self):
        c = []
        for t in (4, 8):
            for e in self.boundary_values(t):
                x = M.float_value(e)
                c.append({'op': 'cint', 'v': [t] + e})
                if abs(abs(x) - 32768) <= 1:
                    c.append({'op': 'mki', 'v': [t] + e})
                if abs(x) > 65000 or x < -32000:
                    c.append({'op': 'hex', 'v': [t] + e})
        return c

    def gen_cases(self, n):
        rng = self.rng
        hist = {}
        out = []

        def add(case, key=None):
            out.append(case)
            key = key or case['op']
            hist[key] = hist.get(key, 0) + 1
        for i in range(n):
            r = rng.random()
            if r < 0.70:
                op = rng.choice(['cint', 'fix', 'int', 'csng', 'csng', 'cdbl', 'mki', 'mks', 'mkd', 'hex', 'oct'])
                types = (4, 8) if rng.random() < 0.85 else (2, 3)
                if op in ('cint', 'mki', 'hex', 'oct', 'fix', 'int') and rng.random() < 0.35:
                    t = rng.choice((4, 8))
                    b = rng.choice(self.BOUNDARIES) + rng.choice(self.OFFSETS) * rng.choice([1, 1, Fraction(1, 3), Fraction(1, 1000)])
                    enc = M.float_encode(b, t)
                    if enc[-1] and rng.random() < 0.4:
                        enc = rng.choice(M.float_neighbours(enc))
                    add({'op': op, 'v': [t] + enc}, op + ':boundary')
                elif op in ('csng', 'mks') and rng.random() < 0.8:
                    add({'op': op, 'v': [8] + self.narrow_case(rng)}, op + ':narrow')
                else:
                    add({'op': op, 'v': M.rand_value(rng, types)})
            elif r < 0.82:
                op = rng.choice(['cvi', 'cvs', 'cvd'])
                if rng.random() < 0.85:
                    ln = rng.choice([0, 1, 2, 3, 4, 5, 7, 8, 9, 16])
                    add({'op': op, 'v': [3] + [rng.randrange(256) for _ in range(ln)]})
                else:
                    add({'op': op, 'v': M.rand_value(rng)})
            elif r < 0.92:
                op = rng.choice(['fromhex', 'fromoct'])
                k = rng.random()
                if k < 0.8:
                    base = 16 if op == 'fromhex' else 8
                    x = rng.choice([0, 1, 65535, 65536, 32767, 32768, rng.randrange(70000), rng.randrange(1 << 20)])
                    d = list((b'%X' if base == 16 else b'%o') % x)
                    if rng.random() < 0.2:
                        d = [48] * rng.randrange(1, 4) + d
                else:       # malformed: a character that is not a digit of the base
                    d = [rng.choice([48, 55, 56, 57, 65, 70, 71, 90, 47, 58, 64]) for _ in range(rng.randrange(1, 5))]
                add({'op': op, 'd': d})
            elif r < 0.95 and self.tier != 'thorough':
                add({'op': 'sweep', 'lo': rng.randrange(-32768, 32768 - SWEEP + 1)})
            else:
                add({'op': rng.choice(['cint', 'fix', 'int']), 'v': M.rand_value(rng, (4, 8))})
        if self.tier == 'thorough':
            # all 65536 integers, interleaved with the other cases so that the coqc shards are balanced
            sweeps = [{'op': 'sweep', 'lo': lo} for lo in range(-32768, 32768, SWEEP)]
            step = max(1, len(out) // len(sweeps))
            merged = []
            for i, c in enumerate(out):
                merged.append(c)
                if i % step == 0 and sweeps:
                    merged.append(sweeps.pop())
            out = merged + sweeps
            hist['sweep:exhaustive'] = 65536 // SWEEP
            hist['exhaustive_integers'] = 65536
        self.histogram = hist
        return out

    @staticmethod
    def narrow_case(rng):
        """Double byte patterns stressing to_single: carry byte (byte 3), tie bit, mantissa overflow."""
        lo3 = [rng.choice([0, 0, 1, 255, rng.randrange(256)]) for _ in range(3)]
        carry = rng.choice([0, 1, 127, 128, 128, 129, 255, rng.randrange(256)])
        k = rng.random()
        if k < 0.3:
            hi = [255, 255, rng.choice([127, 255])]
        elif k < 0.5:
            hi = [rng.choice([0, 1, 254, 255]), rng.randrange(256), rng.randrange(256)]
        else:
            hi = [rng.randrange(256) for _ in range(3)]
        e = rng.choice([0, 1, 2, 128, 129, 144, 152, 254, 255, 255, rng.randrange(256)])
        return lo3 + [carry] + hi + [e]

    # ---------------------------------------------------------------- implementation
    def parts(self, case):
        if case['op'] != 'sweep':
            return [case]
        res = []
        for n in range(case['lo'], case['lo'] + SWEEP):
            v = [2] + M.int_bytes(n)
            s = [4] + M.float_encode(n, 4)
            d = [8] + M.float_encode(n, 8)
            for op in ('cint', 'fix', 'int', 'csng', 'cdbl', 'mki', 'hex', 'oct'):
                res.append({'op': op, 'v': v})
            for op in ('cint', 'fix', 'int', 'hex', 'oct', 'cdbl'):
                res.append({'op': op, 'v': s})
            for op in ('cint', 'csng', 'int'):
                res.append({'op': op, 'v': d})
            u = n & 0xffff
            res.append({'op': 'fromhex', 'd': list(b'%X' % u)})
            res.append({'op': 'fromoct', 'd': list(b'%o' % u)})
        return res

    def impl(self, case):
        out = []
        for p in self.parts(case):
            out += self.impl1(p)
        if case['op'] == 'sweep':
            # long result: compared through length + polynomial hash (model: MBF.digest)
            h = 0
            for x in out:
                h = (h * 1000003 + x + 1) % 2305843009213693951
            return [len(out), h]
        return out

    def impl1(self, case):
        from pcbasic.basic.values import values
        op = case['op']
        vals = M.values_obj()
        with core.time_limit(20):
            if op == 'fromhex':
                with M.hard_errors():
                    return M.run(lambda: vals.from_repr(b'&H' + bytes(case['d']), True))
            if op == 'fromoct':
                with M.hard_errors():
                    a = M.run(lambda: vals.from_repr(b'&O' + bytes(case['d']), True))
                    b = M.run(lambda: vals.from_repr(b'&' + bytes(case['d']), True))
                return a + b
            t, b = case['v'][0], case['v'][1:]
            fn = getattr(values, op + '_')
            if op in ('csng', 'mks'):
                with M.hard_errors():
                    hard = M.run(lambda: fn([M.make_value(t, b)]))
                soft = M.run(lambda: fn([M.make_value(t, b)]))
                return hard + soft
            with M.hard_errors():
                return M.run(lambda: fn([M.make_value(t, b)]))

    # ---------------------------------------------------------------- model
    def model_term(self, case):
        if case['op'] == 'sweep':
            return '(c03_sweep (%d) %d)' % (case['lo'], SWEEP)
        return self.model1(case)

    def model1(self, case):
        op = case['op']
        if op == 'fromhex':
            return '(enc_vres (v_from_hex %s))' % core.zl(case['d'])
        if op == 'fromoct':
            return '(let r := enc_vres (v_from_oct %s) in r ++ r)' % core.zl(case['d'])
        v = M.coq_value(case['v'][0], case['v'][1:])
        if op == 'csng':
            return '(enc_vres (v_csng true %s) ++ enc_vres (v_csng false %s))' % (v, v)
        if op == 'mks':
            return '(enc_vres (v_mks true %s) ++ enc_vres (v_mks false %s))' % (v, v)
        return '(enc_vres (%s %s))' % (MODEL_FN[op], v)

    # ---------------------------------------------------------------- oracle (exact reading of the text)
    def nontrivial(self, case, out):
        if case['op'] == 'sweep':
            return True
        if case['op'] in ('fromhex', 'fromoct'):
            return out[:1] == [0]
        return out[:1] == [0] and any(case['v'][1:])

    def oracle(self, case, out):
        if case['op'] == 'sweep':
            for p in self.parts(case):
                why = self.oracle1(p, self.impl1(p))
                if why:
                    return '%s on %r' % (why, p)
            return None
        return self.oracle1(case, out)

    @staticmethod
    def expect_int(r, lo=-32768, hi=32767):
        return [0, 2] + M.int_bytes(r) if lo <= r <= hi else [1, 6]

    def check_single_of_double(self, x, res, hard):
        """res: soft-mode result [0,4,bytes]; hard: hard-mode result. x: exact double value."""
        if res[:2] != [0, 4] or len(res) != 6:
            return 'CSNG of a double did not return a single: %r' % (res,)
        r = M.float_value(res[2:])
        overflow = hard == [1, 6]
        if not overflow and hard != res:
            return 'CSNG differs between error-handler modes without Overflow'
        if x == 0:
            return None if r == 0 and not overflow else 'CSNG(0) is not 0'
        lo_b = M.float_encode(x, 4)
        if lo_b is None:
            return 'exponent out of range'
        lo = M.float_value(lo_b)                      # neighbour toward zero (may equal x)
        ulp = Fraction(2) ** (lo_b[-1] - 152)
        hi = lo + ulp if x > 0 else lo - ulp          # neighbour away from zero
        hi_ok = abs(hi) <= MAX_SINGLE
        if overflow:
            # only legitimate when the neighbour away from zero does not exist and it is the chosen one
            if hi_ok:
                return 'Overflow although both neighbouring singles exist'
            if x == lo:
                return 'Overflow on a value representable as single'
            if abs(x - lo) * 256 < ulp * 127:
                return 'Overflow although the lower neighbour is nearer by more than ulp/256'
            if abs(r) != MAX_SINGLE or (r < 0) != (x < 0):
                return 'soft Overflow result is not the largest single of the sign'
            return None
        if x == lo:
            return None if r == x else 'single-representable double changed value'
        if r != lo and r != hi:
            return 'CSNG result is not one of the two neighbouring singles'
        mid = (lo + hi) / 2
        if abs(x - mid) * 256 > ulp:
            nearest = lo if abs(x - lo) < abs(x - hi) else hi
            if r != nearest:
                return 'CSNG result is not the nearer single (distance from halfway > ulp/256)'
        return None

    def oracle1(self, case, out):
        op = case['op']
        if out[:1] == [2]:
            return 'host exception escaped from %s' % op
        if op in ('fromhex', 'fromoct'):
            d = bytes(case['d'])
            base = 16 if op == 'fromhex' else 8
            digs = b'0123456789ABCDEF'[:base]
            if d and any(ch not in digs for ch in d):
                return None            # malformed literal: no clause of the property
            n = int(d, base) if d else 0
            exp = self.expect_int(n, 0, 65535)
            if op == 'fromoct':
                exp = exp + exp
            return None if out == exp else '&H/&O literal %r read as %r, expected %r' % (d, out, exp)
        t, b = case['v'][0], case['v'][1:]
        if t == 3:
            if op in ('cvi', 'cvs', 'cvd'):
                n = {'cvi': 2, 'cvs': 4, 'cvd': 8}[op]
                exp = [1, 5] if len(b) < n else [0, n] + b[:n]
                return None if out == exp else 'CVx of %d-byte string gave %r' % (len(b), out)
            if op == 'int':
                return None
            return None if out[:2] == [1, 13] or out == [1, 13] * 2 else 'string accepted by %s' % op
        if op in ('cvi', 'cvs', 'cvd'):
            return None if out == [1, 13] else 'CVx accepted a number'
        x = M.value_of(t, b)
        if op in ('cint', 'mki'):
            r = M.round_half_away(x)
            exp = self.expect_int(r)
            if op == 'mki' and exp[0] == 0:
                exp = [0, 3] + exp[2:]
            return None if out == exp else '%s(%s) gave %r, expected %r' % (op, x, out, exp)
        if op in ('fix', 'int'):
            if out[:2] != [0, t] or len(out) != 2 + t:
                return '%s did not return a value of the same type' % op
            r = M.value_of(t, out[2:])
            want = M.trunc(x) if op == 'fix' else M.floor(x)
            return None if r == want else '%s(%s) = %s, expected %s' % (op, x, r, want)
        if op in ('cdbl', 'mkd'):
            tag = 8 if op == 'cdbl' else 3
            if out[:2] != [0, tag] or len(out) != 10:
                return '%s did not return 8 bytes' % op
            if t == 8 and out[2:] != b:
                return '%s changed the bytes of a double' % op
            return None if M.float_value(out[2:]) == x else 'widening to double changed the value'
        if op in ('csng', 'mks'):
            half = len(out) // 2 if out[0] != 1 else 2
            hard, soft = out[:half], out[half:]
            if op == 'mks':
                if soft[:2] != [0, 3]:
                    return 'MKS$ did not return a string'
                soft = [0, 4] + soft[2:]
                if hard[:2] == [0, 3]:
                    hard = [0, 4] + hard[2:]
            if t == 4:
                return None if soft == [0, 4] + b and hard == soft else 'CSNG/MKS$ changed the bytes of a single'
            if t == 2:
                ok = soft[:2] == [0, 4] and len(soft) == 6 and M.float_value(soft[2:]) == x and hard == soft
                return None if ok else 'integer to single changed the value'
            return self.check_single_of_double(x, soft, hard)
        if op in ('hex', 'oct'):
            r = M.round_half_away(x)
            digits = [0, 3] + list((b'%X' if op == 'hex' else b'%o') % (r & 0xffff))
            if -32768 <= r <= 65535:
                exp = digits
            elif -65536 <= r < -32768:
                # no clause of the property (the code wraps these like the 16-bit patterns; GW: Overflow)
                exp = out if out in (digits, [1, 6]) else [1, 6]
            else:
                exp = [1, 6]
            if out != exp:
                return '%s$(%s) gave %r, expected %r' % (op.upper(), x, out, exp)
            if exp[0] == 0 and t == 2:
                # round trip of every integer through the literal reader
                vals = M.values_obj()
                word = (b'&H' if op == 'hex' else b'&O') + bytes(out[2:])
                back = M.run(lambda: vals.from_repr(word, True))
                if back != [0, 2] + b:
                    return '%s re-read as %r, not the same integer' % (word, back)
            return None
        return 'unknown op'

    def describe(self, case):
        return case

    def shrink_candidates(self, case):
        """byte patterns have fixed widths: only try zeroing low mantissa bytes"""
        v = case.get('v')
        if v and v[0] in (4, 8):
            for i in range(1, len(v) - 2):
                if v[i]:
                    d = dict(case)
                    d['v'] = v[:i] + [0] + v[i + 1:]
                    yield d


CHECK = C03
