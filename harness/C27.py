"""C27 - BASIC file access stays inside the mounted drives.

Also the shared machinery of C28 (host file-system monitor, tree builder, statement runner, Coq literals).
"""
import hashlib
import io
import os
import sys

from vlib import core
from harness import common

# --------------------------------------------------------------------------------------------------
# host file-system monitor: proxies for the names devices/disk.py uses (no edit of the repo), plus a global
# audit hook as an independent second witness


class Monitor(object):
    """Records every host file-system call made through the `os`, `os.path`, `io` names of devices/disk.py."""

    instance = None

    def __init__(self):
        import importlib
        self.disk = importlib.import_module('pcbasic.basic.devices.disk')
        self.active = False
        self.ops = []        # (kind, mode, [abs paths], failed: bool)
        self.audit = []      # (event, path)
        self.oserror = False
        mon = self
        real_os, real_io = os, io

        class PathProxy(object):
            def __getattr__(self, name):
                return getattr(real_os.path, name)

            def exists(self, p):
                mon.rec(3, 0, [p])
                return real_os.path.exists(p)

            def isdir(self, p):
                mon.rec(1, 0, [p])
                return real_os.path.isdir(p)

            def isfile(self, p):
                mon.rec(2, 0, [p])
                return real_os.path.isfile(p)

        class OsProxy(object):
            path = PathProxy()

            def __getattr__(self, name):
                return getattr(real_os, name)

            def _call(self, kind, fn, paths, *a):
                i = mon.rec(kind, 0, paths)
                try:
                    return fn(*a)
                except EnvironmentError:
                    mon.fail(i)
                    raise

            def listdir(self, p):
                return self._call(4, real_os.listdir, [p], p)

            def scandir(self, p):
                return self._call(4, real_os.scandir, [p], p)

            def mkdir(self, p, *a):
                return self._call(6, real_os.mkdir, [p], p, *a)

            def rmdir(self, p):
                return self._call(7, real_os.rmdir, [p], p)

            def remove(self, p):
                return self._call(8, real_os.remove, [p], p)

            unlink = remove

            def rename(self, p, q):
                return self._call(9, real_os.rename, [p, q], p, q)

            def stat(self, p, *a, **k):
                mon.rec(3, 0, [p])
                return real_os.stat(p, *a, **k)

        class IoProxy(object):
            def __getattr__(self, name):
                return getattr(real_io, name)

            def open(self, p, mode='r', *a, **k):
                m = mode.replace('b', '')
                code = {'r': 114, 'w': 119, 'r+': 43, 'a': 97}.get(m, 0)
                i = mon.rec(5, code, [p])
                try:
                    return real_io.open(p, mode, *a, **k)
                except EnvironmentError:
                    mon.fail(i)
                    raise

        self.disk.os = OsProxy()
        self.disk.io = IoProxy()
        real_free = self.disk.get_free_bytes

        def get_free_bytes(p):
            mon.rec(10, 0, [p])
            return real_free(p)
        self.disk.get_free_bytes = get_free_bytes
        real_handle = self.disk.handle_oserror

        def handle_oserror(e):
            mon.oserror = True
            return real_handle(e)
        self.disk.handle_oserror = handle_oserror

        def hook(event, args):
            if not mon.active:
                return
            if event == 'open' or (event.startswith('os.') and event.split('.')[1] in (
                    'listdir', 'scandir', 'mkdir', 'rmdir', 'remove', 'rename', 'chmod', 'chown', 'truncate',
                    'link', 'symlink', 'utime', 'chdir', 'walk')) or event.startswith('shutil.'):
                for a in args[:2]:
                    if isinstance(a, (str, bytes)):
                        mon.audit.append((event, os.fsdecode(a), args[1] if event == 'open' else None))
        sys.addaudithook(hook)

    @classmethod
    def get(cls):
        if cls.instance is None:
            cls.instance = Monitor()
        return cls.instance

    def rec(self, kind, mode, paths):
        if self.active:
            if kind in (1, 2, 3) and any((b'\0' if isinstance(p, bytes) else '\0') in p for p in paths):
                # os.path.exists/isdir/isfile: Python refuses the name (ValueError, caught by genericpath)
                # before any system call is made
                return None
            self.ops.append([kind, mode, [os.fsdecode(p) for p in paths], False])
            return len(self.ops) - 1
        return None

    def fail(self, i):
        if i is not None:
            self.ops[i][3] = True

    def start(self):
        self.ops, self.audit, self.oserror = [], [], False
        self.active = True

    def stop(self):
        self.active = False
        return self.ops, self.audit


# --------------------------------------------------------------------------------------------------
# Coq literals

def zl(l):
    return core.zl(list(l))


def strs(l):
    return '[' + ';'.join(zl(x) for x in l) + ']'


def u(s):
    """host name (str) -> code points"""
    return [ord(c) for c in s]


STMT_KINDS = ['CHDIR', 'MKDIR', 'RMDIR', 'KILL', 'NAME', 'FILES', 'FILES0', 'OPENI', 'OPENO', 'OPENA', 'OPENR',
              'LOAD', 'SAVE', 'MERGE', 'CHAIN', 'RUN', 'BLOAD', 'BSAVE']
OPEN_LIKE = {'OPENI': (73, False), 'OPENO': (79, False), 'OPENA': (65, False), 'OPENR': (82, False),
             'LOAD': (73, True), 'MERGE': (73, True), 'CHAIN': (73, True), 'RUN': (73, True),
             'BLOAD': (73, True), 'SAVE': (79, True), 'BSAVE': (79, True)}
FINAL_MODE = {73: 114, 79: 119, 65: 97, 82: 43}
BASIC_TEXT = {
    'CHDIR': 'CHDIR P$', 'MKDIR': 'MKDIR P$', 'RMDIR': 'RMDIR P$', 'KILL': 'KILL P$', 'NAME': 'NAME P$ AS Q$',
    'FILES': 'FILES P$', 'FILES0': 'FILES', 'OPENI': 'OPEN P$ FOR INPUT AS 1', 'OPENO': 'OPEN P$ FOR OUTPUT AS 1',
    'OPENA': 'OPEN P$ FOR APPEND AS 1', 'OPENR': 'OPEN P$ FOR RANDOM AS 1', 'LOAD': 'LOAD P$', 'SAVE': 'SAVE P$',
    'MERGE': 'MERGE P$', 'CHAIN': 'CHAIN P$', 'RUN': 'RUN P$', 'BLOAD': 'DEF SEG=&HB800:BLOAD P$,0',
    'BSAVE': 'DEF SEG=&HB800:BSAVE P$,0,16',
}


def stmt_term(st):
    k, a = st[0], st[1]
    if k == 'CHDIR':
        return 'SChdir %s' % zl(a)
    if k == 'MKDIR':
        return 'SMkdir %s' % zl(a)
    if k == 'RMDIR':
        return 'SRmdir %s' % zl(a)
    if k == 'KILL':
        return 'SKill %s' % zl(a)
    if k == 'NAME':
        return 'SName %s %s' % (zl(a), zl(st[2]))
    if k == 'FILES':
        return 'SFiles (Some %s)' % zl(a)
    if k == 'FILES0':
        return 'SFiles None'
    mode, prog = OPEN_LIKE[k]
    return 'SOpen %s %d %s' % (zl(a), mode, 'true' if prog else 'false')


# --------------------------------------------------------------------------------------------------
# sandbox: <top>/GRAND.TXT, <top>/lvl/SECRET.TXT, <top>/lvl/SIB/X.TXT, mount C = <top>/lvl/mnt,
# mount D = <top>/lvl2/mntd, E unmounted

DRIVES = [(67, True), (68, True), (69, False)]
PROGRAM = b'10 REM\r\n'


class Sandbox(object):
    def __init__(self, tree):
        self.top = os.path.realpath(common.tmpdir('c27'))
        self.roots = {67: os.path.join(self.top, 'lvl', 'mnt'), 68: os.path.join(self.top, 'lvl2', 'mntd')}
        for r in self.roots.values():
            os.makedirs(r)
        os.makedirs(os.path.join(self.top, 'lvl', 'SIB'))
        os.makedirs(os.path.join(self.top, 'lvl', 'MNT2'))
        for rel in ('GRAND.TXT', 'lvl/SECRET.TXT', 'lvl/SIB/X.TXT', 'lvl/PROG.BAS', 'lvl2/SECRET.TXT',
                    'lvl/MNT2/Y.BAS', 'SECRET.TXT'):
            with open(os.path.join(self.top, rel), 'wb') as f:
                f.write(PROGRAM)
        for drive, comps, isdir in tree:
            p = os.path.join(self.roots[drive], *comps)
            if isdir:
                os.makedirs(p, exist_ok=True)
            else:
                os.makedirs(os.path.dirname(p), exist_ok=True)
                with open(p, 'wb') as f:
                    f.write(PROGRAM)

    def close(self):
        common.rmtree(self.top)

    def inside(self, path):
        if '\0' in path:
            return True     # cannot reach the operating system at all
        rp = os.path.realpath(path)
        return any(rp == r or rp.startswith(r + os.sep) for r in self.roots.values())

    def outside_fingerprint(self):
        """everything under top that is not inside a mount: names, types, contents."""
        res = []
        for dirpath, dirnames, filenames in os.walk(self.top):
            dirnames[:] = sorted(d for d in dirnames if os.path.join(dirpath, d) not in self.roots.values())
            for d in dirnames:
                res.append(('d', os.path.join(dirpath, d)))
            for fn in sorted(filenames):
                p = os.path.join(dirpath, fn)
                with open(p, 'rb') as f:
                    res.append(('f', p, hashlib.sha1(f.read()).hexdigest()))
        # (the mount root directories themselves belong to the mounted trees: RMDIR "\\" on an empty drive
        #  removes the root, which is recorded in design_notes/C27.md but is not an access outside the tree)
        return res

    def snapshot(self):
        """[(drive, comps, isdir, listing)] in os.listdir order, root first."""
        res = []
        for drive in sorted(self.roots):
            root = self.roots[drive]
            if not os.path.isdir(root):
                continue
            stack = [[]]
            while stack:
                comps = stack.pop(0)
                p = os.path.join(root, *comps)
                if os.path.isdir(p):
                    names = os.listdir(p)
                    res.append((drive, comps, True, names))
                    for n in names:
                        stack.append(comps + [n])
                else:
                    res.append((drive, comps, False, []))
        return res

    def rel(self, path):
        """absolute host path -> (drive, components) ; (0, all components) when under no mount root."""
        for drive, root in self.roots.items():
            if path == root or path.startswith(root + os.sep):
                return drive, [c for c in path[len(root):].split(os.sep) if c != '']
        return 0, [c for c in path.split(os.sep) if c != '']


def snapshot_term(sn):
    return '[' + ';'.join('(%d, %s, %s, %s)' % (d, strs(u(c) for c in comps), 'true' if isdir else 'false',
                                                 strs(u(n) for n in names))
                          for d, comps, isdir, names in sn) + ']'


def enc_strs(l):
    out = [len(l)]
    for s in l:
        out += [len(s)] + list(s)
    return out


def lock_table(impl, letter=b'C:'):
    """the lock table of a drive (Locks._locking_parameters) as list of ints: n, then per entry
    number, mode, name, lock type, access"""
    params = impl.files._devices[letter]._locks._locking_parameters
    out = [len(params)]
    for number, f in params.items():
        out += [number, (f.mode or b'\0')[0]]
        for x in (f.name, f.lock_type, f.access):
            x = bytes(x or b'')
            out += [len(x)] + list(x)
    return out


def run_history(case, with_listing=True):
    """Run the statements of a case in a fresh Session on a fresh sandbox.
    Returns (encoded output, snapshots per step (None = unchanged), violations found by the oracle)."""
    mon = Monitor.get()
    sb = Sandbox([(d, c, k) for d, c, k in case['tree']])
    out = []
    snaps = []
    viol = []
    details = []
    try:
        fp0 = sb.outside_fingerprint()
        with common.new_session(devices={'C': sb.roots[67], 'D': sb.roots[68], 'Z': None},
                                current_device='C:') as s:
            s.execute('REM')
            impl = s._impl
            errs = []
            orig = impl._handle_error

            def handle(e):
                errs.append(e.err)
                return orig(e)
            impl._handle_error = handle
            listings = []
            dev_cls = mon.disk.DiskDevice
            orig_listdir = dev_cls.listdir

            def listdir(self, pathmask):
                r = orig_listdir(self, pathmask)
                listings.append(r)
                return r
            dev_cls.listdir = listdir
            try:
                last = None
                for st in case['steps']:
                    sn = sb.snapshot()
                    snaps.append(sn if sn != last else None)
                    last = sn
                    kind = st[0]
                    s.execute('10 REM')
                    s.set_variable('P$', bytes(st[1]))
                    if kind == 'NAME':
                        s.set_variable('Q$', bytes(st[2]))
                    del errs[:]
                    del listings[:]
                    host = None
                    mon.start()
                    try:
                        with core.time_limit(20):
                            s.execute(BASIC_TEXT[kind])
                    except Exception as e:
                        host = common.canon_exc(e)
                    ops, audit = mon.stop()
                    locks_open = lock_table(impl)
                    s.execute('CLOSE')
                    locks_closed = lock_table(impl)
                    # status
                    if host is not None:
                        status = host
                        viol.append('host exception escaped from %s %r' % (kind, bytes(st[1])))
                    elif errs:
                        status = [1, errs[0]]
                    else:
                        status = [0, 0]
                    if kind in OPEN_LIKE and status[0] == 1 and ops:
                        k, m, ps, failed = ops[-1]
                        if k == 5 and m == FINAL_MODE[OPEN_LIKE[kind][0]] and not failed:
                            # the file was resolved and opened; what went wrong afterwards (Bad file mode, ...)
                            # is not path resolution
                            status = [0, 0]
                    if kind in OPEN_LIKE and nondisk(st[1]):
                        # a device that is not a disk drive: whatever that device answers, DiskDevice must not
                        # have been entered and no host path touched (model: Err (-2), empty trace)
                        status = [1, -2] if host is None else status
                    out += status
                    # trace
                    out.append(len(ops))
                    for k, m, ps, failed in ops:
                        out.append(k)
                        if k == 5:
                            out.append(m)
                        for p in ps:
                            d, comps = sb.rel(p)
                            out += [d] + enc_strs([u(c) for c in comps])
                            if not sb.inside(p):
                                viol.append('%s %r: host operation %d on %s which is outside the mounted '
                                            'directories' % (kind, bytes(st[1]), k, p))
                    for ev, p, extra in audit:
                        ap = os.path.abspath(p)
                        under_top = ap == sb.top or ap.startswith(sb.top + os.sep)
                        if under_top and not sb.inside(ap):
                            viol.append('%s %r: audited %s on %s (outside the mounts)' % (kind, bytes(st[1]), ev, ap))
                    lines = listings[0] if (listings and status == [0, 0] and kind in ('FILES', 'FILES0')) else []
                    details.append({'kind': kind, 'status': status, 'lines': [bytes(x) for x in lines],
                                    'locks': locks_open + locks_closed,
                                    'ops': [(k, m, [sb.rel(p) for p in ps], failed) for k, m, ps, failed in ops],
                                    'after': sb.snapshot()})
                    out += enc_strs([list(x) for x in lines]) if with_listing else [0]
            finally:
                dev_cls.listdir = orig_listdir
            for letter, mounted in DRIVES:
                dev = impl.files._devices[bytes([letter]) + b':']
                cwd = dev._native_cwd
                out += [letter] + enc_strs([u(c) for c in (cwd.split(os.sep) if cwd else [])])
        fp1 = sb.outside_fingerprint()
        if fp0 != fp1:
            changed = [x for x in fp0 if x not in fp1] + [x for x in fp1 if x not in fp0]
            viol.append('objects outside the mounts changed: %r' % (changed[:4],))
    finally:
        sb.close()
    return out, snaps, viol, details


def history_term(case, snaps, with_locks=False):
    steps = []
    for st, sn in zip(case['steps'], snaps):
        steps.append('(%s, %s)' % ('None' if sn is None else 'Some %s' % snapshot_term(sn), stmt_term(st)))
    s0 = ('{| st_cur := 67; st_drives := [%s] |}' % ';'.join(
        '(%d, {| ds_mounted := %s; ds_cwd := [] |})' % (l, 'true' if m else 'false') for l, m in DRIVES))
    if with_locks:
        return 'run_enc_locks %s [%s]' % (s0, ';'.join(steps))
    return 'run_enc_opt %s [] [%s]' % (s0, ';'.join(steps))


# --------------------------------------------------------------------------------------------------
# generators

def b(s):
    return list(s.encode('cp437') if isinstance(s, str) else s)


HOST_NAMES = ['SUB', 'Sub2', 'A.TXT', 'lower.bas', 'LongFileName.txt', 'PROG.BAS', '\u00fcn\u00ef.txt', '.hid',
              'TWO.DOTS.X', 'NODOT', 'trail.', 'sp ace.t t', 'UPPER.BAS', 'upper.bas', 'MNT', 'SECRET.TXT', 'X',
              'longdirectoryname', 'D.IR', 'a', '#1.$$$', '\u4e2d.txt', 'PLUS+.TXT', '..x', '...', 'A:B', 'C:']
SPECIAL = ['.', '..', '.. ', '..  ', '. ', '...', ' ..', '..\t', '', ' ', '*', '*.*', '?', 'A*', '*.B?S', '*.',
           '.*', '..\r', '.. .', '..*', '..?', '?.', '??', 'lvl', 'mnt', 'SIB', 'SECRET.TXT', 'PROG', 'CON', 'NUL', 'PRN', 'AUX', 'con',
           '\x00', 'A\x00', '..\x00', '\xff', 'A' * 9, 'A' * 9 + '.' + 'B' * 4, 'x' * 70]
PREFIX = ['', '', '', '', 'C:', 'c:', 'D:', 'd:', 'E:', '@:', '@:', 'AB:', ':', '1:', 'CC:', 'Z:', 'C:C:', 'C :', 'SCRN:', 'LPT1:',
          'KYBD:', 'CAS1:', 'COM1:', 'lpt1:', 'COM2:', '\\\\', '\\\\?\\',
          '\\\\.\\', '\\\\SUB\\..', 'C:\\\\SUB\\..']
ALPHABET = b'ABCabc019:\\/.*? ' + bytes([0, 9, 255, 0x81, 0xe1])


# elements made of dots, blanks and a few name characters: whatever stripping / clipping to 8.3 / normalising does
# to them, they must never end up as "." or ".." on the host
DOTTY = ['..  X', '.. X', '. .', '..x', '.  .', '..  ABC', '.   X', '..   X', '..  .', '. ..', '.. .', '...  X', '.  X',
         '..  X.Y', '..\tX', '..  x  ', '.  ', '..     X', '..  XYZ.TXT', '.. .X', '..  \xff', ' ..  X', '..  X ',
         '.' + ' ' * 7 + 'X', '..' + ' ' * 9 + 'LONGTAIL', '.       .', '..  SECRET.TXT', '..  SIB', '.. . .', '..  ..']


def gen_dotty(rng):
    if rng.random() < 0.6:
        return b(rng.choice(DOTTY).encode('latin1').decode('unicode_escape').encode('latin1'))
    n = rng.choice([2, 3, 4, 5, 6, 8, 10, 13])
    lead = rng.choice(['.', '..', '..', '. ', '.. ', '..  '])
    body = ''.join(rng.choice('.  \tXa1') for _ in range(max(0, n - len(lead))))
    return b((lead + body).replace('\\t', '\t'))


def gen_element(rng, names):
    r = rng.random()
    if r < 0.18:
        return gen_dotty(rng)
    r = rng.random()
    if r < 0.4 and names:
        n = rng.choice(names)
        q = rng.random()
        if q < 0.3:
            n = n.upper()
        elif q < 0.5:
            n = n.lower()
        elif q < 0.6:
            n = ''.join(c.upper() if rng.random() < 0.5 else c.lower() for c in n)
        if rng.random() < 0.15:
            n += rng.choice([' ', '.', '  ', ' .', '. ', '\t'])
        if rng.random() < 0.05:
            n = ' ' + n
        try:
            return b(n)
        except UnicodeEncodeError:
            return b(n.encode('ascii', 'replace'))
    if r < 0.75:
        return b(rng.choice(SPECIAL).encode('latin1'))
    return [rng.choice(ALPHABET) for _ in range(rng.choice([1, 1, 2, 3, 5, 8, 9, 12, 13]))]


def gen_path(rng, names):
    res = b(rng.choice(PREFIX))
    if rng.random() < 0.25:
        res += b('\\')
    n = rng.choice([1, 1, 1, 2, 2, 3, 4])
    parts = []
    for i in range(n):
        if i < n - 1 and rng.random() < 0.5:
            parts.append(gen_dotty(rng) if rng.random() < 0.3 else
                         b(rng.choice(['..', '.', 'SUB', 'Sub2', '.. ', 'sub', 'X', ''])))
        else:
            parts.append(gen_element(rng, names))
    sep = b('/') if rng.random() < 0.04 else b('\\')
    for i, p in enumerate(parts):
        if i:
            res += sep
        res += p
    if rng.random() < 0.1:
        res += b('\\')
    return res[:255]


NONDISK_DEVICES = [b'SCRN', b'KYBD', b'CAS1', b'COM1', b'COM2', b'LPT1', b'LPT2', b'LPT3']
# (LPT2: / LPT3: are not generated until fixes/D27b.patch is applied: OPEN succeeds on the unattached port and
#  CLOSE then raises AttributeError out of the interpreter)


def nondisk(path):
    """OPEN-like statements on something that is not a disk drive (devices, DOS device files): not modelled."""
    p = bytes(path)
    if b':' in p:
        return p.split(b':', 1)[0].upper() in NONDISK_DEVICES
    return p in (b'AUX', b'CON', b'NUL', b'PRN')


def gen_tree(rng):
    tree = []
    names = []
    dirs = [(67, []), (68, [])]
    for _ in range(rng.choice([2, 4, 6, 8])):
        drive, base = rng.choice(dirs)
        if len(base) >= 2:
            continue
        n = rng.choice(HOST_NAMES)
        isdir = rng.random() < (0.6 if len(dirs) < 4 else 0.3)
        if any(t[0] == drive and t[1] == base + [n] for t in tree):
            continue
        tree.append([drive, base + [n], isdir])
        names.append(n)
        if isdir:
            dirs.append((drive, base + [n]))
    return tree, names


# paths that start at (what looks like) a root and climb: every root-like prefix x a run of `..` / `.` elements
# x a target.  ntpath.normpath collapses `..` after `\` but keeps it verbatim in the server/share part of a
# UNC-looking path (`\\..\..\X`), after `\\.\` / `\\?\` and after a drive-relative prefix: whatever survives must be
# clamped at the mount root from ANY working directory, so these are combined with CHDIR prologues below.
ROOTISH = ['\\', '\\\\', '\\\\\\', 'C:\\', 'C:\\\\', 'c:\\\\', 'D:\\\\', '\\\\.\\', '\\\\?\\', '\\\\..\\', 'C:', '', '.\\', '..\\',
           '\\\\SUB\\', '\\\\.\\..\\']
CLIMB_TARGETS = ['SECRET.TXT', 'SIB', 'SIB\\X.TXT', '*.*', 'PROG.BAS', 'PROG', 'lvl', 'mnt', 'MNT2\\Y.BAS', 'NEW', '', '.', 'X']


def gen_climb(rng, names):
    res = rng.choice(ROOTISH)
    ups = [rng.choice(['..', '..', '..', '.', '.. ', '...']) for _ in range(rng.choice([1, 2, 2, 3, 4]))]
    if rng.random() < 0.25 and names:
        ups.insert(rng.randrange(len(ups) + 1), rng.choice(names))
    tgt = rng.choice(CLIMB_TARGETS + list(names)) if rng.random() < 0.85 else ''
    return b(('\\'.join([res.rstrip('\\') if False else res + '\\'.join(ups)] + ([tgt] if tgt else []))).encode('cp437', 'replace'))[:255]


def gen_history(rng, n_steps=None):
    tree, names = gen_tree(rng)
    names = names + ['SUB', 'PROG.BAS']
    steps = []
    # prologue: half of the histories first CHDIR into existing directories (1-2 levels below a root)
    dirs = [t for t in tree if t[2]]
    if dirs and rng.random() < 0.55:
        drive, comps, _ = rng.choice(sorted(dirs, key=lambda t: -len(t[1]))[:max(1, len(dirs) // 2 + 1)])
        pre = 'D:' if drive == 68 else rng.choice(['', 'C:'])
        try:
            if rng.random() < 0.5 or len(comps) == 1:
                steps.append(['CHDIR', b(pre + '\\' + '\\'.join(comps))])
            else:
                steps.append(['CHDIR', b(pre + comps[0])])
                steps.append(['CHDIR', b(pre + '\\'.join(comps[1:]))])
        except UnicodeEncodeError:
            steps = []
    for _ in range(n_steps or rng.choice([2, 3, 4, 5, 6])):
        r = rng.random()
        if r < 0.3:
            kind = 'CHDIR'
        else:
            kind = rng.choice(STMT_KINDS)
        def path():
            return gen_climb(rng, names) if rng.random() < 0.15 else gen_path(rng, names)
        st = [kind, path() if kind != 'FILES0' else []]
        while kind in OPEN_LIKE and nondisk(st[1]) and (kind not in ('OPENO', 'OPENI', 'OPENA', 'OPENR') or
                                                        (bytes(st[1]) == b'CON' and kind in ('OPENA', 'OPENR'))):
            # (OPEN "CON" FOR APPEND/RANDOM raises UnboundLocalError until fixes/D27c.patch is applied)
            # (LOAD "KYBD:" and the like would wait for input; OPEN on non-disk devices is generated)
            st[1] = gen_path(rng, names)
        if kind == 'NAME':
            st.append(path())
        if kind in ('FILES', 'KILL') and rng.random() < 0.5:
            st[1] = st[1][:200] + (b('\\') if st[1] and rng.random() < 0.5 else []) + b(rng.choice(
                ['*.*', '*', '?????.*', '*.BAS', 'A*.*', '.', '..', '*.', 'pr*.b?s', '', '.. ']))
        steps.append(st)
    return {'tree': tree, 'steps': steps}


# --------------------------------------------------------------------------------------------------

class C27(core.Check):
    ID = 'C27'
    GEN = ['gen_dosnames']
    PROPS = 'props/C27.v'
    MODEL_IMPORTS = ['gen.Gen_dosnames', 'model.DosNames', 'model.Paths', 'model.PathsNt']
    QUICK_CASES = 700
    THOROUGH_CASES = 7000
    TRUSTED = [
        'hand model model/Paths.v of DiskDevice name/path resolution and of the file statements of devices/files.py '
        '(as repaired by fixes/D9.patch, fixes/D27a.patch), tied by correspondence on host-operation traces; '
        'os.path.join(p, c) = p ++ [c] for safe c and os.path.abspath = identity on such paths (posixpath)',
        'FS contract: os.listdir returns entry names (no "", ".", "..", "/" or NUL); a path of safe components '
        'below a mount root denotes an object in that tree (no symlink leaves it); mount roots and initial '
        'working directories are chosen by the host user',
        'default (single-byte) codepage; Windows short names, DBCS codepages, the internal drive @: with bound '
        'files, and non-disk devices (LPTn:, COMn:, CAS1:, SCRN:, KYBD:, CON/AUX/PRN/NUL) are outside the model',
    ]
    RULE = ('histories of 2-6 file statements (all 18 statement forms) with random path strings on a fresh sandbox '
            '(two mounted drives, one unmounted, sentinels next to and above the roots); every os/io call of '
            'devices/disk.py is recorded through proxies; model and implementation must agree on status, the exact '
            'sequence of host operations with their paths, FILES output and final working directories. '
            'non-trivial = at least one host operation was issued; distinct by hash')
    histogram = None

    def __init__(self, tier, seed):
        core.Check.__init__(self, tier, seed)
        self._runs = {}

    def corpus(self):
        def h(tree, *steps):
            return {'tree': tree, 'steps': [list(s) for s in steps]}
        t1 = [[67, ['SUB'], True], [67, ['SUB', 'IN.TXT'], False], [67, ['PROG.BAS'], False]]
        return [
            # D9 witnesses
            h(t1, ['CHDIR', b('.. ')], ['FILES0', []], ['OPENI', b('SECRET.TXT')], ['KILL', b('SECRET.TXT')]),
            h(t1, ['CHDIR', b('SUB\\.. \\.. ')], ['RUN', b('PROG')]),
            h(t1, ['CHDIR', b('\\\\SUB\\..')], ['CHDIR', b('.. \\SIB')], ['KILL', b('*.*')]),
            h(t1, ['FILES', b('.. \\*.*')], ['KILL', b('.. \\SECRET.TXT')], ['NAME', b('.. \\SECRET.TXT'), b('X')]),
            h(t1, ['RMDIR', b('..')], ['MKDIR', b('..')], ['OPENO', b('..')], ['OPENO', b('. ')], ['CHDIR', b('. ')]),
            h(t1, ['LOAD', b('.. \\PROG')], ['SAVE', b('.. \\NEW')], ['BSAVE', b('..\t\\NEW')], ['MKDIR', b('.. \\NEWDIR')],
              ['RMDIR', b('.. \\SIB')], ['OPENA', b('.. \\SECRET.TXT')]),
            h(t1, ['CHDIR', b('D:.. ')], ['FILES', b('D:')], ['OPENR', b('D:SECRET.TXT')]),
            # elements that clip / strip / normalise towards ".." (seeded/C27b class)
            h(t1, ['OPENI', b('..  X\\SECRET.TXT')], ['FILES', b('..  X\\*.*')], ['KILL', b('..  X\\SECRET.TXT')]),
            h(t1, ['CHDIR', b('SUB')], ['CHDIR', b('..\\..  ABC')], ['FILES0', []], ['OPENI', b('SECRET.TXT')]),
            h(t1, ['CHDIR', b('..  X')], ['MKDIR', b('..  X\\NEWDIR')], ['SAVE', b('SUB\\..  Y\\..  Z\\P')],
              ['NAME', b('..  X\\SECRET.TXT'), b('GOT.TXT')], ['RMDIR', b('..  X\\SIB')]),
            h(t1, ['CHDIR', b('. .')], ['CHDIR', b('.  .')], ['CHDIR', b('.. X')], ['CHDIR', b('..x')], ['OPENO', b('..  X')],
              ['OPENO', b('.  X')], ['MKDIR', b('..  X')]),
            # root-like prefixes that climb, from a working directory below the root (seeded/C27e class)
            h([[67, ['SUB'], True], [67, ['SUB', 'DEEP'], True]], ['CHDIR', b('SUB\\DEEP')],
              ['OPENI', b('\\\\..\\..\\SECRET.TXT')], ['FILES', b('\\\\..\\.\\*.*')], ['KILL', b('\\\\..\\SIB\\X.TXT')],
              ['CHDIR', b('\\\\..\\..')], ['FILES0', []], ['SAVE', b('NEW')]),
            h([[67, ['SUB'], True]], ['CHDIR', b('SUB')], ['MKDIR', b('\\\\..\\NEWDIR')], ['NAME', b('\\\\..\\SECRET.TXT'), b('GOT.TXT')],
              ['RMDIR', b('C:\\\\..\\SIB')], ['BSAVE', b('\\\\.\\..\\..\\OUT')], ['LOAD', b('\\\\?\\..\\PROG')]),
            h([[68, ['A'], True], [68, ['A', 'B'], True]], ['CHDIR', b('D:\\A\\B')], ['OPENI', b('D:\\\\..\\..\\SECRET.TXT')],
              ['CHDIR', b('D:\\\\..\\.')], ['FILES', b('D:')]),
            # devices that are not disk drives, the internal drive
            h(t1, ['OPENO', b('SCRN:')], ['OPENO', b('LPT1:X')], ['OPENI', b('KYBD:')], ['OPENO', b('NUL')],
              ['OPENO', b('CAS1:X')], ['OPENO', b('COM1:')]),
            h(t1, ['FILES', b('@:')], ['FILES', b('@:*.*')], ['FILES', b('@:x')], ['KILL', b('@:X')], ['CHDIR', b('@:\\')],
              ['OPENO', b('@:X')], ['FILES', b('@:..')], ['FILES', b('@:a/b')]),
            # D27a witnesses
            h(t1, ['CHDIR', b('AB:foo')], ['FILES', b(':')], ['KILL', b('BC:X')], ['NAME', b('A'), b('XY:B')]),
            # ordinary behaviour
            h(t1, ['CHDIR', b('sub')], ['FILES0', []], ['OPENI', b('in.txt')], ['CHDIR', b('..\\..\\..')],
              ['FILES', b('*.*')]),
            h(t1, ['MKDIR', b('new')], ['CHDIR', b('NEW')], ['SAVE', b('p')], ['NAME', b('P.BAS'), b('q.bas')],
              ['KILL', b('Q.*')], ['CHDIR', b('\\')], ['RMDIR', b('NEW')]),
            h([], ['NAME', b(''), b('X')], ['RMDIR', b('\\')], ['FILES0', []]),
            h(t1, ['OPENO', b('C:\\SUB\\a/b')], ['CHDIR', b('a/b')], ['FILES', b('a/b')], ['OPENO', b('E:X')],
              ['CHDIR', b('E:\\')], ['OPENO', b('LPT4:X')]),
        ]

    def gen_cases(self, n):
        rng = self.rng
        hist = {k: 0 for k in STMT_KINDS}
        out = []
        for _ in range(n):
            c = gen_history(rng)
            for st in c['steps']:
                hist[st[0]] += 1
            out.append(c)
        self.histogram = hist
        return out

    def _run(self, case):
        key = core.sha(case)
        if key not in self._runs:
            self._runs[key] = run_history(case)
        return self._runs[key]

    def impl(self, case):
        return self._run(case)[0]

    def model_term(self, case):
        return history_term(case, self._run(case)[1])

    def oracle(self, case, out):
        viol = self._run(case)[2]
        return viol[0] if viol else None

    def nontrivial(self, case, out):
        # some statement issued a host operation
        return any(x is not None for x in self._run(case)[1]) and len(out) > 12


CHECK = C27
