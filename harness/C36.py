"""C36 - The text cursor and screen content stay consistent."""
from vlib import core
from harness import common

CTRL = [7, 8, 9, 10, 11, 12, 13, 28, 29, 30, 31, 0]
CONSOLE_CTRL = {9, 10, 13, 7, 11, 12, 28, 29, 30, 31}
MSG = {5: b'Illegal function call', 6: b'Overflow'}


def _expr(bs):
    """BASIC string expression whose value is the byte string bs."""
    if not bs:
        return '""'
    parts = []
    run = []
    for b in bs:
        if 32 <= b <= 126 and b != 34:
            run.append(chr(b))
        else:
            if run:
                parts.append('"%s"' % ''.join(run))
                run = []
            parts.append('CHR$(%d)' % b)
    if run:
        parts.append('"%s"' % ''.join(run))
    return '+'.join(parts)


def stmt_text(op):
    k = op[0]
    if k == 'P':
        out = []
        for it in op[1]:
            out.append(it if it in (',', ';') else _expr(it[1]))
        return 'PRINT ' + ''.join(out)
    if k == 'L':
        args = ['' if a is None else str(a) for a in op[1:4]]
        while args and args[-1] == '':
            args.pop()
        return 'LOCATE ' + ','.join(args)
    if k == 'C':
        return 'CLS' if op[1] is None else 'CLS %d' % op[1]
    if k == 'V':
        return 'VIEW PRINT' if op[1] is None else 'VIEW PRINT %d TO %d' % (op[1], op[2])
    if k == 'W':
        return 'WIDTH %d' % op[1]
    if k == 'K':
        return 'KEY ON' if op[1] else 'KEY OFF'
    if k == 'S':
        return 'SCREEN %d' % op[1]
    raise ValueError(op)


def grid_hash(rows):
    h = 0
    for r in rows:
        for c in r:
            h = (h * 33 + c) & 1073741823
    return h


def rle(flat):
    out = []
    cur, cnt = None, 0
    for c in flat:
        if c == cur:
            cnt += 1
        else:
            if cur is not None:
                out += [cur, cnt]
            cur, cnt = c, 1
    if cur is not None:
        out += [cur, cnt]
    return out


# ---------------------------------------------------------------------------------------------------------
# independent reference terminal: a grid and a cursor with deferred wrap (col may be width+1 = "pending")

class Ref(object):
    """Reference terminal: a grid, a cursor with deferred wrap (col may be width+1 = "pending") and the set of rows
    that continue on the next row (logical lines).  Knows plain characters, CR, LF, BEL, TAB, HOME (11), CLS (12)."""

    def __init__(self, grid, row, col, pending, top, bot, width, height=25, cont=()):
        self.g = [list(r) for r in grid]
        self.row, self.col = row, col + (1 if pending else 0)
        self.top, self.bot, self.w, self.h = top, bot, width, height
        self.cont = set(cont)

    def scroll(self):
        del self.g[self.top - 1]
        self.g.insert(self.bot - 1, [32] * self.w)
        self.cont = set(r - 1 for r in self.cont if self.top < r <= self.bot) | \
            set(r for r in self.cont if not self.top <= r <= self.bot)

    def down(self):
        """to the start of the next row, scrolling the window when leaving it at the bottom"""
        if self.row == self.h or self.row >= self.bot:
            self.scroll()
            self.row = self.bot
        else:
            self.row += 1
        self.col = 1

    def start_write(self):
        """every write to the console first cuts the logical line at the cursor row"""
        self.cont.discard(self.row)

    def newline(self):
        self.cont.discard(self.row)
        self.down()

    def put(self, ch):
        if self.col > self.w:
            if self.row == self.h:
                self.col = self.w
            else:
                self.cont.add(self.row)
                self.down()
        self.g[self.row - 1][self.col - 1] = ch
        self.col += 1
        if self.col > self.w and self.row in self.cont:
            # the row already continues on the next one: no pending state
            self.down()

    def char(self, b):
        if b in (10, 13):
            self.newline()
        elif b == 7:
            pass
        elif b == 9:
            for _ in range(8 - (min(self.col, self.w) - 1) % 8):
                self.put(32)
        elif b == 11:
            self.row, self.col = max(self.top, 1), 1
        elif b == 12:
            for r in range(self.top, self.bot + 1):
                self.g[r - 1] = [32] * self.w
                self.cont.discard(r)
            self.row, self.col = self.top, 1
        else:
            self.put(b)

    def write(self, bs):
        """one Console.write call"""
        if bs:
            self.start_write()
            for b in bs:
                self.char(b)

    def text(self, bs):
        self.write(bs)

    def print_value(self, bs, can_break=True):
        """PRINT of one string: a string whose first line does not fit on the rest of the line starts on the next
        line; the string reaches the console in pieces that end with each CR / LF"""
        if not bs:
            return
        width1 = 0
        has_nl = False
        for b in bs:
            if b in (10, 13):
                has_nl = True
                break
            width1 += -1 if b == 8 else 1 if b >= 32 else 0
        c = min(self.col, self.w)
        if can_break and self.row != self.h and c != 1 and c - 1 + width1 > self.w and not has_nl:
            self.write([13])
        piece = []
        for b in bs:
            piece.append(b)
            if b in (10, 13):
                self.write(piece)
                piece = []
        self.write(piece)

    def comma(self):
        c = min(self.col, self.w)
        zones = max(1, self.w // 14)
        nz = (c - 1) // 14 + 1
        if nz >= zones:
            self.write([13])
        else:
            self.print_value([32] * (1 + 14 * nz - c), can_break=False)

    def print_stmt(self, items):
        nl = True
        for it in items:
            if it == ',':
                self.comma()
                nl = False
            elif it == ';':
                nl = False
            else:
                self.print_value(it[1])
                nl = True
        if nl:
            if self.col > self.w:
                self.write([13])
            self.write([13])

    def error(self, err):
        if min(self.col, self.w) != 1:
            self.down()
        self.cont.discard(self.row - 1 if self.row > 1 else self.h)
        self.write(list(MSG[err]))
        self.write([255])
        self.write([13])

    def reported(self):
        """(CSRLIN, POS) by the rule of the property: a pending wrap reports column 1 of the next row
        (the same row on the last row of the window)"""
        if self.col > self.w:
            return (self.row + 1 if self.row < self.bot else self.row), 1
        return self.row, self.col


REF_CTRL = {7, 9, 10, 11, 12, 13}


def ref_knows(bs):
    """strings the reference terminal interprets: everything but the cursor movement codes 28-31"""
    return not (set(bs) & {28, 29, 30, 31})


def plain(bs):
    return all(b >= 32 for b in bs)


class C36(core.Check):
    ID = 'C36'
    GEN = []
    PROPS = 'props/C36.v'
    MODEL_IMPORTS = ['model.Cursor']
    QUICK_CASES = 420
    THOROUGH_CASES = 5000
    TRUSTED = ['hand model model/Cursor.v of TextScreen / VideoBuffer row operations / Console.write / SCRNFile.write / '
               'PRINT formatter (strings, ; and ,) / statement glue for the cga adapter, tied by correspondence after '
               'every statement (CSRLIN, POS(0), raw cursor fields, scroll window, width, hash of the whole character '
               'grid; final grid and wrap flags exactly)',
               'DBCS, attributes, pixels, video pages other than 0, tandy/pcjr (VIEW PRINT to row 25), the line editor '
               '(insert/delete/line feed) and PRINT USING / TAB / SPC / numbers are outside the model']
    RULE = ('histories of 1-16 statements in a fresh Session: PRINT (plain strings, control codes, ; and , , lengths '
            'dense at the right margin), LOCATE (valid, invalid, omitted arguments), CLS [n], VIEW PRINT, WIDTH 40/80, '
            'KEY ON/OFF, SCREEN 0/1/2, SCREEN(r,c), typed text (write_chars with do_scroll_down); after each statement '
            'the observation vector of the implementation must equal the model, and an independent reference '
            'terminal (grid + deferred-wrap cursor) must agree on the plain-text subset. non-trivial = at least one '
            'statement succeeded and the grid is not blank; distinct by hash')
    histogram = None

    # ------------------------------------------------------------------ cases
    def corpus(self):
        X80 = ['v', [88] * 80]
        return [
            {'ops': []},
            # D36a: LOCATE r,80 with a pending column-80 overflow
            {'ops': [['P', [X80, ';']], ['L', 3, 80, None], ['P', [['v', [65]], ';']]]},
            {'ops': [['W', 40], ['P', [['v', [88] * 40], ';']], ['L', 7, 40, None], ['F', 7, 40]]},
            # D36b: typing past the right margin inside a window pushes out the last row of the window
            {'ops': [['L', 1, 1, None], ['P', [['v', [49]]]], ['P', [['v', [50]]]], ['P', [['v', [51]]]],
                     ['P', [['v', [52]]]], ['P', [['v', [53]]]], ['P', [['v', [54]]]],
                     ['V', 1, 5], ['L', 2, 79, None], ['T', [97, 98, 99, 100]]]},
            # D36c: narrower screen with the key bar on and the cursor right of the new width
            {'ops': [['K', 1], ['L', 1, 60, None], ['W', 40], ['P', [['v', [65]]]]]},
            {'ops': [['K', 1], ['P', [['v', [65] * 50], ';']], ['S', 1], ['W', 80], ['L', 2, 41, None], ['S', 0], ['W', 40]]},
            # status line on row 25, then output in the window running past row 24 must scroll rows 1-24
            {'ops': [['K', 0], ['L', 25, 1, None], ['P', [['v', [83, 84, 65, 84, 85, 83]], ';']], ['L', 24, 1, None],
                     ['P', [['v', [65] * 100], ';']], ['P', [['v', [66] * 70]]], ['P', [['v', [67]]]]]},
            {'ops': [['K', 0], ['L', 25, 70, None], ['P', [['v', [83, 84]], ';']], ['V', 3, 24], ['L', 24, 80, None],
                     ['P', [['v', [65, 66, 67]], ';']], ['P', [['v', [68] * 81], ';']], ['F', 25, 70]]},
            # vga: SCREEN 7/8/9 and WIDTH between them; start width 40; editor cursor keys
            {'ops': [['S', 7], ['P', [['v', [65] * 41]]], ['W', 80], ['S', 9], ['W', 40], ['S', 8], ['S', 0], ['S', 3]],
             'w': 80, 'vga': 1},
            {'ops': [['P', [['v', [65] * 40], ';']], ['L', 24, 40, None], ['P', [['v', [66] * 2]]], ['W', 80], ['S', 7]],
             'w': 40, 'vga': 0},
            {'ops': [['P', [['v', [65] * 80], ';']], ['E', 2], ['P', [['v', [66]], ';']], ['E', 3], ['E', 3], ['E', 0], ['E', 0],
                     ['L', 24, 80, None], ['E', 2], ['E', 1], ['T', [67] * 3], ['E', 4], ['E', 3], ['E', 5]]},
            # stale continuation flag: the 100 characters leave row 23 flagged; refilling it moves on without overflow
            {'ops': [['L', 24, 1, None], ['P', [['v', [65] * 100], ';']], ['L', 23, 1, None], ['P', [['v', [66] * 80], ';']],
                     ['V', 1, 23], ['L', 22, 1, None], ['P', [['v', [67] * 160], ';']]]},
            # boundaries
            {'ops': [['P', [X80]], ['P', [X80, ';']], ['P', [['v', [89]]]]]},
            {'ops': [['L', 24, 1, None], ['P', [X80, ';']], ['P', [['v', [89]], ';']]]},
            {'ops': [['L', 25, 1, None], ['P', [X80, ';']], ['P', [['v', [89] * 3], ';']], ['L', 24, 80, None]]},
            {'ops': [['K', 1], ['L', 25, 1, None], ['L', 24, 80, None], ['P', [['v', [90]]]], ['K', 0]]},
            {'ops': [['V', 5, 10], ['C', None], ['P', [['v', list(range(65, 91)) * 9]]], ['L', 4, 1, None],
                     ['L', 11, 1, None], ['L', 10, 80, None], ['V', None, None], ['L', 25, 80, None]]},
            {'ops': [['V', 24, 24], ['P', [['v', [65] * 200]]], ['C', 2], ['V', 0, 3], ['V', 3, 25], ['V', 4, 3]]},
            {'ops': [['S', 1], ['P', [['v', [65] * 41]]], ['C', 1], ['W', 80], ['P', [['v', [66] * 81], ',', ',']]]},
            {'ops': [['P', [['v', [65, 13, 66, 10, 67, 9, 68, 28, 69, 29, 29, 70, 30, 71, 31, 72, 11, 73]]]],
                     ['P', [['v', [12, 74, 7, 8, 0]]]]]},
            {'ops': [['L', 0, 1, None], ['L', 1, 0, None], ['L', 26, 1, None], ['L', 1, 81, None],
                     ['L', 40000, 1, None], ['L', 5, 5, 2], ['L', None, None, 1], ['L', None, 80, None],
                     ['F', 0, 0], ['F', 26, 1], ['F', 0, 5], ['F', 40000, 1], ['W', 41], ['W', 256], ['S', 3],
                     ['C', 3]]},
            {'ops': [['P', [['v', [65] * 79], ';']], ['P', [['v', [66, 67]], ';']], ['P', [',', ',', ',', ',', ',']]]},
        ]

    def _plain_string(self, rng, width, col=1):
        r = rng.random()
        if r < 0.35:
            n = rng.choice([0, 1, 2, max(0, width - col), width - col + 1, width - col + 2, width, width + 1,
                            2 * width - col + 1, 2 * width, 3 * width, 255, 254])
        elif r < 0.8:
            n = rng.randrange(0, 30)
        else:
            n = rng.randrange(0, 256)
        n = min(n, 255)
        base = rng.choice([33, 48, 65, 97, 128, 176])
        hi = 256 if rng.random() < 0.1 else base + 26
        return [rng.choice([34, 32, 255]) if rng.random() < 0.03 else (base + rng.randrange(26)) % hi for _ in range(n)]

    def _ctrl_string(self, rng, width):
        n = rng.randrange(1, 40)
        return [rng.choice(CTRL) if rng.random() < 0.3 else 65 + rng.randrange(26) for _ in range(n)] \
            + ([88] * rng.choice([0, width - 2, width, width + 3]) if rng.random() < 0.3 else [])

    def _print(self, rng, width, ctrl_ok, hist):
        items = []
        n = rng.choice([1, 1, 1, 2, 2, 3, 4])
        for i in range(n):
            if rng.random() < 0.15:
                items.append(rng.choice([',', ';']))
            if ctrl_ok and rng.random() < 0.3:
                v = self._ctrl_string(rng, width)
                hist['print_ctrl'] += 1
            else:
                v = self._plain_string(rng, width, rng.choice([1, 1, rng.randrange(1, width + 1)]))
            items.append(['v', v])
            if i < n - 1 or rng.random() < 0.6:
                items.append(rng.choice([',', ';', ';']))
        while rng.random() < 0.1:
            items.append(rng.choice([',', ';']))
        return ['P', items]

    def _num(self, rng, lo, hi):
        r = rng.random()
        if r < 0.55:
            return rng.randrange(lo, hi + 1)
        if r < 0.85:
            return rng.choice([lo, hi, lo + 1, hi - 1, lo, hi])
        return rng.choice([lo - 1, hi + 1, 0, -1, 255, 256, 32767, 32768, -32768, -32769, 40000, 25, 24, 80, 81, 40, 41])

    def _op(self, rng, width, hist, ctrl_ok=True, typed_ok=True):
        r = rng.random()
        if r < 0.38:
            return self._print(rng, width, ctrl_ok, hist)
        if r < 0.60:
            a = self._num(rng, 1, 25) if rng.random() < 0.9 else None
            b = self._num(rng, 1, width) if rng.random() < 0.85 else None
            c = rng.choice([None, None, None, None, 0, 1, 2, -1])
            if a is None and b is None and c is None:
                b = width
            return ['L', a, b, c]
        if r < 0.68:
            return ['C', rng.choice([None, None, None, 0, 1, 2, 2, 3, -1, 40000])]
        if r < 0.78:
            if rng.random() < 0.2:
                return ['V', None, None]
            a = self._num(rng, 1, 24)
            b = self._num(rng, 1, 24) if rng.random() < 0.4 else min(24, max(a, 1) + rng.choice([0, 0, 1, 2, 5, 20]))
            return ['V', a, b]
        if r < 0.83:
            return ['W', rng.choice([40, 80, 40, 80, 40, 80, 41, 0, 255, 256, -1, 20, 40000])]
        if r < 0.88:
            return ['K', rng.randrange(2)]
        if r < 0.92:
            return ['S', rng.choice([0, 1, 2, 0, 1, 2, 7, 8, 9, 3, 7, 255, 256, -1])]
        if r < 0.95 or not typed_ok:
            return ['F', self._num(rng, 0, 25), self._num(rng, 0, width)]
        if r < 0.975:
            n = rng.choice([1, 3, width, width + 5, 2 * width + 1])
            return ['T', [65 + rng.randrange(26) for _ in range(n)]]
        return ['E', rng.choice([0, 1, 2, 2, 3, 3, 4, 5])]

    def gen_cases(self, n):
        rng = self.rng
        hist = {'general': 0, 'placement': 0, 'statusline': 0, 'malformed': 0, 'print_ctrl': 0, 'ops': {}, 'config': {}}
        out = []
        for i in range(n):
            ops = []
            cfg = rng.random()
            width, vga = (80, 0) if cfg < 0.65 else (40, 0) if cfg < 0.78 else (80, 1) if cfg < 0.94 else (40, 1)
            width0 = width
            fam = i % 10
            if fam < 5:
                hist['general'] += 1
                if rng.random() < 0.15:
                    ops.append(['K', 1])
                for _ in range(rng.randrange(2, 15)):
                    op = self._op(rng, width, hist)
                    ops.append(op)
                    if op[0] == 'W' and op[1] in (40, 80):
                        width = op[1]
                    if op[0] == 'S' and (op[1] in (1, 2) or (vga and op[1] in (7, 8, 9))):
                        width = 40 if op[1] in (1, 7) else 80
            elif fam == 8:
                hist['statusline'] += 1
                # KEY OFF: LOCATE 25,c: PRINT "...";  then LOCATE / VIEW PRINT t TO 24 and output running past row 24
                if rng.random() < 0.3:
                    op = rng.choice([['W', 40], ['S', 2], ['S', 1]])
                    ops.append(op)
                    width = 40 if op[1] in (40, 1) else 80
                ops.append(['K', 0])
                for _ in range(rng.choice([1, 1, 2, 3])):
                    c0 = rng.choice([1, 1, width - 8, rng.randrange(1, width + 1)])
                    ops.append(['L', 25, c0, None])
                    ops.append(['P', [['v', self._plain_string(rng, width, c0)[:rng.choice([6, 6, width - c0 + 1, width])]], ';']])
                    top = 1
                    r = rng.random()
                    if r < 0.5:
                        top = rng.choice([1, 2, 20, 23, 24, rng.randrange(1, 25)])
                        ops.append(['V', top, 24])
                    if r > 0.3:
                        ops.append(['L', rng.choice([24, 24, 23, rng.randrange(top, 25)]), rng.choice([1, width, rng.randrange(1, width + 1)]), None])
                    for _ in range(rng.choice([1, 2, 3, 4])):
                        n1 = rng.choice([width, width + 1, 2 * width, 3 * width + 5, 100, 255, rng.randrange(1, 256)])
                        items = [['v', [65 + rng.randrange(26) for _ in range(min(255, n1))]]]
                        if rng.random() < 0.7:
                            items.append(';')
                        ops.append(['P', items])
                    if rng.random() < 0.5:
                        ops.append(['F', 25, rng.randrange(1, width + 1)])
            elif fam < 9:
                hist['placement'] += 1
                # plain text on a cleared screen: setup, CLS, LOCATE, PRINTs of plain strings
                if rng.random() < 0.5:
                    op = rng.choice([['W', 40], ['S', 1], ['S', 2], ['W', 80], ['S', 0]] + ([['S', 7], ['S', 8], ['S', 9]] if vga else []))
                    ops.append(op)
                    if op[0] == 'W':
                        width = op[1]
                    elif op[1] != 0:
                        width = 40 if op[1] in (1, 7) else 80
                if rng.random() < 0.3:
                    ops.append(['K', 1])
                top, bot = 1, 24
                if rng.random() < 0.6:
                    top = rng.randrange(1, 25)
                    bot = rng.choice([top, min(24, top + 1), min(24, top + 3), 24, rng.randrange(top, 25)])
                    ops.append(['V', top, bot])
                # leave marks outside the window first
                ops.append(['C', rng.choice([None, None, 2, 0])])
                r0 = rng.choice([top, bot, bot, rng.randrange(top, bot + 1)])
                c0 = rng.choice([1, 1, width, width - 1, 2, rng.randrange(1, width + 1)])
                ops.append(['L', r0, c0, None])
                col = c0
                for _ in range(rng.choice([1, 1, 2, 3, 5])):
                    s1 = self._plain_string(rng, width, col)
                    items = [['v', s1]]
                    if rng.random() < 0.7:
                        items.append(rng.choice([';', ';', ',']))
                    col = (col - 1 + len(s1)) % width + 1
                    ops.append(['P', items])
                if rng.random() < 0.5:
                    ops.append(['F', rng.randrange(top, bot + 1), rng.randrange(1, width + 1)])
            else:
                hist['malformed'] += 1
                for _ in range(rng.randrange(2, 10)):
                    k = rng.randrange(7)
                    big = lambda: rng.choice([0, -1, 25, 26, 24, 80, 81, 40, 41, 255, 256, 32767, 32768, -32768,
                                              -32769, 1, 2])
                    if k == 0:
                        ops.append(['L', big(), big(), rng.choice([None, 0, 1, 2, 255, -1, 40000])])
                    elif k == 1:
                        ops.append(['V', big(), big()])
                    elif k == 2:
                        ops.append(['W', big()])
                    elif k == 3:
                        ops.append(['S', big()])
                    elif k == 4:
                        ops.append(['C', big()])
                    elif k == 5:
                        ops.append(['F', big(), big()])
                    else:
                        ops.append(self._print(rng, 80, True, hist))
            for op in ops:
                hist['ops'][op[0]] = hist['ops'].get(op[0], 0) + 1
            ck = '%d/%s' % (width0, 'vga' if vga else 'cga')
            hist['config'][ck] = hist['config'].get(ck, 0) + 1
            out.append({'ops': ops, 'w': width0, 'vga': vga})
        self.histogram = hist
        return out

    # ------------------------------------------------------------------ implementation
    def _trace(self, case):
        cache = self.__dict__.setdefault('_traces', {})
        key = core.sha(case)
        if key in cache:
            return cache[key]
        snaps = []
        with common.new_session(video='vga' if case.get('vga') else 'cga', text_width=case.get('w', 80)) as s:
            s.start()
            impl = s._impl
            ts = impl.text_screen
            errs = []
            orig = impl._handle_error

            def spy(e):
                errs.append(e.err)
                return orig(e)
            impl._handle_error = spy

            def snap(tag, val):
                g = s.get_chars()
                page = ts._apage
                return {
                    'res': [tag, val],
                    'csrlin': s.evaluate('CSRLIN'), 'pos': s.evaluate('POS(0)'),
                    'row': ts.current_row, 'col': ts.current_col, 'ovf': bool(ts.overflow),
                    'bra': bool(ts._bottom_row_allowed), 'top': ts.scroll_area.top, 'bot': ts.scroll_area.bottom,
                    'act': bool(ts.scroll_area.active), 'width': ts.mode.width, 'height': ts.mode.height,
                    'barvis': bool(ts._bottom_bar.visible),
                    'modenr': {'cgatext80': 0, 'cgatext40': 0, 'vgatext80': 0, 'vgatext40': 0, '320x200x4': 1,
                               '640x200x2': 2, '320x200x16': 7, '640x200x16': 8, '640x350x16': 9}.get(ts.mode.name, 99),
                    'csw': bool(impl.display.colorswitch),
                    'grid': [[ord(c) for c in r] for r in g],
                    'wraps': [bool(page.wraps(i + 1)) for i in range(ts.mode.height)],
                }
            snaps.append(snap(0, 0))
            with core.time_limit(120):
                for op in case['ops']:
                    del errs[:]
                    tag, val = 0, 0
                    try:
                        if op[0] == 'F':
                            v = s.evaluate('SCREEN(%d,%d)' % (op[1], op[2]))
                            if not errs:
                                val = int(v)
                        elif op[0] == 'T':
                            ts.write_chars(bytes(op[1]), do_scroll_down=True)
                        elif op[0] == 'E':
                            # what Console._interact calls for the cursor keys / HOME / CTRL+HOME
                            [ts.up, ts.down, ts.incr_pos, ts.decr_pos, lambda: ts.set_pos(1, 1), ts.clear_view][op[1]]()
                        else:
                            s.execute(stmt_text(op))
                        if errs:
                            tag, val = 1, errs[0]
                        snaps.append(snap(tag, val))
                    except TimeoutError:
                        raise
                    except Exception as e:
                        # a host exception escaped the interpreter: the history ends here
                        crashed = dict(snaps[-1])
                        crashed['res'] = common.canon_exc(e)
                        crashed['crash'] = '%s: %s' % (type(e).__name__, e)
                        snaps.append(crashed)
                        break
        cache[key] = snaps
        if len(cache) > 3000:
            cache.pop(next(iter(cache)))
        return snaps

    @staticmethod
    def _obs(sn):
        return [sn['csrlin'], sn['pos'], sn['row'], sn['col'], int(sn['ovf']), int(sn['bra']), sn['top'], sn['bot'],
                int(sn['act']), sn['width'], int(sn['barvis']), sn['modenr'], int(sn['csw']), grid_hash(sn['grid'])]

    def impl(self, case):
        snaps = self._trace(case)
        out = []
        for sn in snaps[1:]:
            out += sn['res'] + self._obs(sn)
        last = snaps[-1]
        out += rle([c for r in last['grid'] for c in r])
        out += [int(w) for w in last['wraps']]
        return out

    # ------------------------------------------------------------------ model
    @staticmethod
    def _opt(v):
        return 'None' if v is None else ('(Some (%d))' % v)

    def model_term(self, case):
        ts = []
        for op in case['ops']:
            k = op[0]
            if k == 'P':
                its = []
                for it in op[1]:
                    its.append('PComma' if it == ',' else 'PSemi' if it == ';' else 'PV %s' % core.zl(it[1]))
                ts.append('SPrint [%s]' % '; '.join(its))
            elif k == 'L':
                ts.append('SLocate %s %s %s' % (self._opt(op[1]), self._opt(op[2]), self._opt(op[3])))
            elif k == 'C':
                ts.append('SCls %s' % self._opt(op[1]))
            elif k == 'V':
                ts.append('SViewPrint None' if op[1] is None else 'SViewPrint (Some ((%d), (%d)))' % (op[1], op[2]))
            elif k == 'W':
                ts.append('SWidth (%d)' % op[1])
            elif k == 'K':
                ts.append('SKey %s' % ('true' if op[1] else 'false'))
            elif k == 'S':
                ts.append('SScreen (%d)' % op[1])
            elif k == 'F':
                ts.append('SScreenFn (%d) (%d)' % (op[1], op[2]))
            elif k == 'T':
                ts.append('STyped %s' % core.zl(op[1]))
            elif k == 'E':
                ts.append('SEdit %d' % op[1])
            else:
                raise ValueError(op)
        return '(run_case_on %d %s [%s])' % (case.get('w', 80), 'true' if case.get('vga') else 'false', '; '.join(ts))

    def nontrivial(self, case, out):
        snaps = self._trace(case)
        return any(sn['res'][0] == 0 for sn in snaps[1:]) and any(c != 32 for r in snaps[-1]['grid'] for c in r)

    # ------------------------------------------------------------------ property oracle
    @staticmethod
    def _ref(pre):
        return Ref(pre['grid'], pre['row'], pre['col'], pre['ovf'] and pre['col'] == pre['width'],
                   pre['top'], pre['bot'], pre['width'], pre['height'],
                   cont=[i + 1 for i, w in enumerate(pre['wraps']) if w])

    @staticmethod
    def _same(ref, post, what):
        if ref.g != post['grid']:
            for i, (a, b) in enumerate(zip(ref.g, post['grid'])):
                if a != b:
                    j = [x != y for x, y in zip(a, b)].index(True)
                    return '%s: character grid differs from the reference at row %d col %d (reference %d, screen %d)' % (
                        what, i + 1, j + 1, a[j], b[j])
            return '%s: grid shape differs' % what
        if ref.reported() != (post['csrlin'], post['pos']):
            return '%s: CSRLIN/POS = %r, reference cursor %r' % (what, (post['csrlin'], post['pos']), ref.reported())
        return None

    def oracle(self, case, out):
        snaps = self._trace(case)
        known = None
        for k, op in enumerate(case['ops']):
            if k + 1 >= len(snaps):
                break
            pre, post = snaps[k], snaps[k + 1]
            if post.get('crash'):
                return 'statement %d %s: host exception %s escaped the interpreter' % (
                    k + 1, op[0] if op[0] in 'PT' else repr(op), post['crash'])
            what = 'statement %d %s' % (k + 1, op[0] if op[0] in 'PT' else repr(op))
            w, h = post['width'], post['height']
            # the cursor is always within the screen
            if not (1 <= post['row'] <= h and 1 <= post['col'] <= w):
                return '%s: cursor (%d,%d) outside the %dx%d screen' % (what, post['row'], post['col'], h, w)
            if not (1 <= post['csrlin'] <= h and 1 <= post['pos'] <= w):
                return '%s: CSRLIN/POS (%d,%d) outside the screen' % (what, post['csrlin'], post['pos'])
            # CSRLIN and POS report it
            if not post['ovf'] and (post['csrlin'], post['pos']) != (post['row'], post['col']):
                return '%s: CSRLIN/POS %r do not report the cursor %r' % (
                    what, (post['csrlin'], post['pos']), (post['row'], post['col']))
            err = post['res'][1] if post['res'][0] == 1 else None
            i16 = lambda z: z is None or -32768 <= z <= 32767
            pw = pre['width']
            # the cursor is in the VIEW PRINT window (by what CSRLIN reported and the cursor row; no internal flag)
            normal = pre['top'] <= pre['csrlin'] <= pre['bot'] and pre['top'] <= pre['row'] <= pre['bot']
            nowrapflags = not any(pre['wraps'])
            # K36a: an overflow flag that survived a move away from the last column
            stale = pre['ovf'] and pre['col'] != pre['width']
            if post['ovf'] and post['col'] != post['width'] and known is None:
                known = ('%s: overflow still pending in column %d, not the last column: POS(0) reports %d but the next '
                         'character is written one column further right [K36a]' % (what, post['col'], post['pos']))
            if op[0] == 'L':
                r, c, cur = op[1], op[2], op[3]
                if not (i16(r) and i16(c) and i16(cur)):
                    want = 6
                else:
                    rr = pre['row'] if r is None else r
                    cc = pre['col'] if c is None else c
                    rows_ok = (pre['top'] <= rr <= pre['bot']) if pre['act'] else (1 <= rr <= 25)
                    if rr == 25 and pre['barvis']:
                        rows_ok = False
                    want = None if rows_ok and 1 <= cc <= pw else 5
                    if want is None and cur is not None and not 0 <= cur <= 1:
                        want = 'late5'
                if want in (5, 6):
                    # Illegal function call / Overflow, and nothing but the message changes
                    if err != want:
                        return '%s: expected error %d, got %r' % (what, want, err)
                    if normal and not stale:
                        ref = self._ref(pre)
                        ref.error(want)
                        bad = self._same(ref, post, what + ' (rejected: only the error message may appear)')
                        if bad:
                            return bad
                elif want is None:
                    if err is not None:
                        return '%s: valid LOCATE raised error %d' % (what, err)
                    if post['grid'] != pre['grid']:
                        return '%s: LOCATE changed the screen content' % what
                    if r is not None and c is not None and (post['csrlin'], post['pos']) != (r, c):
                        return '%s: after LOCATE %d,%d CSRLIN/POS report %r' % (what, r, c, (post['csrlin'], post['pos']))
                    if r is not None and post['row'] != r:
                        return '%s: cursor row %d after LOCATE row %d' % (what, post['row'], r)
                    if c is not None and post['col'] != c:
                        return '%s: cursor column %d after LOCATE column %d' % (what, post['col'], c)
            elif op[0] == 'F':
                r, c = op[1], op[2]
                if not (i16(r) and i16(c)):
                    want = 6
                elif not (0 <= r <= 25 and 0 <= c <= pw) or (r == 0 and c == 0):
                    want = 5
                elif pre['act'] and not pre['top'] <= (r or 1) <= pre['bot']:
                    want = 5
                else:
                    want = None
                if want is None:
                    if err is not None:
                        return '%s: valid SCREEN() raised %d' % (what, err)
                    if post['res'][1] != pre['grid'][(r or 1) - 1][(c or 1) - 1]:
                        return '%s: SCREEN(%d,%d) = %d but the cell holds %d' % (
                            what, r, c, post['res'][1], pre['grid'][(r or 1) - 1][(c or 1) - 1])
                    if post['grid'] != pre['grid'] or (post['row'], post['col']) != (pre['row'], pre['col']):
                        return '%s: SCREEN() changed the screen or the cursor' % what
                elif err != want:
                    return '%s: expected error %d, got %r' % (what, want, err)
            elif op[0] in ('P', 'T'):
                if normal:
                    # output that starts inside the window stays inside the window ...
                    if not (pre['top'] <= post['csrlin'] <= pre['bot'] and pre['top'] <= post['row'] <= pre['bot']):
                        return '%s: output started at row %d inside the VIEW PRINT window %d-%d but the cursor ended on row %d (CSRLIN %d)' % (
                            what, pre['csrlin'], pre['top'], pre['bot'], post['row'], post['csrlin'])
                    # ... and never changes a row outside of it
                    for i in range(h):
                        if not pre['top'] <= i + 1 <= pre['bot'] and pre['grid'][i] != post['grid'][i]:
                            return '%s: row %d outside the VIEW PRINT window %d-%d changed' % (
                                what, i + 1, pre['top'], pre['bot'])
                if op[0] == 'P':
                    items = op[1]
                    if all(it in (',', ';') or ref_knows(it[1]) for it in items) and normal and not stale:
                        ref = self._ref(pre)
                        ref.print_stmt(items)
                        bad = self._same(ref, post, what + ' (text placement per the reference terminal)')
                        if bad:
                            return bad
                elif normal and nowrapflags and self._typed_ref(pre, op[1]) != post['grid']:
                    return '%s: typed text: rows of the window are not shifted down by one at each wrap' % what
            elif op[0] == 'E':
                if op[1] < 5 and post['grid'] != pre['grid']:
                    return '%s: a cursor key changed the screen content' % what
                if op[1] in (0, 1) and normal and not (pre['top'] <= post['row'] <= pre['bot']):
                    return '%s: cursor up/down left the VIEW PRINT window' % what
                if op[1] in (0, 1, 2, 3) and abs(post['row'] - pre['row']) > 1:
                    return '%s: a cursor key moved the cursor by more than one row' % what
                if op[1] == 5:
                    for i in range(h):
                        inside = pre['top'] <= i + 1 <= pre['bot']
                        if inside and any(c != 32 for c in post['grid'][i]):
                            return '%s: CTRL+HOME left row %d of the window uncleared' % (what, i + 1)
                        if not inside and post['grid'][i] != pre['grid'][i]:
                            return '%s: CTRL+HOME changed row %d outside the window' % (what, i + 1)
            elif op[0] == 'C' and err is None and op[1] in (None, 0, 2) and i16(op[1]):
                whole = op[1] == 0 or (op[1] is None and not pre['act'])
                a, b = (1, h) if whole else (pre['top'], pre['bot'])
                for i in range(h):
                    if a <= i + 1 <= b:
                        if i + 1 == h and pre['barvis']:
                            continue
                        if any(c != 32 for c in post['grid'][i]):
                            return '%s: row %d not cleared' % (what, i + 1)
                    elif post['grid'][i] != pre['grid'][i]:
                        return '%s: row %d outside the cleared area changed' % (what, i + 1)
                if (post['csrlin'], post['pos']) != (pre['top'], 1):
                    return '%s: cursor %r after CLS, expected home (%d,1)' % (
                        what, (post['csrlin'], post['pos']), pre['top'])
            elif op[0] == 'V':
                a, b = op[1], op[2]
                if a is None:
                    want = None
                elif not (i16(a) and i16(b)):
                    want = 6
                elif not (1 <= a <= 24 and 1 <= b <= 24 and a <= b):
                    want = 5
                else:
                    want = None
                if want != err:
                    return '%s: expected error %r, got %r' % (what, want, err)
                if err is None:
                    if post['grid'] != pre['grid']:
                        return '%s: VIEW PRINT changed the screen content' % what
                    if a is not None and ((post['csrlin'], post['pos']) != (a, 1) or (post['top'], post['bot']) != (a, b)):
                        return '%s: window/cursor after VIEW PRINT: %r %r' % (
                            what, (post['top'], post['bot']), (post['csrlin'], post['pos']))
            elif op[0] in ('W', 'S') and err is None:
                if (post['width'], post['modenr'], post['csw']) != (pre['width'], pre['modenr'], pre['csw']):
                    for i in range(h - 1):
                        if any(c != 32 for c in post['grid'][i]):
                            return '%s: screen not blank after the mode change' % what
                    if (post['csrlin'], post['pos']) != (1, 1):
                        return '%s: cursor not home after the mode change' % what
            elif op[0] == 'K' and err is None:
                if post['grid'][:h - 1] != pre['grid'][:h - 1] or (post['row'], post['col']) != (pre['row'], pre['col']):
                    return '%s: KEY ON/OFF changed rows 1-24 or moved the cursor' % what
        return known

    K36A = {'ops': [['P', [['v', [88] * 80 + [28]], ';']], ['P', [['v', [65]], ';']]]}

    def known_match(self, finding, case, out):
        if finding.get('id') != 'K36a':
            return False
        why = self.oracle(case, out)
        return bool(why) and '[K36a]' in why

    def known_rerun(self, finding):
        if finding.get('id') != 'K36a':
            return True
        snaps = self._trace(self.K36A)
        # after 80 characters and a cursor-right: column 1 of the next row with the overflow still pending,
        # POS(0) = 1, and the next character lands in column 2
        return (snaps[1]['ovf'] and snaps[1]['col'] == 1 and snaps[1]['pos'] == 1
                and snaps[2]['grid'][1][0] == 32 and snaps[2]['grid'][1][1] == 65)

    @staticmethod
    def _typed_ref(pre, bs):
        """overwrite-mode typing: like printing, but running over the right margin of a line that is not yet
        continued opens a blank row below it (rows of the window below move down, the last one drops out)"""
        g = [list(r) for r in pre['grid']]
        row, col = pre['row'], pre['col'] + (1 if pre['ovf'] and pre['col'] == pre['width'] else 0)
        top, bot, w = pre['top'], pre['bot'], pre['width']
        for ch in bs:
            if col > w:
                if row < bot:
                    g.insert(row, [32] * w)
                    del g[bot]
                    row += 1
                else:
                    del g[top - 1]
                    g.insert(bot - 1, [32] * w)
                col = 1
            g[row - 1][col - 1] = ch
            col += 1
        return g

    def shrink_candidates(self, case):
        cfg = {k: v for k, v in case.items() if k != 'ops'}
        for c in self._shrink_ops(case):
            c.update(cfg)
            yield c

    def _shrink_ops(self, case):
        ops = case['ops']
        n = len(ops)
        for i in range(n):
            yield {'ops': ops[:i] + ops[i + 1:]}
        if n > 1:
            yield {'ops': ops[:n // 2]}
            yield {'ops': ops[n // 2:]}
        for i, op in enumerate(ops):
            if op[0] == 'P':
                for j in range(len(op[1])):
                    yield {'ops': ops[:i] + [['P', op[1][:j] + op[1][j + 1:]]] + ops[i + 1:]}
                for j, it in enumerate(op[1]):
                    if it not in (',', ';') and len(it[1]) > 1:
                        for cut in (it[1][:len(it[1]) // 2], it[1][len(it[1]) // 2:], it[1][:-1], it[1][1:]):
                            yield {'ops': ops[:i] + [['P', op[1][:j] + [['v', cut]] + op[1][j + 1:]]] + ops[i + 1:]}
            if op[0] == 'T' and len(op[1]) > 1:
                yield {'ops': ops[:i] + [['T', op[1][:-1]]] + ops[i + 1:]}


CHECK = C36
