"""C29 - Files written to a cassette image read back intact."""
import os

from vlib import core
from harness import common

TD, TA, TB, TP, TM = 68, 65, 66, 80, 77
TEXT = (TD, TA)
MAGIC = 0xa5


def pat(noeof, a, b, n):
    """Content pattern; the same function as model/Cassette.v `pat`."""
    out = []
    for i in range(n):
        v = (a + i * b + i // 7) % 256
        out.append(27 if (noeof and v == 26) else v)
    return out


def digest(l):
    s1, s2 = 1, 0
    for b in l:
        s1 = (s1 + b) % 65521
        s2 = (s2 + s1) % 65521
    return [len(l), s1, s2] + list(l[:18])


class Console(object):
    def __init__(self):
        self.lines = []

    def write_line(self, m):
        self.lines.append(bytes(m))


def crc16(data):
    """CRC-16-CCITT as on IBM PC tapes (own implementation, for the image parser)."""
    rem = 0xffff
    for d in data:
        rem ^= d << 8
        for _ in range(8):
            rem <<= 1
            if rem & 0x10000:
                rem ^= 0x1021
            rem &= 0xffff
    return rem ^ 0xffff


def parse_cas(path):
    """Independent parser of a CAS image as written by a fresh writer: intro, then records of
    (2048 one-bits, 0, 0x16, n * (256 bytes + CRC hi lo), 30 one-bits, 0).  Returns (records, crc_ok)."""
    raw = open(path, 'rb').read()
    bits = ''.join('{:08b}'.format(b) for b in raw)
    intro = b'PC-BASIC tape\x1a'
    if raw[:len(intro)] != intro:
        raise ValueError('no intro')
    pos = len(intro) * 8 + 7
    if bits[len(intro) * 8:pos] != '0' * 7:
        raise ValueError('intro padding')
    records = []
    crc_ok = 1
    lead = '1' * 2048 + '0' + '00010110'
    trail = '1' * 30 + '0'
    while True:
        if '1' not in bits[pos:]:
            if len(bits) - pos > 7:
                raise ValueError('trailing garbage')
            break
        if bits[pos:pos + len(lead)] != lead:
            raise ValueError('leader expected at bit %d' % pos)
        pos += len(lead)
        blocks = []
        while True:
            after = bits[pos + 31:]
            if bits[pos:pos + 31] == trail and ('1' not in after[:2048] and len(after) <= 7 or
                                                after[:2048] == '1' * 2048):
                pos += 31
                break
            chunk = bits[pos:pos + 258 * 8]
            if len(chunk) < 258 * 8:
                raise ValueError('short block at bit %d' % pos)
            data = [int(chunk[i:i + 8], 2) for i in range(0, 258 * 8, 8)]
            if crc16(data[:256]) != data[256] * 256 + data[257]:
                crc_ok = 0
            blocks.append(data[:256])
            pos += 258 * 8
        records.append(blocks)
    return records, crc_ok


class C29(core.Check):
    ID = 'C29'
    GEN = ['gen_cassette']
    PROPS = 'props/C29.v'
    MODEL_IMPORTS = ['gen.Gen_cassette', 'model.Cassette', 'model.CassetteBits']
    QUICK_CASES = 300
    THOROUGH_CASES = 4000
    TRUSTED = ['hand model model/Cassette.v of CASDevice.open/_search, CassetteStream (open_write, write, '
               '_flush/_close_record_buffer, open_read, _fill_record_buffer, read, _write_record/_write_block) '
               'and CASTextFile.close at the level of records of 256-byte blocks, tied by correspondence '
               'through the real CASDevice on CAS and WAV images; its framing decisions '
               '(flush test, chunk size, count bytes, token tables, header constants, name comparison, '
               'end-of-tape handler) are regenerated from cassette.py on every run',
               'NOT modelled: leader/sync/CRC/trailer and the bit and pulse layers (CASBitStream, '
               'WAVBitStream); they are exercised by the same runs (an independent CAS parser checks the '
               'record/block/CRC structure of every image) but nothing is proved about them']
    PARTIAL = ('search-by-name theorem excludes passing over a text/data file of length = 164 mod 255: its last '
               'count byte is A5 and the scan for the next header takes that record for a header (known '
               'finding K29a; B/P/M files are passed over by reading their data record, fix D29c); text-mode 0x1A end-of-file truncation belongs to TextFileBase and is not part of the '
               'model (text contents are generated without 0x1A unless read through the raw stream)')
    RULE = ('tape sessions: 1-4 files (types D A B P M; lengths dense at 0,1,k*255-2..k*255+1,164,256k+-1; '
            'written in random write() pieces; names incl. trailing blanks, 8 and >8 chars, duplicates), image '
            'closed, parsed by an independent CAS parser (record/block structure, CRCs), reopened, 1-6 open '
            'requests (existing names in any order, missing names, type filters, empty name) each read to the '
            'end with bounded reads (INPUT$ sizes 1..255 from a per-case plan, length of every answer observed); malformed: control chars in names, seg/offset out of range. non-trivial = at least one file '
            'read back; distinct by hash')
    histogram = None

    # ---- cases
    @staticmethod
    def F(name, t, n, a=3, b=5, seg=0, off=0, pre=(), post=(), cuts=()):
        return {'name': list(name), 't': t, 'seg': seg, 'off': off, 'pre': list(pre), 'n': n, 'a': a, 'b': b,
                'post': list(post), 'cuts': list(cuts)}

    def corpus(self):
        F = self.F
        A, B, C = [65], [66], [67]
        cs = []
        # D10 witness: 254-byte data file (253 chars + CR) followed by any file
        cs.append({'fmt': 'cas', 'raw': 0, 'files': [F(A, TD, 253, 120, 0, post=[13]), F(B, TD, 5, post=[13])],
                   'reqs': [[A, [TD]], [B, [TD]]]})
        for L in (0, 1, 253, 254, 255, 256, 508, 509, 510, 511, 764, 765):
            for t in (TD, TA):
                cs.append({'fmt': 'cas', 'raw': L % 2, 'files': [F(A, t, L, L, 7), F(B, TB, 3, seg=1, off=2)],
                           'reqs': [[A, []], [B, []]]})
        cs.append({'fmt': 'wav', 'raw': 0, 'files': [F(A, TD, 253, 120, 0, post=[13]), F(B, TM, 257, seg=1, off=2)],
                   'reqs': [[B, [TM]], [A, [TD]], [B, []]]})
        # seeded C29d: INPUT$(100,#1) over a 400-byte data file; the third request straddles the record boundary
        cs.append({'fmt': 'cas', 'raw': 0, 'plan': [100], 'files': [F(A, TD, 400, 1, 3)], 'reqs': [[A, [TD]]]})
        cs.append({'fmt': 'wav', 'raw': 0, 'plan': [200, 57], 'files': [F(A, TD, 400, 1, 3), F(B, TA, 600, 2, 5)],
                   'reqs': [[B, []], [A, []]]})
        cs.append({'fmt': 'cas', 'raw': 1, 'plan': [254, 2, 255, 1], 'files': [F(A, TA, 767, 9, 11)], 'reqs': [[A, []]]})
        # D29a witness: a failed search that skipped a file must not leave the device "open"
        cs.append({'fmt': 'cas', 'raw': 0, 'files': [F(A, TB, 10), F(B, TB, 20)],
                   'reqs': [[C, []], [B, []], [A, []]]})
        # D29b witness: a name longer than 8 characters is found by that name
        cs.append({'fmt': 'cas', 'raw': 0, 'files': [F(list(b'LONGNAME1'), TD, 4), F(B, TD, 5)],
                   'reqs': [[list(b'LONGNAME1'), [TD]], [B, []]]})
        # binary block boundaries, last/length oddity of A/D headers, type filters, empty name
        cs.append({'fmt': 'cas', 'raw': 0,
                   'files': [F(A, TM, 256, seg=4660, off=22136), F(B, TA, 300), F(C, TP, 513, seg=7), F(A, TD, 0)],
                   'reqs': [[[], [TA, TB, TP]], [A, [TD]], [[], [TM]], [C, []], [A, [TM]]]})
        # K29a (text, excluded from the oracle, compared with the model) and the D29c witnesses: a skipped
        # B/P/M file that starts with A5 / is empty must not disturb the search
        fake = list(b'B       ') + [0] + [0] * 6
        cs.append({'fmt': 'cas', 'raw': 0, 'files': [F(A, TD, 164 - len(fake), pre=fake), F(B, TD, 5, post=[13])],
                   'reqs': [[B, [TD]], [B, [TD]]]})
        cs.append({'fmt': 'cas', 'raw': 0, 'files': [F(A, TD, 164, 113, 0), F(B, TD, 5)], 'reqs': [[B, [TD]]]})
        cs.append({'fmt': 'cas', 'raw': 0, 'files': [F(A, TM, 30, pre=[MAGIC] + fake), F(B, TD, 5)],
                   'reqs': [[B, []], [B, []]]})
        cs.append({'fmt': 'cas', 'raw': 0, 'files': [F(A, TM, 0, seg=1, off=2), F(B, TD, 5)],
                   'reqs': [[A, [TM]], [B, []]]})
        cs.append({'fmt': 'cas', 'raw': 0, 'files': [F(A, TM, 0, seg=1, off=2), F(B, TD, 5)], 'reqs': [[B, []]]})
        # bit level: image bytes and the repo's bit reader against model/CassetteBits.v
        cs.append({'fmt': 'cas', 'raw': 0, 'bits': 1, 'files': [], 'reqs': []})
        cs.append({'fmt': 'cas', 'raw': 0, 'bits': 1,
                   'files': [F(A, TD, 254, 9, 7), F(B, TM, 513, 0, 255, seg=1, off=2), F(C, TP, 0), F(A, TA, 0)],
                   'reqs': [[C, []]]})
        # malformed
        cs.append({'fmt': 'cas', 'raw': 0, 'files': [F([65, 1], TD, 3), F(B, TM, 3, seg=70000), F(C, TD, 3)],
                   'reqs': [[[7], []], [C, []]]})
        cs.append({'fmt': 'cas', 'raw': 0, 'files': [], 'reqs': [[A, []], [[], []]]})
        return cs

    NAMES = [b'A', b'B', b'DATA', b'PROG', b'A ', b'A   ', b'a', b'EIGHTCHR', b'EIGHTCHR9', b'EIGHTCHRX',
             b'NAME.BAS', b'X Y', b' ', b'\xff\x80', b'LONGERNAME']

    def rand_len(self, rng, t):
        r = rng.random()
        if t in TEXT:
            if r < 0.45:
                k = rng.choice([1, 1, 2, 3])
                return max(0, k * 255 + rng.choice([-3, -2, -1, -1, 0, 1, 2]))
            if r < 0.55:
                return rng.choice([0, 1, 2, 163, 164, 165, 256, 419, 674])
            if r < 0.8:
                return rng.randrange(0, 40)
            return rng.randrange(0, 3 * 255 + 3)
        if r < 0.4:
            return max(0, rng.choice([1, 2, 3]) * 256 + rng.choice([-2, -1, 0, 1, 2]))
        if r < 0.5:
            return rng.choice([1, 2, 254, 255, 0])
        if r < 0.8:
            return rng.randrange(1, 40)
        return rng.randrange(1, 3 * 256 + 3)

    def gen_cases(self, n):
        rng = self.rng
        hist = {'files': 0, 'text_254mod255': 0, 'text_boundary': 0, 'binary': 0, 'requests': 0,
                'req_missing': 0, 'req_typed': 0, 'malformed': 0, 'wav': 0, 'fake_header_class': 0, 'bit_level': 0, 'plan_straddles': 0}
        out = []
        n_wav = 150 if self.tier == 'thorough' else 12
        for i in range(n):
            wav = i < n_wav
            raw = int(rng.random() < 0.3)
            files = []
            nf = rng.choice([1, 2, 2, 3, 3, 4]) if not wav else rng.choice([1, 2, 3])
            for _ in range(nf):
                t = rng.choice([TD, TD, TA, TA, TB, TP, TM])
                L = self.rand_len(rng, t)
                if wav:
                    L = L if L < 600 else L % 600
                    if t not in TEXT:
                        L = max(L, 1)     # empty records are modelled for CAS images only (K29b)
                name = list(rng.choice(self.NAMES))
                pre, post = [], []
                r = rng.random()
                if r < 0.06:
                    pre = [MAGIC] + list(rng.choice(self.NAMES).ljust(8)[:8]) + [rng.choice([0, 1, 64, 128, 7])]
                elif r < 0.12 and L > 0:
                    post = [13]
                L2 = max(0, L - len(pre) - len(post))
                cuts = []
                left = len(pre) + L2 + len(post)
                for _ in range(rng.choice([0, 0, 1, 2, 3])):
                    c = rng.choice([0, 1, 254, 255, 256, rng.randrange(0, 300)])
                    c = min(c, left)
                    cuts.append(c)
                    left -= c
                seg, off = rng.choice([0, 1, 255, 256, 4660, 65535]), rng.choice([0, 1, 0x1234, 65535])
                f = self.F(name, t, L2, rng.randrange(256), rng.randrange(256), seg, off, pre, post, cuts)
                r = rng.random()
                if r < 0.02:
                    f['name'] = f['name'] + [rng.randrange(0, 32)]
                    hist['malformed'] += 1
                elif r < 0.04 and t not in TEXT:
                    f['seg'] = rng.choice([65536, -1, 70000])
                    hist['malformed'] += 1
                files.append(f)
                hist['files'] += 1
                total = len(pre) + L2 + len(post)
                if t in TEXT:
                    hist['text_254mod255'] += int(total % 255 == 254)
                    hist['text_boundary'] += int(total % 255 in (253, 254, 0, 1))
                    hist['fake_header_class'] += int(total % 255 == 164)
                else:
                    hist['binary'] += 1
                    hist['fake_header_class'] += int(total == 0 or (pre[:1] == [MAGIC]))
            reqs = []
            order = list(range(nf))
            rng.shuffle(order)
            if rng.random() < 0.5:
                order.sort()
            for j in order + [rng.randrange(nf) for _ in range(rng.choice([0, 0, 1, 2]))]:
                f = files[j]
                r = rng.random()
                name = list(f['name'])
                types = []
                if r < 0.12:
                    name = list(rng.choice(self.NAMES))
                    hist['req_missing'] += 1
                elif r < 0.2:
                    name = []
                if rng.random() < 0.4:
                    types = rng.choice([[f['t']], [TA, TB, TP], [TD], [TM], [f['t'], TD]])
                    hist['req_typed'] += 1
                reqs.append([name, types])
                hist['requests'] += 1
            if wav:
                reqs = reqs[:3]
                hist['wav'] += 1
            r = rng.random()
            if r < 0.25:
                plan = [rng.choice([2, 3, 7, 50, 64, 100, 128, 200, 254])]
            elif r < 0.4:
                plan = [rng.choice([1, 255])]
            elif r < 0.75:
                plan = [rng.randrange(1, 256) for _ in range(rng.choice([1, 2, 3, 5]))]
            else:
                plan = [rng.choice([1, 2, 100, 253, 254, 255]) for _ in range(rng.choice([2, 3, 4]))]
            case = {'fmt': 'wav' if wav else 'cas', 'raw': raw, 'files': files, 'reqs': reqs, 'plan': plan}
            hist['plan_straddles'] += int(any(f['t'] in TEXT and len(f['pre']) + f['n'] + len(f['post']) > 255
                                              for f in files) and any(255 % n for n in plan))
            if not wav and rng.random() < 0.2:
                case['bits'] = 1
                hist['bit_level'] += 1
            out.append(case)
        self.histogram = hist
        return out

    # ---- helpers
    @staticmethod
    def content(case, f):
        noeof = f['t'] in TEXT and not case['raw']
        return f['pre'] + pat(noeof, f['a'], f['b'], f['n']) + f['post']

    @staticmethod
    def plan(case):
        """Sizes of the bounded reads used to read text/data files back (INPUT$ allows 1..255)."""
        return [max(1, int(n)) for n in (case.get('plan') or [100])]

    @staticmethod
    def pieces(data, cuts):
        out = []
        for c in cuts:
            out.append(data[:c])
            data = data[c:]
        out.append(data)
        return out

    # ---- implementation
    def _run(self, case):
        import importlib
        cassette = importlib.import_module('pcbasic.basic.devices.cassette')
        d = common.tmpdir('c29')
        res = {'codes': [], 'reads': [], 'structure': None}
        try:
            wav = case['fmt'] == 'wav'
            path = os.path.join(d, 't.wav' if wav else 't.cas')
            spec = ('WAV:' if wav else 'CAS:') + path
            with core.time_limit(600 if wav else 120):
                dev = cassette.CASDevice(spec, Console())
                for f in case['files']:
                    data = self.content(case, f)
                    try:
                        fo = dev.open(0, bytes(f['name']), bytes([f['t']]), b'O', b'', b'', 128,
                                      f['seg'], f['off'], len(data), None)
                        for p in self.pieces(data, f['cuts']):
                            fo.write(bytes(p))
                        fo.close()
                        res['codes'].append([0])
                    except Exception as e:
                        res['codes'].append(common.canon_exc(e))
                dev.close()
                if not wav:
                    res['structure'] = parse_cas(path)
                    if case.get('bits'):
                        # the image file itself and what the repo's own bit reader returns record by record
                        res['image'] = list(open(path, 'rb').read())
                        stream = cassette.CassetteStream(cassette.CASBitStream(path, 'r'))
                        stream.record_num = 0
                        try:
                            res['bitread'] = [list(stream._read_record(256 * len(blocks)))
                                              for blocks in res['structure'][0]]
                        except cassette.EndOfTape:
                            res['bitread'] = [1, 24]
                        except cassette.CassetteIOError:
                            res['bitread'] = [1, 57]
                        stream.close_tape()
                con = Console()
                dev = cassette.CASDevice(spec, con)
                for name, types in case['reqs']:
                    n0 = len(con.lines)
                    try:
                        fo = dev.open(0, bytes(name), bytes(types), b'I', b'', b'', 128, 0, 0, 0, None)
                        try:
                            if isinstance(fo, cassette.CASTextFile):
                                # INPUT$(n, #f) is `file.read(n)`: bounded reads of the sizes of the plan, cyclically,
                                # until one returns nothing; the length of every answer is recorded
                                data = b''
                                lens = []
                                plan = self.plan(case)
                                while True:
                                    n = plan[len(lens) % len(plan)]
                                    c = fo._fhandle.read(n) if case['raw'] else fo.read(n)
                                    lens.append(len(c))
                                    if not c:
                                        break
                                    data += c
                                r = {'ok': 1, 't': fo.filetype[0] if fo.filetype else 0, 'bin': 0,
                                     'seg': 0, 'off': 0, 'len': 0, 'data': list(data), 'lens': lens}
                            else:
                                data = fo.read()
                                r = {'ok': 1, 't': fo.filetype[0] if fo.filetype else 0, 'bin': 1,
                                     'seg': fo.seg, 'off': fo.offset, 'len': fo.length, 'data': list(data)}
                        finally:
                            # as `with files.open(...) as f:` in LOAD/BLOAD does
                            fo.close()
                    except Exception as e:
                        r = {'ok': 0, 'err': common.canon_exc(e)}
                    r['msgs'] = con.lines[n0:]
                    res['reads'].append(r)
                dev.close()
        finally:
            common.rmtree(d)
        return res

    def _cached(self, case):
        cache = self.__dict__.setdefault('_runs', {})
        key = core.sha(case)
        if key not in cache:
            if len(cache) > 64:
                cache.clear()
            cache[key] = self._run(case)
        return cache[key]

    @staticmethod
    def enc_msgs(msgs):
        out = []
        for m in msgs:
            # b'%s.%s Found.' % (trunk, filetype): 8 name bytes, '.', type (possibly empty), ' Found.'/' Skipped.'
            kind = 1 if m.endswith(b' Found.') else 2
            body = m[:-len(b' Found.')] if kind == 1 else m[:-len(b' Skipped.')]
            trunk, t = body[:8], body[9:]
            out += [kind] + list(trunk) + [t[0] if t else 0]
        return [len(out)] + out

    def impl(self, case):
        res = self._cached(case)
        out = []
        for c in res['codes']:
            out += c
        if res['structure'] is not None:
            records, crc_ok = res['structure']
            if not crc_ok:
                out.append(-1)
            out.append(len(records))
            for blocks in records:
                flat = [b for blk in blocks for b in blk]
                out += [len(blocks)] + digest(flat)
        for r in res['reads']:
            if r['ok']:
                out += [0, r['t'], r['seg'], r['off'], r['len']] + digest(r['data'])
                if 'lens' in r:
                    out += digest(r['lens'])
            else:
                out += r['err']
            out += self.enc_msgs(r['msgs'])
        if 'image' in res:
            out += digest(res['image'])
            br = res['bitread']
            if br[:1] == [1] and len(br) == 2 and not isinstance(br[1], list):
                out += br
            else:
                out += [0, len(br)]
                for flat in br:
                    out += [len(flat) // 256] + digest(flat)
        return out

    # ---- model
    def model_term(self, case):
        fs = []
        for f in case['files']:
            noeof = 'true' if (f['t'] in TEXT and not case['raw']) else 'false'
            content = '(%s ++ pat %s %d %d %d%%nat ++ %s)' % (core.zl(f['pre']), noeof, f['a'], f['b'], f['n'],
                                                             core.zl(f['post']))
            cuts = '[' + ';'.join('%d%%nat' % c for c in f['cuts']) + ']'
            fs.append('{| wf_name := %s; wf_type := %d; wf_seg := %s; wf_off := %s; wf_chunks := cut %s %s |}' % (
                core.zl(f['name']), f['t'], core.zl([f['seg']])[1:-1], core.zl([f['off']])[1:-1], content, cuts))
        reqs = ['(%s, %s)' % (core.zl(n), core.zl(t)) for n, t in case['reqs']]
        plan = '[' + ';'.join('%d%%nat' % n for n in self.plan(case)) + ']'
        term = '(run_case %s [%s] [%s] %s)' % ('true' if case['fmt'] == 'cas' else 'false',
                                                '; '.join(fs), '; '.join(reqs), plan)
        if case.get('bits') and case['fmt'] == 'cas':
            term = '(%s ++ bits_case [%s])' % (term, '; '.join(fs))
        return term

    def nontrivial(self, case, out):
        return any(r['ok'] for r in self._cached(case)['reads'])

    # ---- property oracle (no Coq model involved)
    @staticmethod
    def in_excluded_class(t, data):
        """Files the reader cannot pass over reliably (known finding K29a): text/data files whose last
        count byte is A5; the scan for the next header takes that record for a header."""
        return t in TEXT and len(data) % 255 == 164

    def oracle(self, case, out):
        res = self._cached(case)
        tape = []
        poisoned = False
        for f, code in zip(case['files'], res['codes']):
            bad_name = any(c < 32 for c in f['name'])
            bad_num = f['t'] not in TEXT and not (0 <= f['seg'] < 65536 and 0 <= f['off'] < 65536)
            if bad_num and not bad_name:
                poisoned = True       # CassetteStream.last keeps the bad address for later A/D headers
            elif not bad_name and f['t'] not in TEXT:
                poisoned = False
            if code != [0]:
                if bad_name or bad_num or (poisoned and f['t'] in TEXT and code == [2, 7]):
                    continue
                return 'writing file %r failed with %r' % (bytes(f['name']), code)
            if bad_name or bad_num:
                return 'writing file %r with an invalid name or address succeeded' % bytes(f['name'])
            data = self.content(case, f)
            tape.append({'name8': bytes(f['name'])[:8].ljust(8), 't': f['t'], 'data': data,
                         'seg': f['seg'], 'off': f['off']})
        if res['structure'] is not None and not res['structure'][1]:
            return 'image contains a block whose CRC does not match'
        pos = 0
        for (name, types), r in zip(case['reqs'], res['reads']):
            if any(c < 32 for c in name):
                if r['ok'] or r['err'] != [1, 52]:
                    return 'control character in requested name not rejected'
                continue
            want = bytes(name)[:8].rstrip(b' ')
            found = None
            skipped = []
            for j in range(pos, len(tape)):
                g = tape[j]
                if (not name or g['name8'].rstrip(b' ') == want) and (not types or g['t'] in types):
                    found = j
                    break
                skipped.append(j)
            if any(self.in_excluded_class(tape[j]['t'], tape[j]['data']) for j in skipped):
                return None       # outside the statement (known findings); still compared with the model
            exp_msgs = [tape[j]['name8'] + b'.' + bytes([tape[j]['t']]) + b' Skipped.' for j in skipped]
            what = 'request %r types %r at file index %d' % (bytes(name), bytes(types), pos)
            if found is None:
                if r['ok']:
                    return '%s: no such file ahead on the tape, but a file was returned' % what
                if r['err'] != [1, 24]:
                    return '%s: expected Device Timeout, got %r' % (what, r['err'])
                if r['msgs'] != exp_msgs:
                    return '%s: Skipped messages %r, expected %r' % (what, r['msgs'], exp_msgs)
                pos = 0
                continue
            g = tape[found]
            exp_msgs.append(g['name8'] + b'.' + bytes([g['t']]) + b' Found.')
            if not r['ok']:
                return '%s: file %r.%s is on the tape but open gave %r' % (what, g['name8'], chr(g['t']), r['err'])
            if r['t'] != g['t']:
                return '%s: type %r, expected %r' % (what, r['t'], g['t'])
            if r['data'] != g['data']:
                return '%s: contents differ: read %d bytes, written %d (first difference at %d)' % (
                    what, len(r['data']), len(g['data']),
                    next((i for i, (x, y) in enumerate(zip(r['data'], g['data'])) if x != y),
                         min(len(r['data']), len(g['data']))))
            if 'lens' in r:
                # a bounded read returns fewer bytes than asked for only at the end of the file
                plan = self.plan(case)
                left = len(g['data'])
                for i, got in enumerate(r['lens']):
                    n = plan[i % len(plan)]
                    if got != min(n, left):
                        return ('%s: read(%d) (INPUT$) at offset %d returned %d bytes although %d remain: '
                                'Input past end in the middle of the file'
                                % (what, n, len(g['data']) - left, got, left))
                    left -= got
            if g['t'] not in TEXT and (r['seg'], r['off'], r['len']) != (g['seg'], g['off'], len(g['data'])):
                return '%s: seg/offset/length %r, expected %r' % (
                    what, (r['seg'], r['off'], r['len']), (g['seg'], g['off'], len(g['data'])))
            if r['msgs'] != exp_msgs:
                return '%s: messages %r, expected %r' % (what, r['msgs'], exp_msgs)
            pos = found + 1
        return None

    def shrink_candidates(self, case):
        for c in core.Check.shrink_candidates(self, case):
            yield c
        for i, f in enumerate(case['files']):
            for n2 in (f['n'] % 255, f['n'] - 255, f['n'] // 2):
                if 0 <= n2 < f['n']:
                    c = dict(case)
                    c['files'] = [dict(g) for g in case['files']]
                    c['files'][i]['n'] = n2
                    c['files'][i]['cuts'] = []
                    yield c

    # ---- known finding K29a (a text file whose last count byte is A5 looks like a header to the scan)
    def known_match(self, finding, case, out):
        return False      # the excluded class never reaches the violation list (oracle returns None)

    def known_rerun(self, finding):
        F = self.F
        if finding.get('id') == 'K29a':
            fake = list(b'B       ') + [0] + [0] * 6
            case = {'fmt': 'cas', 'raw': 0, 'files': [F([65], TD, 164 - len(fake), pre=fake), F([66], TD, 5)],
                    'reqs': [[[66], []]]}
            r = self._run(case)['reads'][0]
            return bool(r['ok']) and r['data'] != self.content(case, case['files'][1])
        return False


CHECK = C29
