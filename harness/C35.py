"""C35 - The displayed picture always equals the emulator's screen state.

A real Session gets a fake interface whose video queue records every signal.  Class-level wrappers (installed
in this process only; nothing in /repo is edited) record
  I  the calls that enter VideoBuffer / Display from the rest of the interpreter (the model's `op`s), and
  O  what the display code then does to page pixel matrices and to the video queue (the model's events).
A Python reference consumer (the semantics of interface/video_sdl2.py's handlers) is applied to every signal.
After every BASIC statement of a random history:
  oracle          consumer canvas == Session.get_pixels(), consumer text == Session.get_chars(unicode)
  correspondence  model (theories/model/Signals.v) run on I  ==  O  (+ visible page, lock/dirty state)
"""
import queue
import contextlib

from vlib import core
from harness import common

# ---------------------------------------------------------------------------------------------------------
# recording

_REC = None          # the active recorder (one Session at a time)
_INSTALLED = False

# op codes (must match Signals.v dec_op)
I_PIXSET, I_UPDATE, I_LOCK, I_UNLOCK, I_CLEAR, I_SCRUP, I_SCRDN, I_COPY, I_SETPAGE, I_SETMODE, I_REBUILD = range(1, 12)
# event codes (must match Signals.v enc_event)
E_WRITE, E_MOVE, E_SIG, E_DRAW, E_BAD = 1, 2, 3, 4, 9
S_UPDATE, S_CLEAR, S_SCROLL, S_SETMODE = 1, 2, 3, 4


class RecQueue(object):
    """Video queue that records (never blocks, reports itself empty so that the interpreter never waits)."""

    def __init__(self, rec=None):
        self.rec = rec

    def qsize(self):
        return 0

    def empty(self):
        return True

    def full(self):
        return False

    def put(self, item, block=False, timeout=False):
        if self.rec is not None:
            self.rec.signal(item)

    put_nowait = put

    def get(self, block=False, timeout=False):
        raise queue.Empty

    def task_done(self):
        pass

    def join(self):
        pass


class FakeInterface(object):
    def __init__(self, rec):
        self.inputs = queue.Queue()
        self.video = RecQueue(rec)
        self.audio = RecQueue(None)

    def get_queues(self):
        return self.inputs, self.video, self.audio


class Recorder(object):
    def __init__(self):
        self.started = False
        self.pages = []        # VideoBuffer objects of the current mode, in page order
        self.batch = []        # VideoBuffers created since the last mode switch completed
        self.ops = []          # I: [code, args..., widen-list]
        self.events = []       # O: flat list of lists
        self.signals = []      # signal Event objects not yet consumed
        self.active = 0        # inside a wrapped op
        self.in_move = 0
        self.draw_rect = None  # (page, y0, y1, x0, x1) while inside _draw_text
        self.problems = []     # monitored assumptions that failed
        self.in_setmode = 0
        self.fs_depth = 0

    # -- helpers
    def pidx(self, vb):
        for i, p in enumerate(self.pages):
            if p is vb:
                return i
        for i, p in enumerate(self.batch):
            if p is vb:
                return 100 + i   # page of a mode being set up, before SET_MODE: never expected
        return -1

    def pidx_pixels(self, bm):
        for i, p in enumerate(self.pages):
            if p._pixels is bm:
                return i
        return -1

    def op(self, code, *args):
        if self.started:
            self.ops.append([code] + list(args) + [[]])

    def widen(self, row, start, stop):
        if self.started and self.ops:
            self.ops[-1][-1].append((row, start, stop))

    def event(self, *ev):
        if self.started:
            self.events.append(list(ev))

    def signal(self, ev):
        from pcbasic.basic.base import signals as sg
        t, p = ev.event_type, ev.params
        if t == sg.VIDEO_SET_MODE:
            if self.in_setmode and self.batch:
                self.pages, self.batch = self.batch, []
                vb = self.pages[0]
                self.op(I_SETMODE, p[0], p[1], p[2], p[3], vb._font.width, vb._font.height, len(self.pages))
            self.event(E_SIG, S_SETMODE, p[0], p[1], p[2], p[3])
        elif t == sg.VIDEO_UPDATE:
            self.event(E_SIG, S_UPDATE, p[4], p[5], p[6].height, p[6].width,
                       p[0], p[1], len(p[2]), len(p[2][0]) if p[2] else 0)
            if [len(r) for r in p[2]] != [len(r) for r in p[3]]:
                self.problems.append('update signal: text and attribute matrices differ in shape')
        elif t == sg.VIDEO_CLEAR_ROWS:
            self.event(E_SIG, S_CLEAR, p[0], p[1], p[2])
        elif t == sg.VIDEO_SCROLL:
            self.event(E_SIG, S_SCROLL, p[0], p[1], p[2], p[3])
        else:
            return
        if self.started:
            self.signals.append(ev)


def _norm(idx, size):
    """(start, stop) of an int or slice index, unclipped (None -> matrix edge)."""
    if isinstance(idx, slice):
        if idx.step not in (None, 1):
            return None
        a = 0 if idx.start is None else idx.start
        b = size if idx.stop is None else idx.stop
        return a, b
    return idx, idx + 1


def install():
    """Wrap the entry points of display/buffers.py, display/display.py and the page pixel matrices."""
    global _INSTALLED
    if _INSTALLED:
        return
    _INSTALLED = True
    from pcbasic.basic.display import buffers, display
    from pcbasic.basic.base import bytematrix
    VB, PA, BM, DP = buffers.VideoBuffer, buffers._PixelAccess, bytematrix.ByteMatrix, display.Display

    # ---- pages
    o_init = VB.__init__

    def vb_init(self, *a, **k):
        o_init(self, *a, **k)
        if _REC is not None:
            _REC.batch.append(self)
    VB.__init__ = vb_init

    o_setmode = DP._set_mode

    def dp_set_mode(self, *a, **k):
        r = _REC
        if r is None:
            return o_setmode(self, *a, **k)
        r.in_setmode += 1
        n_ev = len(r.events)
        try:
            return o_setmode(self, *a, **k)
        finally:
            r.in_setmode -= 1
            if r.batch:
                # no SET_MODE signal seen (null queue before the interface is attached)
                if r.started:
                    r.problems.append('mode switch without SET_MODE signal')
                r.pages, r.batch = r.batch, []
    DP._set_mode = dp_set_mode

    o_setpage = DP.set_page

    def dp_set_page(self, new_vpagenum, new_apagenum):
        res = o_setpage(self, new_vpagenum, new_apagenum)
        if _REC is not None:
            _REC.op(I_SETPAGE, self.vpagenum)
        return res
    DP.set_page = dp_set_page

    o_rebuild = DP.rebuild

    def dp_rebuild(self):
        if _REC is not None:
            _REC.op(I_REBUILD)
        return o_rebuild(self)
    DP.rebuild = dp_rebuild

    # ---- ops on a page
    def wrap_op(name, code, argf):
        orig = getattr(VB, name)

        def w(self, *a, **k):
            r = _REC
            if r is None:
                return orig(self, *a, **k)
            r.op(code, r.pidx(self), *argf(self, *a, **k))
            r.active += 1
            try:
                return orig(self, *a, **k)
            finally:
                r.active -= 1
        w.__name__ = name
        setattr(VB, name, w)

    def back_of(self, attr):
        return self._colourmap.split_attr(attr)[1]

    wrap_op('_update', I_UPDATE, lambda self, row, start, stop: (row, start, stop))
    wrap_op('clear_rows', I_CLEAR, lambda self, start, stop, attr: (start, stop, back_of(self, attr)))
    wrap_op('scroll_up', I_SCRUP, lambda self, from_row, to_row, attr: (from_row, to_row, back_of(self, attr)))
    wrap_op('scroll_down', I_SCRDN, lambda self, from_row, to_row, attr: (from_row, to_row, back_of(self, attr)))

    o_copy = VB.copy_from

    def vb_copy_from(self, src):
        r = _REC
        if r is None:
            return o_copy(self, src)
        r.op(I_COPY, r.pidx(self), r.pidx(src))
        r.active += 1
        try:
            return o_copy(self, src)
        finally:
            r.active -= 1
    VB.copy_from = vb_copy_from

    o_collect = VB.collect_updates

    @contextlib.contextmanager
    def vb_collect_updates(self):
        r = _REC
        if r is not None and not self._locked:
            r.op(I_LOCK, r.pidx(self))
        with o_collect(self):
            yield
    VB.collect_updates = vb_collect_updates

    o_force = VB.force_submit

    def vb_force_submit(self):
        r = _REC
        if r is None:
            return o_force(self)
        if not r.active:
            # only the exit of the outermost collect_updates() calls force_submit() outside an op
            r.op(I_UNLOCK, r.pidx(self))
        r.active += 1
        r.fs_depth += 1
        try:
            return o_force(self)
        finally:
            r.fs_depth -= 1
            r.active -= 1
    VB.force_submit = vb_force_submit

    o_refresh = VB._refresh_dbcs

    def vb_refresh_dbcs(self, row, orig_start, orig_stop):
        r = _REC
        before = list(self._dbcs_text[row - 1]) if r is not None else None
        res = o_refresh(self, row, orig_start, orig_stop)
        if r is not None and r.fs_depth:
            r.widen(row, res[0], res[1])
            # modelled assumption: the unicode cells the refresh changes lie inside the range it returns
            after = self._dbcs_text[row - 1]
            if len(after) != len(before) or any(
                    a != b for i, (a, b) in enumerate(zip(before, after)) if not res[0] <= i + 1 <= res[1]):
                r.problems.append('_refresh_dbcs changed cells outside the range it returned (row %d)' % row)
        return res
    VB._refresh_dbcs = vb_refresh_dbcs

    o_draw = VB._draw_text

    def vb_draw_text(self, top, left, bottom, right):
        r = _REC
        if r is None:
            return o_draw(self, top, left, bottom, right)
        p = r.pidx(self)
        r.event(E_DRAW, p, top, left, right)
        if top != bottom:
            r.problems.append('_draw_text over several rows')
        x0, y0, x1, y1 = self.text_to_pixel_area(top, left, bottom, right)
        save, r.draw_rect = r.draw_rect, (p, y0, y1 + 1, x0, x1 + 1)
        try:
            return o_draw(self, top, left, bottom, right)
        finally:
            r.draw_rect = save
    VB._draw_text = vb_draw_text

    # ---- pixel access from graphics / memory
    o_pa_set = PA.__setitem__

    def pa_setitem(self, index, data):
        r = _REC
        if r is None:
            return o_pa_set(self, index, data)
        vb = self._video_buffer
        ys = _norm(index[0], self._pixels.height)
        xs = _norm(index[1], self._pixels.width)
        if ys is None or xs is None:
            r.problems.append('pixel access with a stepped slice')
            ys, xs = ys or (0, 0), xs or (0, 0)
        r.op(I_PIXSET, r.pidx(vb), ys[0], ys[1], xs[0], xs[1], data if isinstance(data, int) else -1)
        if self._pixels is not vb._pixels:
            r.problems.append('_PixelAccess wraps a stale pixel matrix')
        if vb._dbcs_enabled:
            r.problems.append('pixel write on a page with DBCS text enabled (modelled: blank cells, no row refresh)')
        r.active += 1
        try:
            return o_pa_set(self, index, data)
        finally:
            r.active -= 1
    PA.__setitem__ = pa_setitem

    # ---- the page pixel matrices themselves
    o_bm_set = BM.__setitem__

    def bm_setitem(self, index, value):
        r = _REC
        if r is not None and r.started and not r.in_move:
            p = r.pidx_pixels(self)
            if p >= 0:
                ys = _norm(index[0], self._height)
                xs = _norm(index[1], self._width)
                if ys is None or xs is None:
                    r.problems.append('stepped slice write on a page')
                elif r.draw_rect is not None:
                    dp, y0, y1, x0, x1 = r.draw_rect
                    h = value.height if isinstance(value, BM) else ys[1] - ys[0]
                    w = value.width if isinstance(value, BM) else xs[1] - xs[0]
                    if not (dp == p and y0 <= ys[0] and ys[0] + h <= y1 and x0 <= xs[0] and xs[0] + w <= x1
                            and ys[1] - ys[0] == h and xs[1] - xs[0] == w):
                        r.problems.append('text drawing wrote outside its cell rectangle: page %d rows %d:%d '
                                          'cols %d:%d sprite %dx%d, cells %r' % (p, ys[0], ys[1], xs[0], xs[1], h, w,
                                                                                 r.draw_rect))
                else:
                    if isinstance(value, BM) and (value.height != ys[1] - ys[0] or value.width != xs[1] - xs[0]):
                        # zip truncation / bytearray resize: outside the modelled envelope unless clipped rows
                        if value.width != xs[1] - xs[0] or value.height < min(ys[1], self._height) - ys[0]:
                            r.problems.append('matrix write with mismatching shape')
                    r.event(E_WRITE, p, ys[0], ys[1], xs[0], xs[1], value if isinstance(value, int) else -1)
        return o_bm_set(self, index, value)
    BM.__setitem__ = bm_setitem

    o_bm_move = BM.move

    def bm_move(self, sy0, sy1, sx0, sx1, ty0, tx0):
        r = _REC
        if r is None or not r.started:
            return o_bm_move(self, sy0, sy1, sx0, sx1, ty0, tx0)
        p = r.pidx_pixels(self)
        if p >= 0:
            r.event(E_MOVE, p, sy0, sy1, sx0, sx1, ty0, tx0)
        r.in_move += 1
        try:
            return o_bm_move(self, sy0, sy1, sx0, sx1, ty0, tx0)
        finally:
            r.in_move -= 1
    BM.move = bm_move


# ---------------------------------------------------------------------------------------------------------
# reference consumer: what interface/video_sdl2.py does with the signals, on a list of bytearrays

class Consumer(object):
    def __init__(self):
        self.px = None
        self.text = None
        self.mode_set = False

    def apply(self, ev):
        f = getattr(self, 'h_' + ev.event_type, None)
        if f is not None:
            f(*ev.params)

    def h_set_mode(self, canvas_height, canvas_width, text_height, text_width):
        self.fh = -(-canvas_height // text_height)
        self.fw = canvas_width // text_width
        self.h, self.w = canvas_height, canvas_width
        # SDL_CreateRGBSurface gives zeroed pixels
        self.px = [bytearray(canvas_width) for _ in range(canvas_height)]
        self.text = [[u' '] * text_width for _ in range(text_height)]
        self.mode_set = True

    def h_clear_rows(self, back_attr, start, stop):
        for row in self.px[(start - 1) * self.fh: stop * self.fh]:
            row[0:self.w] = bytearray([back_attr]) * len(row[0:self.w])
        for r in range(start - 1, stop):
            self.text[r] = [u' '] * len(self.text[r])

    def h_scroll(self, direction, from_line, scroll_height, back_attr):
        fh, px = self.fh, self.px
        hi_y0, hi_y1 = (from_line - 1) * fh, (scroll_height - 1) * fh
        lo_y0, lo_y1 = from_line * fh, scroll_height * fh
        blank = [u' '] * len(self.text[0])
        if direction == -1:
            src = [bytearray(r) for r in px[lo_y0:lo_y1]]
            for d, s in zip(px[hi_y0:hi_y1], src):
                d[:] = s
            for d in px[hi_y1:lo_y1]:
                d[:] = bytearray([back_attr]) * len(d)
            # text: rows from+1..to move up one, row `to` is blanked (same bands as the pixels)
            for r in range(from_line, scroll_height):
                self.text[r - 1] = self.text[r]
            if 1 <= scroll_height <= len(self.text):
                self.text[scroll_height - 1] = list(blank)
        else:
            src = [bytearray(r) for r in px[hi_y0:hi_y1]]
            for d, s in zip(px[lo_y0:lo_y1], src):
                d[:] = s
            for d in px[hi_y0:lo_y0]:
                d[:] = bytearray([back_attr]) * len(d)
            # text: rows from..to-1 move down one, row `from` is blanked
            for r in range(scroll_height, from_line, -1):
                self.text[r - 1] = self.text[r - 2]
            if 1 <= from_line <= len(self.text):
                self.text[from_line - 1] = list(blank)

    def h_update(self, row, col, unicode_matrix, attr_matrix, y0, x0, sprite):
        rows = [bytearray(r) for r in sprite.to_rows()] if sprite.height and sprite.width else []
        sh, sw = sprite.height, sprite.width
        if y0 + sh > self.h or x0 + sw > self.w:
            rows = [r[:self.w - x0] for r in rows[:self.h - y0]]
            sh, sw = len(rows), (len(rows[0]) if rows else 0)
        for d, s in zip(self.px[y0:y0 + sh], rows):
            if len(d[x0:x0 + sw]) != len(s):
                raise ValueError('memoryview assignment: lvalue and rvalue have different structures')
            d[x0:x0 + sw] = s
        for i, trow in enumerate(unicode_matrix):
            if 0 <= row - 1 + i < len(self.text):
                self.text[row - 1 + i][col - 1:col - 1 + len(trow)] = trow

    def rows(self):
        return tuple(tuple(r) for r in self.px)

    def chars(self):
        return tuple(tuple(r) for r in self.text)


# ---------------------------------------------------------------------------------------------------------
# running a history

ADAPTERS = ['cga', 'ega', 'vga', 'mda', 'hercules', 'tandy', 'pcjr', 'olivetti', 'ega_mono']


FONT_FAMILY = {'cga': 'cga', 'ega': 'vga', 'vga': 'vga', 'mda': 'mda', 'hercules': 'mda', 'tandy': 'tandy2',
               'pcjr': 'cga', 'olivetti': 'olivetti', 'ega_mono': 'vga', 'dbcs': 'default'}
_FONTS = {}


def session_kwargs(cfg):
    from pcbasic import data
    video = cfg.get('video', 'vga')
    kw = {}
    cpname = '936' if video == 'dbcs' else '437'
    if video == 'ega_mono':
        kw['video'], kw['monitor'] = 'ega', 'mono'
    elif video == 'dbcs':
        kw['video'] = 'vga'
    else:
        kw['video'] = video
    if (video, cpname) not in _FONTS:
        cp = data.read_codepage(cpname)
        _FONTS[video, cpname] = (cp, data.read_fonts(cp, [FONT_FAMILY[video], 'default']))
    kw['codepage'], kw['font'] = _FONTS[video, cpname]
    if cfg.get('width'):
        kw['text_width'] = cfg['width']
    return kw


def execute(s, st):
    """One history step: a BASIC command line, or `@name args` = a console editing call on the text screen."""
    if not st.startswith('@'):
        s.execute(st)
        return
    ts = s._impl.display.text_screen
    name, _, arg = st[1:].partition(' ')
    from pcbasic.basic.base import error
    try:
        if name == 'insert':
            ts.insert_fullchars(arg.encode('latin-1'))
        elif name == 'delete':
            ts.delete_fullchar()
        elif name == 'clearline':
            ts.clear_line(ts.current_row, ts.current_col)
        elif name == 'linefeed':
            ts.line_feed()
    except error.BASICError:
        pass


class Run(object):
    """Result of one history."""

    def __init__(self):
        self.fail = None        # oracle failure text
        self.init = None        # initial model state encoding
        self.ops = []
        self.events = []
        self.final = []
        self.problems = []
        self.nstmt = 0
        self.crash = None
        self.nresume = 0      # fresh displays attached
        self.nsplit = 0       # ... of which with active page != visible page


def run_history(case, limit=60):
    """Run the statements of a case in a real Session; return a Run."""
    global _REC
    install()
    res = Run()
    rec = Recorder()
    _REC = rec
    try:
        with core.time_limit(limit):
            _run(case, rec, res)
    finally:
        _REC = None
    res.ops, res.events, res.problems = rec.ops, rec.events, rec.problems
    return res


def _page_state(rec, disp):
    """[vis+1 or 0, npages, then per page: visible, locked, ndirty]"""
    out = []
    vis = [i for i, p in enumerate(rec.pages) if p._visible]
    out.append(len(rec.pages))
    out.append(disp.vpagenum + 1 if vis else 0)
    for p in rec.pages:
        out += [int(bool(p._visible)), int(bool(p._locked)), len(p._dirty_left)]
    return out


def _run(case, rec, res):
    s = common.new_session(**session_kwargs(case.get('cfg', {})))
    try:
        s.start()
        disp = s._impl.display
        if rec.pages is None or [p for p in rec.pages] != list(disp.pages):
            rec.pages = list(disp.pages)
        mode = disp.mode
        vb = disp.pages[0]
        res.init = [mode.pixel_height, mode.pixel_width, mode.height, mode.width, vb._font.width, vb._font.height,
                    len(disp.pages), disp.vpagenum]
        cons = Consumer()
        iface = FakeInterface(rec)
        rec.started = True
        s.attach(iface)

        def sync(tag):
            for ev in rec.signals:
                cons.apply(ev)
            del rec.signals[:]
            if not cons.mode_set:
                return 'no SET_MODE signal before %s' % tag
            a, b = cons.rows(), s.get_pixels()
            if a != b:
                if len(a) != len(b) or len(a[0]) != len(b[0]):
                    return 'after %s: canvas is %dx%d, emulator page %dx%d' % (
                        tag, len(a), len(a[0]), len(b), len(b[0]))
                ys = [y for y in range(len(b)) if a[y] != b[y]]
                y = ys[0]
                xs = [x for x in range(len(b[y])) if a[y][x] != b[y][x]]
                return ('after %s: %d pixel rows differ (first y=%d x=%d: display shows %d, emulator reports %d)'
                        % (tag, len(ys), y, xs[0], a[y][xs[0]], b[y][xs[0]]))
            ta, tb = cons.chars(), s.get_chars(as_type=type(u''))
            tb = tuple(tuple(c if c else u'' for c in r) for r in tb)
            if ta != tb:
                for r, (ra, rb) in enumerate(zip(ta, tb)):
                    if ra != rb:
                        c = [i for i in range(min(len(ra), len(rb))) if ra[i] != rb[i]]
                        return 'after %s: text row %d col %s differs: display %r, emulator %r' % (
                            tag, r + 1, c[:1], ra[c[0]] if c else len(ra), rb[c[0]] if c else len(rb))
                return 'after %s: text dimensions differ' % tag
            return None

        res.fail = sync('attach (rebuild)')

        def resume(tag):
            """The 'resumed session redraws' clause, judged on the implementation: a FRESH display (new interface,
            new reference consumer that has seen nothing) is attached the way Session.attach / a resumed session
            does (queues.set + display.rebuild()); the rebuild signals alone must give it the whole picture."""
            nonlocal cons
            cons = Consumer()
            s.attach(FakeInterface(rec))
            res.nresume += 1
            d = s._impl.display
            if d.apagenum != d.vpagenum:
                res.nsplit += 1
            return sync(tag)

        for st in case['stmts']:
            if res.fail:
                break
            mark = (len(rec.ops), len(rec.events))
            try:
                if st == '@resume':
                    res.nstmt += 1
                    res.fail = resume('statement %d: a fresh display attached (rebuild)' % res.nstmt)
                    continue
                execute(s, st)
            except Exception as e:
                # a host exception inside the interpreter ends the history (not this property's business);
                # the partial statement is dropped from the recording
                del rec.ops[mark[0]:]
                del rec.events[mark[1]:]
                del rec.signals[:]
                res.crash = '%s in %r' % (type(e).__name__, st)
                break
            res.nstmt += 1
            res.fail = sync('statement %d %r' % (res.nstmt, st))
        if not res.fail and not res.crash and case.get('resume'):
            res.fail = resume('the end of the history: a fresh display attached (rebuild)')
        res.final = None if res.crash else _page_state(rec, s._impl.display)
    finally:
        rec.started = False
        try:
            s.close()
        except Exception:
            pass


# ---------------------------------------------------------------------------------------------------------
# model terms

def _z(n):
    return '(%d)' % n if n < 0 else '%d' % n


def _ws(ws):
    return '[' + ';'.join('(%s,%s,%s)' % (_z(r), _z(a), _z(b)) for r, a, b in ws) + ']'


def op_term(o):
    code, args, ws = o[0], o[1:-1], o[-1]
    nat = lambda n: '%d%%nat' % n
    if code in (I_PIXSET, I_UPDATE, I_LOCK, I_UNLOCK, I_CLEAR, I_SCRUP, I_SCRDN, I_COPY, I_SETPAGE):
        if args[0] < 0 or args[0] >= 100 or (code == I_COPY and not 0 <= args[1] < 100):
            return None
    if code == I_PIXSET:
        return 'OPixSet %s %s zimg' % (nat(args[0]), ' '.join(_z(a) for a in args[1:]))
    if code == I_UPDATE:
        return 'OUpdate %s %s %s tblank zimg' % (nat(args[0]), ' '.join(_z(a) for a in args[1:]), _ws(ws))
    if code == I_LOCK:
        return 'OLock %s' % nat(args[0])
    if code == I_UNLOCK:
        return 'OUnlock %s %s tblank zimg' % (nat(args[0]), _ws(ws))
    if code in (I_CLEAR, I_SCRUP, I_SCRDN):
        name = {I_CLEAR: 'OClearRows', I_SCRUP: 'OScrollUp', I_SCRDN: 'OScrollDown'}[code]
        return '%s %s %s %s tblank zimg' % (name, nat(args[0]), ' '.join(_z(a) for a in args[1:]), _ws(ws))
    if code == I_COPY:
        return 'OCopyFrom %s %s' % (nat(args[0]), nat(args[1]))
    if code == I_SETPAGE:
        return 'OSetPage %s' % nat(args[0])
    if code == I_SETMODE:
        ph, pw, th, tw, fw, fh, n = args
        return 'OSetMode (mkCfg %d %d %d %d %d %d) %s' % (ph, pw, th, tw, fw, fh, nat(n))
    if code == I_REBUILD:
        return 'ORebuild'
    return None


def flatten_events(events):
    out = []
    for e in events:
        out += e
    return out


# ---------------------------------------------------------------------------------------------------------
# _refresh_dbcs range computation (model: refresh_range; theorem C35_refresh_range_covers)

_REFRESH_SESSIONS = {}


def run_refresh(case):
    """Put bytes into a text row of a real page, let the real _refresh_dbcs rebuild the unicode row; return
    (old cells, new cells, start, stop) with cells coded as ints."""
    cp = case['cp']
    if cp not in _REFRESH_SESSIONS:
        s = common.new_session(**session_kwargs({'video': 'dbcs' if cp == '936' else 'vga'}))
        s.start()
        _REFRESH_SESSIONS[cp] = s
    page = _REFRESH_SESSIONS[cp]._impl.display.pages[0]
    row = 3
    width = page._width
    base = (case['base'] * width)[:width]
    page._rows[row - 1].chars[:] = [bytes([b]) for b in base]
    page._refresh_dbcs(row, 1, width)
    old = list(page._dbcs_text[row - 1])
    for pos, b in case['edits']:
        page._rows[row - 1].chars[pos % width] = bytes([b])
    start, stop = page._refresh_dbcs(row, case['os'], case['oe'])
    new = list(page._dbcs_text[row - 1])
    codes = {}

    def code(c):
        return codes.setdefault(c, len(codes) + 1)
    return [code(c) for c in old], [code(c) for c in new], start, stop


class C35(core.Check):
    ID = 'C35'
    GEN = ['gen_signals']
    PROPS = 'props/C35.v'
    MODEL_IMPORTS = ['gen.Gen_signals', 'model.Signals']
    QUICK_CASES = 60
    THOROUGH_CASES = 1500
    TRUSTED = [
        'hand model model/Signals.v of VideoBuffer/_PixelAccess/Display page and signal handling (with '
        'fixes/D11.patch) and of the reference consumer (handlers of interface/video_sdl2.py), tied by '
        'correspondence: every call entering VideoBuffer/Display and every page-matrix write, move and video '
        'signal is recorded in a real Session and must equal the model trace; rectangle arithmetic of both '
        'sides and the mode table are regenerated (gen_signals), slice shapes of the SDL2 handlers are '
        'AST-checked (the SDL2 plugin itself cannot run here)',
        'abstracted, monitored at run time: text rendering writes only inside the pixel area of the cells it '
        'is asked to draw (harness flags any write outside); glyph/attribute/DBCS content is arbitrary in '
        'the theorems',
        '_refresh_dbcs changes unicode cells only inside the range it returns, and pixel writes happen only on '
        'pages without DBCS text (both monitored at run time)',
    ]
    PARTIAL = ('pixel layer and unicode character-cell layer proved (attributes of blank cells are not carried by '
               'clear_rows/scroll signals; cursor signals are outside get_pixels/get_chars). Envelope of the theorems '
               '(every recorded op is checked against it): discharged in Coq / by regenerated checks for the scroll-area '
               'and screen-height call sites (clear_view, clear, redraw_bar, scroll()) and for "no dirty row inside a '
               'cleared range" (state invariant + call-graph check that clear_rows is not reachable inside '
               'collect_updates()); still assumed: rows/columns derived from the cursor position (put_char_attr, '
               'insert/delete, clear_row_from, scroll(row), scroll_down(row+1): C36 cursor-in-screen), pixel '
               'rectangles from GraphicsViewPort/framebuffer (C30/C31 clipping), and the exact exclusion: a scroll '
               'through text row 25 of the 348-line Hercules mode (C35_scroll_exclusion_exact).')
    RULE = ('random histories (3-16 statements) of PRINT incl. wrap/scroll/control characters, CLS, COLOR, LOCATE, '
            'VIEW PRINT, SCREEN mode and page switches, WIDTH, KEY ON/OFF, PCOPY, PSET/LINE/CIRCLE/PUT/PAINT/VIEW, '
            'video-memory POKE, console insert/delete/clear-line, on all 9 adapters + a DBCS codepage, a third of them with '
            'active page != visible page, an eighth switching from high page numbers to a mode with fewer pages; at random points (`@resume`) and at the end a FRESH reference consumer is '
            'attached via Session.attach (rebuild) and must show the whole picture; after every '
            'statement the reference consumer applied to the recorded signals must equal get_pixels()/get_chars() '
            '(oracle) and the model trace must equal the recorded writes/moves/signals. non-trivial = at least one '
            'signal beyond the initial rebuild; distinct by hash')
    histogram = None

    # ---- cases
    def corpus(self):
        return [
            # D11: scroll with a non-zero background
            {'cfg': {'video': 'vga'}, 'stmts': ['COLOR 7,1:CLS', 'FOR I=1 TO 30:PRINT I:NEXT'], 'resume': 1},
            {'cfg': {'video': 'cga'}, 'stmts': ['SCREEN 1', 'COLOR 2,1', 'CLS', 'LOCATE 24,1', 'PRINT "a"',
                                                'PRINT "b"'], 'resume': 0},
            {'cfg': {'video': 'ega'}, 'stmts': ['COLOR 14,4', 'VIEW PRINT 5 TO 5', 'PRINT "x"', 'PRINT "y"'],
             'resume': 1},
            {'cfg': {'video': 'vga'}, 'stmts': ['COLOR 1,2:CLS', 'PRINT STRING$(70,"a");', '@insert ' + 'w' * 30,
                                                '@linefeed'], 'resume': 0},
            # D35a: PCOPY aliasing of the unicode rows
            {'cfg': {'video': 'ega'}, 'stmts': ['SCREEN 8,,2,1', 'LOCATE 1,41', 'PRINT -1.5', 'PCOPY 2,1', 'CLS 2'],
             'resume': 0},
            # boundaries: Hercules 348 lines, Tandy VIEW PRINT to 25, pages, width, resume
            {'cfg': {'video': 'hercules'}, 'stmts': ['SCREEN 3', 'CLS', 'LINE (0,340)-(40,347)', 'KEY ON',
                                                     'LOCATE 25,1:PRINT "x";', 'CLS'], 'resume': 1},
            {'cfg': {'video': 'tandy'}, 'stmts': ['KEY OFF', 'VIEW PRINT 1 TO 25', 'COLOR 3,2',
                                                  'FOR I=1 TO 27:PRINT I:NEXT', 'SCREEN 3', 'PRINT "hi"'], 'resume': 1},
            {'cfg': {'video': 'vga'}, 'stmts': ['SCREEN 9', 'LINE (10,10)-(50,20),3', 'PSET (5,5),2', 'LOCATE 24,1',
                                                'PRINT "abc"', 'PRINT "def"', 'SCREEN 0', 'WIDTH 40', 'KEY ON',
                                                'SCREEN ,,1,0', 'PRINT "hidden"', 'SCREEN ,,1,1', 'PCOPY 1,0',
                                                'SCREEN ,,0,0'], 'resume': 1},
            {'cfg': {'video': 'dbcs'}, 'stmts': ['PRINT STRING$(79,"a")+CHR$(&HB0)+CHR$(&HA1)',
                                                 'LOCATE 1,79:PRINT CHR$(&HB0);', 'PRINT CHR$(&HA1);"z"'],
             'resume': 1},
            {'cfg': {'video': 'mda'}, 'stmts': ['COLOR 1,0', 'PRINT "underline"', 'CLS', 'DEF SEG=&HB000:POKE 0,65',
                                                'POKE 1,&H70'], 'resume': 0},
            # line feed below the scroll area: textscreen asks for scroll_down(25, 24) (nothing moves, row 25 blanked)
            {'cfg': {'video': 'tandy'}, 'stmts': ['LOCATE 25,1', '@linefeed'], 'resume': 1},
            {'cfg': {'video': 'hercules', 'width': 40}, 'stmts': ['SCREEN 3', 'LINE (0,340)-(9,347)', 'LOCATE 25,2',
                                                                 '@linefeed'], 'resume': 1},
            # resume with active page != visible page (seeded C35b: rebuild resubmitting only the active page)
            {'cfg': {'video': 'vga'}, 'stmts': ['PRINT "abc"', 'SCREEN ,,1,0', '@resume', 'PRINT "hidden"', '@resume',
                                                'SCREEN ,,0,0'], 'resume': 1},
            {'cfg': {'video': 'ega'}, 'stmts': ['SCREEN 7', 'LINE (3,3)-(30,9),2,BF', 'SCREEN 7,,1,0', '@resume'],
             'resume': 0},
            {'cfg': {'video': 'tandy', 'width': 40}, 'stmts': ['KEY ON', 'SCREEN ,,0,1', 'PRINT "on 0"', '@resume',
                                                               'PCOPY 0,1', '@resume'], 'resume': 1},
            # mode switch while the visible page number does not exist in the new mode (seeded C35c: the new visible
            # page was never flagged visible, so nothing at all was sent for it)
            {'cfg': {'video': 'vga'}, 'stmts': ['WIDTH 40', 'SCREEN 0,,5,5', 'PRINT "p5"', 'WIDTH 80', 'PRINT "abc"',
                                                'CLS', 'PRINT "x"', '@resume'], 'resume': 1},
            {'cfg': {'video': 'cga'}, 'stmts': ['SCREEN 2,,6,6', 'SCREEN 0,,0,0', 'PRINT "abc"'], 'resume': 1},
            {'cfg': {'video': 'ega'}, 'stmts': ['SCREEN 7,,1,7', 'PSET (3,3),2', 'SCREEN 9,,0,0', 'LINE (0,0)-(20,5),3,BF',
                                                '@resume'], 'resume': 0},
            {'cfg': {'video': 'vga'}, 'stmts': [], 'resume': 1},
            # _refresh_dbcs: a lead byte written in front of an existing byte changes the cell AFTER the dirty one
            {'k': 'refresh', 'cp': '936', 'base': [65], 'edits': [[9, 0xB0]], 'os': 10, 'oe': 10},
            {'k': 'refresh', 'cp': '936', 'base': [0xB0, 0xA1], 'edits': [[10, 65]], 'os': 11, 'oe': 11},
            {'k': 'refresh', 'cp': '936', 'base': [65], 'edits': [], 'os': 80, 'oe': 0},
            {'k': 'refresh', 'cp': '437', 'base': [32], 'edits': [[0, 65], [79, 66]], 'os': 40, 'oe': 41},
        ]

    def gen_cases(self, n):
        rng = self.rng
        hist = {}
        out = []
        n_refresh = 8
        for i in range(n_refresh):
            cp = '936' if i % 2 == 0 else '437'
            pool = [0xB0, 0xA1, 0xC4, 0xE3, 0x81, 0x40, 65, 66, 32, 32, 255, 128] if cp == '936' else [65, 66, 32, 1, 219, 255]
            base = [rng.choice(pool) for _ in range(rng.choice([1, 2, 7, 80]))]
            edits = [[rng.choice([0, 1, 2, 39, 40, 78, 79, rng.randrange(80)]), rng.choice(pool)]
                     for _ in range(rng.choice([0, 1, 1, 2, 5]))]
            a = rng.choice([1, 2, 40, 79, 80, 81])
            out.append({'k': 'refresh', 'cp': cp, 'base': base, 'edits': edits, 'os': a,
                        'oe': rng.choice([a, a, 80, 0, a - 1, a + 3])})
            hist['_refresh_dbcs range'] = hist.get('_refresh_dbcs range', 0) + 1
        for _ in range(max(0, n - n_refresh)):
            c = gen_history(rng)
            out.append(c)
            hist['adapter ' + c['cfg']['video']] = hist.get('adapter ' + c['cfg']['video'], 0) + 1
            for st in c['stmts']:
                k = st.split(' ')[0].split('(')[0]
                hist[k] = hist.get(k, 0) + 1
            if any(x.startswith('SCREEN') and ',,' in x for x in c['stmts']) and '@resume' in c['stmts']:
                hist['histories with page switch + fresh display'] = hist.get('histories with page switch + fresh display', 0) + 1
            if any(int(x) >= 4 for st_ in c['stmts'] if st_.startswith('SCREEN') for x in st_.replace(':', ',').split(',')[2:4] if x.strip().isdigit()):
                hist['histories using page numbers >= 4'] = hist.get('histories using page numbers >= 4', 0) + 1
        self.histogram = hist
        return out

    # ---- implementation
    def _cached(self, case):
        cache = self.__dict__.setdefault('_runs', {})
        key = core.sha(case)
        if key not in cache:
            if len(cache) > 4000:
                cache.clear()
            cache[key] = run_history(case)
        return cache[key]

    def _refresh(self, case):
        cache = self.__dict__.setdefault('_refreshes', {})
        key = core.sha(case)
        if key not in cache:
            cache[key] = run_refresh(case)
        return cache[key]

    def impl(self, case):
        if case.get('k') == 'refresh':
            old, new, start, stop = self._refresh(case)
            return [start, stop]
        r = self._cached(case)
        out = flatten_events(r.events)
        if r.final is None:
            return out + [-2]
        return out + [-1] + r.final

    def model_term(self, case):
        if case.get('k') == 'refresh':
            old, new, start, stop = self._refresh(case)
            return '(enc_range (refresh_range %s %s %s %s))' % (core.zl(old), core.zl(new), _z(case['os']), _z(case['oe']))
        r = self._cached(case)
        ph, pw, th, tw, fw, fh, n, v = r.init
        terms = [op_term(o) for o in r.ops]
        if any(t is None for t in terms):
            # an op on an unknown page: outside the model; make the mismatch visible
            return '[-99]'
        return ('(run_enc (mkCfg %d %d %d %d %d %d) %d%%nat %d%%nat %s [%s])'
                % (ph, pw, th, tw, fw, fh, n, v, 'true' if r.final is not None else 'false', '; '.join(terms)))

    def nontrivial(self, case, out):
        if case.get('k') == 'refresh':
            return True
        return sum(1 for i in range(len(out) - 1) if out[i] == E_SIG) > 2 or len(out) > 40

    def oracle(self, case, out):
        if case.get('k') == 'refresh':
            # the range returned contains the range given and every unicode cell that changed
            old, new, start, stop = self._refresh(case)
            if len(old) != len(new):
                return '_refresh_dbcs changed the row length'
            if not (start <= case['os'] and case['oe'] <= stop):
                return '_refresh_dbcs returned (%d, %d), not a widening of (%d, %d)' % (start, stop, case['os'], case['oe'])
            bad = [i + 1 for i in range(len(old)) if old[i] != new[i] and not start <= i + 1 <= stop]
            if bad:
                return '_refresh_dbcs changed column %d outside the range (%d, %d) it returned' % (bad[0], start, stop)
            return None
        r = self._cached(case)
        if r.fail:
            return r.fail
        if r.problems:
            return 'monitored assumption failed: ' + r.problems[0]
        return None


# ---------------------------------------------------------------------------------------------------------
# history generator

MODES = {
    'cga': [0, 1, 2], 'ega': [0, 1, 2, 7, 8, 9], 'vga': [0, 1, 2, 7, 8, 9], 'mda': [0], 'hercules': [0, 3],
    'tandy': [0, 1, 2, 3, 4, 5, 6], 'pcjr': [0, 1, 2, 3, 4, 5, 6], 'olivetti': [0, 1, 2, 3], 'ega_mono': [0, 10],
    'dbcs': [0, 1, 9],
}
TEXTS = ['"abc"', '"Hello, world"', '"x";', '"gjpqy_|";', 'STRING$(85,"#")', 'STRING$(200,"=");',
         'STRING$(39,"a");', 'STRING$(40,"b")', 'STRING$(80,"c");', '1;2;3', '-1.5', 'TAB(30);"t"', 'SPC(70);"s"',
         '"a","b","c"', 'CHR$(219);CHR$(1);CHR$(255)', '""', 'I']
CTRL = [7, 8, 9, 10, 11, 12, 13, 28, 29, 30, 31]
DBCS = ['CHR$(&H81)+CHR$(&H40)', 'CHR$(&HB0)+CHR$(&HA1)+"a"', '"x"+CHR$(&HC4)+CHR$(&HE3)+CHR$(&HBA)+CHR$(&HC3);',
        'STRING$(79,"a")+CHR$(&HB0)+CHR$(&HA1)', 'CHR$(&HB0);', 'CHR$(&HA1);"z"']
COORDS = [0, 1, 7, 8, 9, 15, 16, 33, 50, 100, 199, 200, 319, 320, 335, 347, 349, 350, 399, 639, 640, 719]


# page numbers: modes have 1, 2, 4, 8, 16 or 32 pages; a mode switch may shrink the page list below the page numbers
# in use (WIDTH 40 has 8 text pages, WIDTH 80 has 4), so numbers at and across those boundaries must occur
PAGE_POOL = [0, 1, 2, 3, 4, 5, 6, 7, 8, 15, 16, 31]


def gen_page(rng):
    return rng.randrange(0, 3) if rng.random() < 0.55 else rng.choice(PAGE_POOL)


def gen_stmt(rng, cfg):
    v = cfg['video']
    r = rng.random()

    def coord():
        return rng.choice(COORDS) if rng.random() < .5 else rng.randrange(0, 330)
    if r < 0.30:
        if v == 'dbcs' and rng.random() < 0.5:
            return 'PRINT ' + rng.choice(DBCS)
        k = rng.random()
        if k < 0.15:
            return 'PRINT CHR$(%d);' % rng.choice(CTRL)
        if k < 0.35:
            return 'FOR I=1 TO %d:PRINT %s:NEXT' % (rng.choice([2, 3, 5, 24, 25, 26, 30]), rng.choice(TEXTS))
        return 'PRINT ' + rng.choice(TEXTS)
    if r < 0.36:
        return rng.choice(['CLS', 'CLS', 'CLS 0', 'CLS 1', 'CLS 2'])
    if r < 0.46:
        k = rng.random()
        if k < 0.6:
            return 'COLOR %d,%d' % (rng.randrange(0, 32), rng.randrange(0, 16))
        if k < 0.8:
            return 'COLOR %d,%d,%d' % (rng.randrange(0, 16), rng.randrange(0, 8), rng.randrange(0, 16))
        return 'COLOR %d' % rng.randrange(0, 16)
    if r < 0.55:
        return 'LOCATE %d,%d' % (rng.choice([1, 2, 12, 23, 24, 25, 26]), rng.choice([1, 2, 20, 39, 40, 41, 79, 80]))
    if r < 0.61:
        if rng.random() < 0.25:
            return 'VIEW PRINT'
        a = rng.choice([1, 1, 2, 5, 12, 23, 24, 25])
        b = rng.choice([a, a, 24, 25, 12, a + 1, a + 3])
        return 'VIEW PRINT %d TO %d' % (a, b)
    if r < 0.68:
        k = rng.random()
        if k < 0.5:
            return 'SCREEN %d' % rng.choice(MODES[v] + [rng.randrange(0, 14)])
        if k < 0.8:
            return 'SCREEN ,,%d,%d' % (gen_page(rng), gen_page(rng))
        return 'SCREEN %d,,%d,%d' % (rng.choice(MODES[v]), gen_page(rng), gen_page(rng))
    if r < 0.72:
        return 'WIDTH %d' % rng.choice([40, 80, 80, 40, 20])
    if r < 0.76:
        return rng.choice(['KEY ON', 'KEY OFF'])
    if r < 0.80:
        return 'PCOPY %d,%d' % (rng.randrange(0, 3), rng.randrange(0, 3))
    if r < 0.93:
        k = rng.random()
        c = rng.randrange(0, 16)
        if k < 0.35:
            return 'PSET (%d,%d),%d' % (coord(), coord(), c)
        if k < 0.55:
            x, y = coord(), coord()
            return 'LINE (%d,%d)-(%d,%d),%d' % (x, y, x + rng.randrange(-12, 13), y + rng.randrange(-12, 13), c)
        if k < 0.7:
            x, y = coord(), coord()
            return 'LINE (%d,%d)-(%d,%d),%d,%s' % (x, y, x + rng.randrange(0, 20), y + rng.randrange(0, 6), c,
                                                  rng.choice(['B', 'BF']))
        if k < 0.78:
            return 'CIRCLE (%d,%d),%d,%d' % (coord(), coord(), rng.randrange(1, 9), c)
        if k < 0.84:
            return rng.choice(['VIEW', 'VIEW (%d,%d)-(%d,%d),%d,%d' % (
                rng.randrange(0, 50), rng.randrange(0, 50), rng.randrange(60, 150), rng.randrange(60, 150), c,
                rng.randrange(0, 4)), 'VIEW SCREEN (8,8)-(100,100)'])
        if k < 0.92:
            return rng.choice(['DIM A%(200)', 'GET (0,0)-(15,9),A%',
                               'PUT (%d,%d),A%%,%s' % (coord(), coord(), rng.choice(['PSET', 'XOR', 'OR', 'PRESET']))])
        if rng.random() < .3:
            return 'PAINT (%d,%d),%d,%d' % (coord() % 40, coord() % 40, c, c)
        return 'PRESET (%d,%d)' % (coord(), coord())
    if r < 0.96:
        seg = rng.choice(['&HB800', '&HB000', '&HA000', '&HB800'])
        off = rng.choice([0, 1, 2, 159, 160, 161, 3999, 4000, 4096, 8000, 8192, 16383]) if rng.random() < .6 \
            else rng.randrange(0, 16384)
        return 'DEF SEG=%s:POKE %d,%d' % (seg, off, rng.randrange(0, 256))
    return rng.choice(['@insert abc', '@insert ' + 'w' * 81, '@delete', '@clearline', '@linefeed', '@linefeed',
                       '@insert q'])


CONTENT = ['PRINT "abc"', 'PRINT "Hello, world";', 'LOCATE 12,20:PRINT "mid"', 'PSET (5,5),1', 'LINE (3,3)-(30,9),1,BF',
           'FOR I=1 TO 26:PRINT I:NEXT', 'COLOR 7,1:CLS', 'KEY ON', 'CIRCLE (40,40),9,1']
# modes with more than one page per adapter (text modes always have several)
PAGED = {'cga': [0], 'ega': [0, 7, 8, 9], 'vga': [0, 7, 8, 9], 'mda': [0], 'hercules': [0], 'tandy': [0, 1, 4],
         'pcjr': [0, 1, 4], 'olivetti': [0], 'ega_mono': [0, 10], 'dbcs': [0, 9]}


def gen_split_history(rng):
    """Active page != visible page, content on both, fresh displays attached at random points."""
    v = rng.choice(sorted(PAGED))
    cfg = {'video': v}
    if rng.random() < 0.3:
        cfg['width'] = 40
    st = []
    m = rng.choice(PAGED[v])
    if m or rng.random() < 0.3:
        st.append('SCREEN %d' % m)
    for _ in range(rng.randrange(0, 3)):
        st.append(rng.choice(CONTENT))
    a, b = rng.choice([(1, 0), (1, 0), (0, 1), (1, 0), (2, 1), (0, 1)])
    st.append(rng.choice(['SCREEN ,,%d,%d' % (a, b), 'SCREEN %d,,%d,%d' % (m, a, b)]))
    for _ in range(rng.randrange(0, 5)):
        r = rng.random()
        if r < 0.35:
            st.append(rng.choice(CONTENT))
        elif r < 0.5:
            st.append('PCOPY %d,%d' % (rng.randrange(0, 2), rng.randrange(0, 2)))
        elif r < 0.65:
            st.append('@resume')
        else:
            st.append(gen_stmt(rng, cfg))
    st.append('@resume')
    for _ in range(rng.randrange(0, 4)):
        st.append(gen_stmt(rng, cfg) if rng.random() < 0.7 else '@resume')
    return {'cfg': cfg, 'stmts': st, 'resume': int(rng.random() < 0.7)}


# (statement entering a mode with >= 8 pages, statements leaving it for a mode with <= 4 pages) per adapter
GRAPHICS_8PG = {'cga': [1, 2], 'ega': [1, 2, 7, 8, 9], 'vga': [1, 2, 7, 8, 9], 'tandy': [1, 2, 3, 4], 'pcjr': [1, 2, 3, 4],
                'olivetti': [1, 2], 'ega_mono': [10], 'dbcs': [1, 2, 7, 8, 9]}


def gen_pagecount_history(rng):
    """Work on high page numbers of a mode with many pages, then switch to a mode with fewer pages (the old visible /
    active page numbers no longer exist in the new page list), then produce output and attach fresh displays."""
    v = rng.choice(sorted(GRAPHICS_8PG))
    cfg = {'video': v}
    if rng.random() < 0.5:
        # 40-column text (8 pages) -> 80-column text (4 pages)
        cfg['width'] = 40
        st = [rng.choice(['WIDTH 40', 'SCREEN 0', 'KEY OFF'])]
        shrink = ['WIDTH 80', 'WIDTH 80', 'SCREEN 0,,0,0:WIDTH 80', 'SCREEN ,,0,0:WIDTH 80', 'WIDTH 80:CLS']
    else:
        # graphics mode with 8+ pages -> 80-column text (4 pages) or a small graphics mode
        st = ['SCREEN %d' % rng.choice(GRAPHICS_8PG[v])]
        shrink = ['SCREEN 0,,0,0', 'SCREEN 0,,0,0', 'SCREEN 0,,1,1', 'SCREEN 0,,%d,0' % rng.randrange(0, 4),
                  'SCREEN %d,,0,0' % rng.choice(MODES[v])]
    hi = rng.choice([4, 5, 6, 7, 7, 4])
    a = hi if rng.random() < 0.6 else rng.choice([0, 1, hi - 1, 7])
    st.append(rng.choice(['SCREEN ,,%d,%d' % (a, hi), 'SCREEN ,,%d,%d' % (hi, hi), 'SCREEN ,,%d' % hi]))
    for _ in range(rng.randrange(0, 3)):
        st.append(rng.choice(CONTENT))
    st.append(rng.choice(shrink))
    for _ in range(rng.randrange(1, 5)):
        r = rng.random()
        st.append(rng.choice(CONTENT) if r < 0.5 else '@resume' if r < 0.65 else gen_stmt(rng, cfg))
    return {'cfg': cfg, 'stmts': st, 'resume': int(rng.random() < 0.7)}


def gen_history(rng):
    r = rng.random()
    if r < 0.15:
        return gen_pagecount_history(rng)
    if r < 0.43:
        return gen_split_history(rng)
    v = rng.choice(sorted(MODES))
    cfg = {'video': v}
    if rng.random() < 0.2:
        cfg['width'] = 40
    n = rng.choice([3, 6, 10, 16])
    st = []
    if rng.random() < 0.6:
        st.append('SCREEN %d' % rng.choice(MODES[v]))
    if rng.random() < 0.5:
        st.append('COLOR %d,%d:CLS' % (rng.randrange(0, 16), rng.randrange(1, 8)))
    for _ in range(n):
        st.append(gen_stmt(rng, cfg) if rng.random() > 0.06 else '@resume')
    return {'cfg': cfg, 'stmts': st, 'resume': int(rng.random() < 0.5)}


CHECK = C35
