"""C18 - Expressions evaluate with GW-BASIC precedence, associativity and typing.

Case kinds
  tree : a random operator tree (depth <= 6, optional explicit redundant parentheses) printed with minimal
         parentheses; the REAL ExpressionParser.parse runs on the tokenised byte stream with the callbacks in
         op.UNARY / op.BINARY replaced by tree-building recorders, so the grouping chosen by the parser is
         observed directly; some literals make the recorders raise, to observe the order of evaluation.
  toks : malformed / arbitrary token streams (random, and printed trees with tokens deleted / inserted).
  val  : typed expressions (integer, single, double, string leaves) as TEXT through the tokeniser and the
         real operator functions of values.py; compared with the typed model and a Python reference.
"""
from vlib import core
from harness import common

GT, EQ, LT = 0xe6, 0xe7, 0xe8
NOT = 0xd3
# binary operator id -> (precedence of the property statement, spelling, alternative spelling)
BIN_SPEC = {1: (13, [0xed]), 2: (11, [0xeb]), 3: (11, [0xec]), 4: (10, [0xf4]), 5: (9, [0xf3]), 6: (8, [0xe9]),
            7: (8, [0xea]), 8: (7, [GT]), 9: (7, [EQ]), 10: (7, [LT]), 11: (7, [GT, EQ], [EQ, GT]),
            12: (7, [LT, EQ], [EQ, LT]), 13: (7, [LT, GT], [GT, LT]), 14: (5, [0xee]), 15: (4, [0xef]),
            16: (3, [0xf0]), 17: (2, [0xf1]), 18: (1, [0xf2])}
UN_SPEC = {1: (12, 0xea), 2: (12, 0xe9), 3: (6, NOT)}
UN_ID = {'neg': 1, 'pos': 2, 'not_': 3}
BIN_ID = {'pow': 1, 'mul': 2, 'div': 3, 'intdiv': 4, 'mod_': 5, 'add': 6, 'sub': 7, 'gt': 8, 'eq': 9, 'lt': 10,
          'gte': 11, 'lte': 12, 'neq': 13, 'and_': 14, 'or_': 15, 'xor_': 16, 'eqv_': 17, 'imp_': 18}
UN_COQ = {1: 'Neg', 2: 'Pos', 3: 'Not'}
BIN_COQ = {1: 'Pow', 2: 'Mul', 3: 'Div', 4: 'IntDiv', 5: 'Mod', 6: 'Add', 7: 'Sub', 8: 'Gt', 9: 'Eq', 10: 'Lt',
           11: 'Ge', 12: 'Le', 13: 'Ne', 14: 'And', 15: 'Or', 16: 'Xor', 17: 'Eqv', 18: 'Imp'}
OP_TEXT = {0xed: b'^', 0xeb: b'*', 0xec: b'/', 0xf4: b'\\', 0xf3: b' MOD ', 0xe9: b'+', 0xea: b'-', GT: b'>',
           EQ: b'=', LT: b'<', 0xee: b' AND ', 0xef: b' OR ', 0xf0: b' XOR ', 0xf1: b' EQV ', 0xf2: b' IMP ',
           NOT: b' NOT '}
ALL_OPS = sorted(OP_TEXT)
# tree mode: literals that make a recorder raise (left/only operand, right operand)
ERR_L = {240: 6, 241: 11, 242: 13, 243: 5}
ERR_R = {250: 14, 251: 15, 252: 16, 253: 7}
TAILS = [[], [[':']], [[':', 0]], [[',']], [[',', 0x3b]], [[',', 0x5d]], [[')']], [['u', 5]], [['o', NOT], ['u', 3]],
         [['(']], [['j', 0xcd]], [['j', 0x23]], [[':'], ['u', 1], ['o', 0xe9]]]


# ---------------------------------------------------------------------------
# trees:  ['L', n] literal | ['E', err] unit that raises | ['N', t, x] typed number | ['S', 'text'] string
#         ['P', e] explicit parentheses | ['U', uid, e] | ['B', bid, l, r]

def bprec(o):
    return BIN_SPEC[o][0]


def uprec(o):
    return UN_SPEC[o][0]


def need_operand(c, e):
    return e[0] == 'B' and bprec(e[1]) <= c


def redge_ge(q, e):
    if e[0] == 'U':
        return q <= uprec(e[1]) and (need_operand(uprec(e[1]), e[2]) or redge_ge(q, e[2]))
    if e[0] == 'B':
        return q <= bprec(e[1]) and (need_operand(bprec(e[1]), e[3]) or redge_ge(q, e[3]))
    return True


def paren(b, ts):
    return [['(']] + ts + [[')']] if b else ts


def spelling(o, alt):
    sp = BIN_SPEC[o]
    if len(sp) > 2 and alt[o - 11]:
        return sp[2]
    return sp[1]


def pr(e, alt):
    """The printer of the theorem (model/Shunting.v pr), in Python."""
    k = e[0]
    if k == 'L':
        return [['u', e[1]]]
    if k == 'E':
        return [['e', e[1]]]
    if k == 'N':
        return [['n', e[1], e[2]]]
    if k == 'S':
        return [['s', e[1]]]
    if k == 'V':                                   # variable / array element holding the number (t, x)
        return [['v', e[1], e[2], e[3]]]
    if k == 'W':                                   # string variable / array element
        return [['w', e[1], e[2]]]
    if k == 'F':                                   # conversion function call: one unit of the expression
        return [['f', e[1], pr(e[2], alt)]]
    if k == 'G':                                   # string function call CHR$ STR$ LEFT$ RIGHT$ MID$ (a temporary)
        return [['g', e[1], pr(e[2], alt), e[3], e[4]]]
    if k == 'P':
        return paren(True, pr(e[1], alt))
    if k == 'U':
        return [['o', UN_SPEC[e[1]][1]]] + paren(need_operand(uprec(e[1]), e[2]), pr(e[2], alt))
    o, l, r = e[1], e[2], e[3]
    return (paren(not redge_ge(bprec(o), l), pr(l, alt)) + [['o', b] for b in spelling(o, alt)] +
            paren(need_operand(bprec(o), r), pr(r, alt)))


def par_all(e):
    k = e[0]
    if k == 'F':
        return ['F', e[1], par_all(e[2])]
    if k == 'G':
        return ['G', e[1], par_all(e[2]), e[3], e[4]]
    if k == 'P':
        return ['P', par_all(e[1])]
    if k == 'U':
        return ['U', e[1], ['P', par_all(e[2])]]
    if k == 'B':
        return ['B', e[1], ['P', par_all(e[2])], ['P', par_all(e[3])]]
    return e


def depth(e):
    k = e[0]
    if k in ('P', 'U'):
        return (0 if k == 'P' else 1) + depth(e[-1])
    if k == 'B':
        return 1 + max(depth(e[2]), depth(e[3]))
    return 0


def count_ops(e):
    k = e[0]
    if k in ('F', 'G'):
        return 1 + count_ops(e[2])
    if k == 'P':
        return count_ops(e[1])
    if k == 'U':
        return 1 + count_ops(e[2])
    if k == 'B':
        return 1 + count_ops(e[2]) + count_ops(e[3])
    return 0


def coq_expr(e):
    k = e[0]
    if k == 'L':
        return '(trL %d)' % e[1]
    if k == 'E':
        return '(trE %d)' % e[1]
    if k == 'N':
        return '(vN %d %s)' % (e[1], '(%d)' % e[2] if e[2] < 0 else '%d' % e[2])
    if k == 'S':
        return '(vS %s)' % core.zl(list(e[1].encode('latin-1')))
    if k == 'V':
        return '(vN %d %s)' % (e[2], '(%d)' % e[3] if e[3] < 0 else '%d' % e[3])
    if k == 'W':
        return '(vS %s)' % core.zl(list(e[2].encode('latin-1')))
    if k == 'F':
        return '(vF %d %s)' % (e[1], coq_expr(e[2]))
    if k == 'G':
        return '(vG %d %d %d %s)' % (e[1], e[3], e[4], coq_expr(e[2]))
    if k == 'P':
        return '(Par %s)' % coq_expr(e[1])
    if k == 'U':
        return '(Un %s %s)' % (UN_COQ[e[1]], coq_expr(e[2]))
    return '(Bin %s %s %s)' % (BIN_COQ[e[1]], coq_expr(e[2]), coq_expr(e[3]))


def coq_tok(t, mode):
    k = t[0]
    if k == 'u':
        return 'tU %d' % t[1]
    if k == 'e':
        return 'tUE %d' % t[1]
    if k == 'n':
        return 'tN %d %s' % (t[1], '(%d)' % t[2] if t[2] < 0 else '%d' % t[2])
    if k == 's':
        return 'tS %s' % core.zl(list(t[1].encode('latin-1')))
    if k == 'o':
        return ('tO %d' if mode == 'tree' else 'tP %d') % t[1]
    return {'(': 'TLParen', ')': 'TRParen', ':': 'TEndStmt', ',': 'TEndExpr', 'j': 'TJunk'}[k]


def coq_toks(ts, mode='tree'):
    return '[' + '; '.join(coq_tok(t, mode) for t in ts) + ']'


def coq_alt(alt):
    return ' '.join('true' if a else 'false' for a in alt)


# ---------------------------------------------------------------------------
# reference semantics (oracle): direct reading of the property on trees; independent of the Coq model

class BErr(Exception):
    def __init__(self, n):
        Exception.__init__(self, n)
        self.n = n


class OutOfDomain(Exception):
    pass


def rec_un(o, a):
    if len(a) == 2 and a[0] == 0 and a[1] in ERR_L:
        raise BErr(ERR_L[a[1]])
    return [1, o] + a


def rec_bin(o, a, b):
    if len(a) == 2 and a[0] == 0 and a[1] in ERR_L:
        raise BErr(ERR_L[a[1]])
    if len(b) == 2 and b[0] == 0 and b[1] in ERR_R:
        raise BErr(ERR_R[b[1]])
    return [2, o] + a + b


INT, SNG, DBL, STR = 0, 1, 2, 3


BOUND = {INT: 32767, SNG: 1 << 24, DBL: 1 << 53}


def chk(t, x):
    """x must be exactly representable in type t (else the case is outside the exact domain)."""
    if abs(x) > BOUND[t]:
        raise OutOfDomain()
    return (t, x)


def to_int16(x):
    """to_integer() of an integer-valued number: Overflow beyond the integer range."""
    if abs(x) <= 32767:
        return x
    if x == -32768:
        raise OutOfDomain()
    raise BErr(6)


def val_un(o, a):
    t, x = a
    if o == 2:
        return a
    if o == 1:
        return a if t == STR else chk(max(t, SNG), -x)
    if t == STR:
        raise BErr(13)
    return chk(INT, -to_int16(x) - 1)


def trunc_div(x, y):
    q = abs(x) // abs(y)
    return q if (x < 0) == (y < 0) else -q


def val_bin(o, a, b):
    """Operators of the property statement: result type and value, computed on the exact values in the
    widest operand type (nothing is narrowed to the type of the other operand)."""
    (ta, x), (tb, y) = a, b
    if (o in (4, 5) or o >= 14) and ta != STR:
        to_int16(x)                                    # integer operators convert the left operand first
    if (ta == STR) != (tb == STR):
        raise BErr(13)                                 # string / number mix
    if ta == STR:
        if o == 6:
            if len(x) + len(y) > 255:
                raise OutOfDomain()
            return (STR, x + y)
        if 8 <= o <= 13:
            r = {8: x > y, 9: x == y, 10: x < y, 11: x >= y, 12: x <= y, 13: x != y}[o]
            return (INT, -1 if r else 0)
        raise BErr(13)
    wide = max(ta, tb)
    if o in (6, 7, 2):                                 # + - * : widest operand type; integers are promoted
        r = {6: x + y, 7: x - y, 2: x * y}[o]          # to single (interpretation I1, design_notes/C18.md)
        if o != 2 and wide <= SNG and BOUND[SNG] in (abs(x), abs(y)):
            raise OutOfDomain()                        # single + - at 2^24: pcbasic is one unit off (C04/C05)
        return chk(max(wide, SNG), r)
    if o == 3:                                         # / never integer
        if y == 0 or x % y:
            raise OutOfDomain()
        return chk(max(wide, SNG), x // y)
    if o == 1:                                         # ^ never integer (single unless double_math)
        if y < 0 or abs(x) > BOUND[SNG] or abs(y) > BOUND[SNG]:
            raise OutOfDomain()
        if abs(x) > 1 and y > 64:
            raise OutOfDomain()
        return chk(SNG, x ** y)
    if 8 <= o <= 13:                                   # relational: integer -1 / 0, on the exact values
        r = {8: x > y, 9: x == y, 10: x < y, 11: x >= y, 12: x <= y, 13: x != y}[o]
        return (INT, -1 if r else 0)
    x = to_int16(x)                                    # \ MOD AND OR XOR EQV IMP work on integers
    y = to_int16(y)
    if o in (4, 5):
        if y == 0:
            raise OutOfDomain()
        q = trunc_div(x, y)
        return chk(INT, q if o == 4 else x - q * y)
    m = 0xffff
    ux, uy = x & m, y & m
    r = {14: ux & uy, 15: ux | uy, 16: ux ^ uy, 17: ~(ux ^ uy) & m, 18: (~ux & m) | uy}[o]
    return chk(INT, r - 0x10000 if r & 0x8000 else r)


FN_NAME = {1: b'CINT', 2: b'CSNG', 3: b'CDBL', 4: b'ABS', 5: b'SGN', 6: b'INT', 7: b'FIX'}


def val_fn(f, a):
    """Type-conversion functions on the exact domain."""
    t, x = a
    if t == STR:
        if f in (4, 6):
            return a                                   # ABS and INT pass strings unchanged
        raise BErr(13)
    if f == 1:
        return chk(INT, to_int16(x))
    if f == 2:
        return chk(SNG, x)
    if f == 3:
        return chk(DBL, x)
    if f == 4:
        return chk(max(t, SNG), abs(x))
    if f == 5:
        return (INT, (x > 0) - (x < 0))
    return a                                           # INT, FIX of an integer-valued number


SFN_NAME = {8: b'CHR$', 9: b'STR$', 10: b'LEFT$', 11: b'RIGHT$', 12: b'MID$'}


def val_sfn(f, i, j, a):
    """String functions (their results are temporary strings)."""
    t, x = a
    if f in (8, 9):
        if t == STR:
            raise BErr(13)
        if f == 8:
            if not 0 <= x <= 255:
                raise OutOfDomain()
            return (STR, bytes([x]))
        if abs(x) > 999999:
            raise OutOfDomain()
        return (STR, (b'-' if x < 0 else b' ') + b'%d' % abs(x))
    if t != STR:
        raise BErr(13)
    if f == 10:
        return (STR, x[:i])
    if f == 11:
        return (STR, x[len(x) - i:] if i < len(x) else x)
    if i < 1:
        raise OutOfDomain()
    return (STR, x[i - 1:i - 1 + j])


def variables_of(e, acc=None):
    """name -> (type, value) of the variables of a tree."""
    acc = {} if acc is None else acc
    k = e[0]
    if k == 'V':
        acc[e[1]] = (e[2], e[3])
    elif k == 'W':
        acc[e[1]] = (STR, e[2].encode('latin-1'))
    elif k in ('P', 'U', 'F'):
        variables_of(e[-1], acc)
    elif k == 'G':
        variables_of(e[2], acc)
    elif k == 'B':
        variables_of(e[2], acc)
        variables_of(e[3], acc)
    return acc


def ref_eval(e, un, bi):
    k = e[0]
    if k == 'L':
        return [0, e[1]]
    if k == 'E':
        raise BErr(e[1])
    if k == 'N':
        return (e[1], e[2])
    if k == 'S':
        return (STR, e[1].encode('latin-1'))
    if k == 'V':
        return (e[2], e[3])
    if k == 'W':
        return (STR, e[2].encode('latin-1'))
    if k == 'F':
        return val_fn(e[1], ref_eval(e[2], un, bi))
    if k == 'G':
        return val_sfn(e[1], e[3], e[4], ref_eval(e[2], un, bi))
    if k == 'P':
        return ref_eval(e[1], un, bi)
    if k == 'U':
        return un(e[1], ref_eval(e[2], un, bi))
    a = ref_eval(e[2], un, bi)
    b = ref_eval(e[3], un, bi)
    return bi(e[1], a, b)


def enc_val(v):
    t, x = v
    if t == STR:
        return [3, len(x)] + list(x)
    return [t, x]


# ---------------------------------------------------------------------------
# rendering

def render_bytes(toks, blanks):
    """Tokenised byte stream of a token list, and the start offset of every token."""
    out = b''
    starts = []
    for i, t in enumerate(toks):
        if blanks and (blanks >> (i % 30)) & 1:
            out += b' '
        starts.append(len(out))
        k = t[0]
        if k == 'u':
            n = t[1]
            out += bytes([0x11 + n]) if n <= 10 else b'\x0f' + bytes([n])
        elif k == 'e':
            out += {9: b'A(\x0f\xc8)', 18: b'\xd1Z'}[t[1]]
        elif k in ('o', 'j'):
            out += bytes([t[1]])
        elif k == '(':
            out += b'('
        elif k == ')':
            out += b')'
        elif k == ':':
            out += b':' if len(t) < 2 else bytes([t[1]])
        elif k == ',':
            out += b',' if len(t) < 2 else bytes([t[1]])
        else:
            raise ValueError(t)
    return out, starts


def render_text(toks, blanks):
    out = b''
    for i, t in enumerate(toks):
        if blanks and (blanks >> (i % 30)) & 1:
            out += b' '
        k = t[0]
        if k == 'n':
            out += b'%d' % t[2] + [b'', b'!', b'#'][t[1]]
        elif k == 's':
            out += b'"' + t[1].encode('latin-1') + b'"'
        elif k in ('v', 'w'):
            out += t[1].encode('latin-1')
        elif k == 'f':
            out += FN_NAME[t[1]] + b'(' + render_text(t[2], 0) + b')'
        elif k == 'g':
            args = [render_text(t[2], 0)] + [b'%d' % x for x in ([], [], [t[3]], [t[3]], [t[3], t[4]])[t[1] - 8]]
            out += SFN_NAME[t[1]] + b'(' + b','.join(args) + b')'
        elif k == 'o':
            out += OP_TEXT[t[1]]
        elif k in ('(', ')'):
            out += k.encode()
        else:
            raise ValueError(t)
    return out


class Rec(object):
    """Result of a recorder callback: the prefix encoding of the operator tree."""
    def __init__(self, enc):
        self.enc = enc


def as_enc(v):
    if isinstance(v, Rec):
        return v.enc
    return [0, int(v.to_value())]


class patched(object):
    """Replace the callbacks in op.UNARY / op.BINARY (in this process) by tree-building recorders."""

    def __enter__(self):
        from pcbasic.basic.parser import operators as op
        from pcbasic.basic.base import error
        self.op = op
        self.u, self.b = dict(op.UNARY), dict(op.BINARY)

        def wrap(f, *a):
            try:
                return Rec(f(*a))
            except BErr as e:
                raise error.BASICError(e.n)
        for k, f in self.u.items():
            nm = f.__name__
            fid = UN_ID['pos'] if nm == '<lambda>' else UN_ID[nm]
            op.UNARY[k] = (lambda fid: lambda a: wrap(rec_un, fid, as_enc(a)))(fid)
        for k, f in self.b.items():
            fid = BIN_ID[f.__name__]
            op.BINARY[k] = (lambda fid: lambda a, b: wrap(rec_bin, fid, as_enc(a), as_enc(b)))(fid)

    def __exit__(self, *a):
        self.op.UNARY.clear()
        self.op.UNARY.update(self.u)
        self.op.BINARY.clear()
        self.op.BINARY.update(self.b)


# ---------------------------------------------------------------------------

class C18(core.Check):
    ID = 'C18'
    GEN = ['gen_prec']
    PROPS = 'props/C18.v'
    MODEL_IMPORTS = ['gen.Gen_prec', 'model.Shunting', 'model.ShuntingValues']
    QUICK_CASES = 1600
    THOROUGH_CASES = 16000
    TRUSTED = ['hand model model/Shunting.v of the loop of ExpressionParser.parse/_drain (stacks, unary detection, '
               'NOT, parentheses as frames, end conditions, IndexError handler), tied by correspondence on the '
               'real parser with recording callbacks',
               'hand model model/ShuntingValues.v of the type dispatch of the operator functions of values.py and '
               'of their values on exact small integers / strings, tied by correspondence through the tokeniser '
               'and the real operator functions',
               'units (literals, variables, function calls) are abstract values evaluated when read; float '
               'arithmetic itself is C04/C05']
    RULE = ('tree: random operator trees of depth <= 6 (all 18 binary and 3 unary operators, both spellings of '
            '>= <= <>, optional redundant parentheses, full parentheses, raising units and raising applications) '
            'printed by the printer of the theorem, tokenised bytes with random blanks, parsed by the real '
            'ExpressionParser.parse with recording callbacks; toks: random token streams and printed trees with '
            'tokens deleted/inserted/replaced; val: typed expressions as text through tokeniser + values.py. '
            'oracle: recorded tree / value / type / error = reference evaluation of the tree. non-trivial = '
            'parse succeeded on an expression with at least one operator; distinct by hash')
    histogram = None

    # ---- cases
    def corpus(self):
        L = lambda n: ['L', n]
        B = lambda o, l, r: ['B', o, l, r]
        U = lambda o, e: ['U', o, e]
        N = lambda x, t=0: ['N', t, x]
        no = [0, 0, 0]
        tree = lambda e, tail=(), alt=no: {'k': 'tree', 'e': e, 'tail': list(tail), 'alt': alt, 'bl': 0}
        val = lambda e: {'k': 'val', 'e': e, 'alt': no, 'bl': 0}
        var = lambda e: {'k': 'var', 'e': e, 'alt': no, 'bl': 0}
        V = lambda name, t, x: ['V', name, t, x]
        toks = lambda t: {'k': 'toks', 't': t, 'bl': 0}
        return [
            tree(L(1)),
            tree(B(6, L(1), B(2, L(2), L(3)))),                       # 1+2*3
            tree(B(2, B(6, L(1), L(2)), L(3))),                       # (1+2)*3
            tree(B(7, B(7, L(1), L(2)), L(3))),                       # 1-2-3 left assoc
            tree(B(7, L(1), B(7, L(2), L(3)))),                       # 1-(2-3)
            tree(B(1, B(1, L(2), L(3)), L(2))),                       # 2^3^2 = (2^3)^2
            tree(B(1, L(2), U(1, L(3)))),                             # 2^-3
            tree(B(1, U(1, L(2)), L(3))),                             # (-2)^3
            tree(U(1, B(1, L(2), L(3)))),                             # -2^3
            tree(B(2, L(2), U(3, L(3)))),                             # 2*NOT 3
            tree(B(1, L(2), U(3, B(2, L(3), L(4))))),                 # 2^NOT 3*4
            tree(B(2, B(1, L(2), U(3, L(3))), L(4))),                 # (2^NOT 3)*4
            tree(B(6, B(2, L(2), U(3, L(3))), L(4))),                 # (2*NOT 3)+4
            tree(B(2, L(2), U(3, B(6, L(3), L(4))))),                 # 2*NOT 3+4
            tree(B(9, B(9, L(1), L(1)), U(1, L(1)))),                 # 1=1=-1 chained relational
            tree(B(8, B(8, L(3), L(2)), L(1))),                       # 3>2>1
            tree(B(11, L(1), L(2)), alt=[1, 1, 1]), tree(B(12, L(1), L(2)), alt=[1, 1, 1]),
            tree(B(13, L(1), L(2)), alt=[1, 1, 1]), tree(B(13, L(1), L(2))),
            tree(B(18, B(17, L(1), L(2)), B(16, L(3), B(15, L(4), B(14, L(5), L(6)))))),
            tree(B(6, B(5, L(240), L(0)), B(6, L(241), L(1)))),       # two failing applications: leftmost first
            tree(B(6, L(1), B(2, ['E', 9], B(5, L(240), L(0))))),     # raising unit read before a later failure
            tree(B(2, B(6, L(240), L(1)), ['E', 18])),
            tree(['P', ['P', L(1)]]), tree(par_all(B(6, L(1), B(2, L(2), U(1, L(3)))))),
            tree(B(6, L(1), L(2)), tail=[['u', 5]]), tree(B(6, L(1), L(2)), tail=[['o', NOT], ['u', 3]]),
            tree(B(6, L(1), L(2)), tail=[[')']]), tree(B(6, L(1), L(2)), tail=[[',']]),
            {'k': 'trail', 'e': L(1), 'o': 6, 'inner': 0, 'end': [], 'alt': no, 'bl': 0},
            {'k': 'trail', 'e': L(1), 'o': 6, 'inner': 1, 'end': [], 'alt': no, 'bl': 0},
            {'k': 'trail', 'e': B(6, L(240), L(1)), 'o': 2, 'inner': 0, 'end': [[',']], 'alt': no, 'bl': 0},
            toks([]), toks([['(']]), toks([['('], [')']]), toks([[')']]), toks([[',']]), toks([[':']]),
            toks([['u', 1], ['o', 0xe9]]),                            # 1+      Missing operand
            toks([['('], ['u', 1], ['o', 0xe9], [')']]),              # (1+)    Syntax error
            toks([['u', 1], ['o', 0xe9], [',']]),                     # 1+,     Syntax error
            toks([['o', 0xeb], ['u', 1]]),                            # *1
            toks([['u', 1], ['o', 0xe9], ['o', 0xeb], ['u', 2]]),     # 1+*2
            toks([['u', 1], ['o', EQ], ['o', EQ], ['u', 2]]),         # 1==2
            toks([['u', 1], ['o', LT], ['o', EQ], ['o', GT], ['u', 2]]),   # 1<=>2
            toks([['u', 1], ['o', GT], ['o', GT], ['u', 2]]),
            toks([['u', 1], ['u', 2]]), toks([['u', 1], ['o', NOT], ['u', 2]]),
            toks([['('], ['u', 1]]), toks([['('], ['u', 1], ['u', 2], [')']]),
            toks([['('], ['u', 1], ['o', 0xe9]]), toks([['u', 1], ['o', 0xe9], ['(']]),
            toks([['u', 240], ['o', 0xe9], ['u', 1], ['o', 0xeb]]),  # "wrong operands" before Missing operand
            toks([['o', NOT]]), toks([['o', 0xea]]), toks([['o', 0xea], ['o', 0xea], ['u', 1]]),
            toks([['j', 0xcd]]), toks([['u', 1], ['j', 0xcd]]), toks([['u', 1], ['o', 0xe9], ['j', 0x23]]),
            toks([['u', 1], ['('], ['u', 2], [')']]), toks([['('], ['u', 1], [',', 0x5d]]),
            val(B(6, N(1), N(1))), val(B(2, N(3), N(2, 2))), val(B(3, N(6), N(3))), val(B(1, N(2), N(3))),
            val(B(1, N(2, 2), N(3, 2))), val(B(4, N(7, 1), N(2, 2))), val(B(5, N(-7), N(2))),
            val(B(9, N(1), N(1, 2))), val(B(9, ['S', 'a'], ['S', 'a'])), val(B(6, ['S', 'a'], ['S', 'b'])),
            val(B(6, ['S', 'a'], N(1))), val(B(6, N(1), ['S', 'a'])), val(B(7, ['S', 'a'], ['S', 'b'])),
            val(B(8, N(1), ['S', 'a'])), val(U(3, ['S', 'a'])), val(U(1, ['S', 'a'])), val(U(2, N(1))),
            val(U(1, N(1))), val(U(3, N(1, 2))), val(B(14, N(3, 1), N(5, 2))),
            # the operator works in the widest operand type, whichever side the wider operand is on (seed C18c)
            val(B(8, N(3), N(40000, 2))), val(B(10, N(40000, 2), N(3))), val(B(9, N(16777216, 1), N(16777217, 2))),
            val(B(9, N(16777217, 2), N(16777216, 1))), val(B(6, N(1), N(16777217, 2))),
            val(B(7, N(2), N(16777217, 2))), val(B(6, N(16777216, 1), N(16777217, 2))),
            val(B(8, B(10, N(1), N(2)), U(1, N(40000, 2)))), val(B(12, N(2), N(16777217, 2))),
            val(B(11, N(16777217, 2), N(2))), val(B(13, N(40000, 1), N(40001, 2))),
            val(B(14, N(40000, 2), N(1))), val(B(14, N(100000, 1), ['S', 'A'])), val(B(5, ['S', 'A'], N(100000, 1))), val(U(3, N(40000, 1))), val(B(4, N(7), N(32768, 1))),
            val(B(2, N(4096, 1), N(4096, 1))), val(B(2, N(123456789, 2), N(1000))),
            # evaluating an expression does not change its operands (seed C18d: mul() wrote into a double variable)
            var(B(6, B(2, V('P#', 2, 3), N(2)), V('P#', 2, 3))),
            var(B(2, B(2, V('D#(1)', 2, 7), V('D#(1)', 2, 7)), V('D#(1)', 2, 7))),
            var(B(2, V('P#', 2, 3), N(2))), var(B(2, N(2), V('P#', 2, 3))), var(B(2, V('F!', 1, 3), V('F!', 1, 3))),
            var(B(3, V('Q#', 2, 12), N(4))), var(B(6, V('Q#', 2, 12), N(4))), var(B(7, V('Q#', 2, 12), V('Q#', 2, 12))),
            var(B(1, V('G!', 1, 3), N(2))), var(B(4, V('A%', 0, 7), N(2))), var(B(5, V('I%(3)', 0, 7), N(2))),
            var(U(1, V('P#', 2, 5))), var(U(1, V('A%', 0, 5))), var(U(3, V('B%', 0, 5))), var(U(2, V('E!(1)', 1, 5))),
            var(B(14, V('A%', 0, 6), V('B%', 0, 3))), var(B(9, V('P#', 2, 5), V('F!', 1, 5))),
            var(B(6, ['W', 'S$', 'ab'], ['W', 'S$', 'ab'])), var(B(9, ['W', 'U$(2)', 'a'], ['W', 'T$', 'a'])),
            var(B(6, ['F', 4, V('P#', 2, -5)], V('P#', 2, -5))), var(B(2, ['F', 3, V('P#', 2, 5)], N(2))),
            var(B(2, ['F', 2, V('F!', 1, 5)], N(2))), var(B(6, ['F', 1, V('A%', 0, 5)], V('A%', 0, 5))),
            var(['F', 6, V('D#(2)', 2, -7)]), var(['F', 7, V('E!(1)', 1, -7)]), var(['F', 5, V('Q#', 2, -7)]),
            var(['F', 4, ['W', 'S$', 'ab']]), var(['F', 5, ['W', 'S$', 'ab']]), var(['F', 1, V('F!', 1, 40000)]),
            # a temporary string operand waits on the stack while a parenthesised sub-expression is evaluated (C18e)
            var(B(6, ['P', B(6, ['W', 'S$', 'x'], ['W', 'T$', 'y'])], ['P', B(6, ['W', 'T$', 'y'], ['W', 'S$', 'x'])])),
            var(B(6, ['G', 8, N(65), 0, 0], ['P', ['G', 8, N(66), 0, 0]])),
            var(B(6, ['S', 'AB'], ['P', ['S', 'C']])),
            var(B(10, ['P', B(6, ['W', 'S$', 'x'], ['S', '1'])], ['P', B(6, ['W', 'S$', 'x'], ['S', '2'])])),
            var(B(6, ['W', 'S$', 'x'], ['P', B(6, ['W', 'T$', 'y'], ['W', 'S$', 'x'])])),
            var(B(6, ['G', 9, N(5), 0, 0], ['P', ['G', 12, ['S', 'abcd'], 2, 2]])),
            var(B(9, B(6, ['G', 10, ['S', 'abc'], 2, 0], ['P', ['G', 11, ['S', 'abc'], 1, 0]]), ['P', ['S', 'abc']])),
            var(B(6, B(6, ['S', 'a'], ['S', 'b']), ['P', ['P', ['S', 'c']]])),
            var(['G', 9, U(1, V('P#', 2, 5)), 0, 0]), var(['G', 8, ['S', 'a'], 0, 0]), var(['G', 10, N(5), 1, 0]),
            val(B(18, N(1), ['S', 'a'])),                             # D18a: 1 IMP "a" must be Type mismatch
            val(B(18, N(1, 2), ['S', ''])), val(B(18, ['S', 'a'], N(1))),
            val(B(10, ['S', 'ab'], ['S', 'b'])), val(B(8, ['S', 'a'], ['S', 'ab'])),
            val(B(9, B(6, ['S', 'a'], ['S', 'b']), ['S', 'ab'])),
        ]

    def gen_tree(self, depth_left, pextra):
        rng = self.rng
        r = rng.random()
        if depth_left == 0 or r < 0.2:
            x = rng.random()
            if x < 0.05:
                return ['E', rng.choice([9, 18])]
            if x < 0.11:
                return ['L', rng.choice(sorted(ERR_L) + sorted(ERR_R))]
            return ['L', rng.randrange(0, 200)]
        if r < 0.2 + pextra:
            return ['P', self.gen_tree(depth_left, 0.0) if rng.random() < 0.5 else self.gen_tree(depth_left - 1, pextra)]
        if r < 0.48:
            return ['U', rng.choice([1, 1, 2, 3, 3]), self.gen_tree(depth_left - 1, pextra)]
        return ['B', rng.randrange(1, 19), self.gen_tree(depth_left - 1, pextra), self.gen_tree(depth_left - 1, pextra)]

    def rand_toks(self, n):
        rng = self.rng
        out = []
        for _ in range(n):
            r = rng.random()
            if r < 0.35:
                out.append(['u', rng.choice([rng.randrange(0, 200)] * 4 + sorted(ERR_L) + sorted(ERR_R))])
            elif r < 0.75:
                out.append(['o', rng.choice(ALL_OPS + [NOT, 0xea, 0xe9, GT, EQ, LT])])
            elif r < 0.83:
                out.append(['('])
            elif r < 0.91:
                out.append([')'])
            elif r < 0.93:
                out.append([':', rng.choice([0x3a, 0])])
            elif r < 0.96:
                out.append([',', rng.choice([0x2c, 0x3b, 0x5d])])
            elif r < 0.98:
                out.append(['e', rng.choice([9, 18])])
            else:
                out.append(['j', rng.choice([0xcd, 0xcc, 0xcf, 0x23, 0x40])])
        return out

    SMALL = [0, 1, 2, 3, 4, 5, 7, 8, 10, 12, 100, 255, 256, 1000, 32767]
    # integers that only a single / only a double holds exactly: they make the working precision observable
    BIG = {1: [32768, 40000, 65536, 100000, 8388608, 16777215, 16777216],
           2: [32768, 40000, 16777216, 16777217, 16777219, 33554433, 123456789, 4294967297, (1 << 40) + 1,
               (1 << 53) - 1]}

    def num_leaf(self, t, pbig):
        rng = self.rng
        if t and rng.random() < pbig:
            return ['N', t, rng.choice(self.BIG[t])]
        return ['N', t, rng.choice(self.SMALL + [rng.randrange(0, 50)])]

    def gen_mixed(self):
        """Shallow mixed-precision expression: an arithmetic or relational operator on operands of different
        numeric types, the wider one on either side, with values that do not survive narrowing."""
        rng = self.rng

        def operand(t):
            x = self.num_leaf(t, 0.6)
            r = rng.random()
            if r < 0.15:
                return ['U', 1, x]
            if r < 0.25 and t == 0:
                return ['B', rng.randrange(8, 14), self.num_leaf(0, 0), self.num_leaf(rng.randrange(3), 0.3)]
            if r < 0.32:
                return ['P', x]
            return x
        for attempt in range(30):
            ta, tb = rng.choice([(0, 2), (2, 0), (1, 2), (2, 1), (0, 1), (1, 0), (0, 2), (1, 2), (2, 2)])
            o = rng.choice([6, 7, 6, 7, 8, 9, 10, 11, 12, 13, 8, 9, 10, 11, 12, 13, 2, 3])
            e = ['B', o, operand(ta), operand(tb)]
            if rng.random() < 0.25:
                e = ['B', rng.choice([6, 7, 9, 13, 8, 10]), e, operand(rng.randrange(3))] if rng.random() < 0.5 else \
                    ['B', rng.choice([6, 7, 9, 13, 8, 10]), operand(rng.randrange(3)), e]
            try:
                ref_eval(e, val_un, val_bin)
                return e
            except (OutOfDomain, BErr):
                continue
        return ['B', 9, ['N', 1, 16777216], ['N', 2, 16777217]]

    VAR_NAMES = {0: ['A%', 'B%', 'I%(0)', 'I%(3)'], 1: ['F!', 'G!', 'E!(1)'], 2: ['P#', 'Q#', 'D#(1)', 'D#(2)'],
                 3: ['S$', 'T$', 'U$(2)']}

    def gen_env(self):
        """A few variables / array elements of each type with values (leaves of 'var' trees)."""
        rng = self.rng
        env = []
        for _ in range(rng.choice([1, 2, 2, 3, 3, 4])):
            t = rng.choice([0, 1, 2, 2, 2, 1, 3])
            name = rng.choice(self.VAR_NAMES[t])
            if any(v[1] == name for v in env):
                continue
            if t == 3:
                env.append(['W', name, rng.choice(['', 'a', 'b', 'ab', 'A'])])
            else:
                x = self.num_leaf(t, 0.2)[2]
                if rng.random() < 0.3:
                    x = -x
                if x == 0 and rng.random() < 0.7:
                    x = rng.choice([2, 3, 5, 7])
                env.append(['V', name, t, x])
        if not env:
            env.append(['V', 'P#', 2, 7])
        return env

    def gen_var_tree(self, env, depth_left):
        rng = self.rng
        r = rng.random()
        if depth_left == 0 or r < 0.2:
            if rng.random() < 0.7:
                return rng.choice(env)
            return self.num_leaf(rng.choice([0, 0, 1, 2]), 0.1)
        if r < 0.27:
            return ['P', self.gen_var_tree(env, depth_left - 1)]
        for attempt in range(12):
            x = rng.random()
            if x < 0.14:
                e = ['F', rng.randrange(1, 8), self.gen_var_tree(env, depth_left - 1)]
            elif x < 0.3:
                e = ['U', rng.choice([1, 1, 2, 3]), self.gen_var_tree(env, depth_left - 1)]
            else:
                o = rng.choice([2, 2, 2, 3, 6, 6, 7, 7, 1, 4, 5] + list(range(8, 19)))
                e = ['B', o, self.gen_var_tree(env, depth_left - 1), self.gen_var_tree(env, depth_left - 1)]
            try:
                ref_eval(e, val_un, val_bin)
                return e
            except OutOfDomain:
                continue
            except BErr:
                if rng.random() < 0.3:
                    return e
        return rng.choice(env)

    def gen_var_case_tree(self):
        """Expression over variables that occur more than once (so that an operator writing its result into an
        operand is seen later in the same expression, on re-evaluation, or when the variable is read back)."""
        rng = self.rng
        for attempt in range(20):
            env = self.gen_env()
            if rng.random() < 0.35:
                nums = [v for v in env if v[0] == 'V'] or [['V', 'P#', 2, 7]]
                X = rng.choice(nums)
                Y = rng.choice(nums + [self.num_leaf(rng.randrange(3), 0.1)])
                o1, o2 = [rng.choice([2, 2, 3, 6, 7, 1, 4, 5, 8, 9, 14, 15]) for _ in range(2)]
                e = rng.choice([
                    ['B', o2, ['B', o1, X, Y], X], ['B', o1, ['B', o1, X, X], X], ['B', o2, X, ['B', o1, X, Y]],
                    ['B', o2, ['U', rng.choice([1, 3]), X], X], ['B', o2, ['F', rng.randrange(1, 8), X], X],
                    ['B', o1, ['F', rng.randrange(1, 8), X], Y], ['B', o1, ['P', X], ['P', X]],
                    ['F', rng.randrange(1, 8), ['B', o1, X, Y]]])
            else:
                e = self.gen_var_tree(env, rng.choice([1, 2, 2, 3, 3, 4]))
            if not variables_of(e):
                continue
            try:
                ref_eval(e, val_un, val_bin)
                return e
            except OutOfDomain:
                continue
            except BErr:
                if rng.random() < 0.3:
                    return e
        return ['B', 6, ['B', 2, ['V', 'P#', 2, 3], ['N', 0, 2]], ['V', 'P#', 2, 3]]

    def gen_str_tree(self, env, depth_left):
        """String-valued tree: literals, string variables, temporaries (results of +, CHR$, STR$, LEFT$, RIGHT$,
        MID$) and explicit parentheses anywhere - a temporary operand waits on the stack while a later
        parenthesised sub-expression is evaluated."""
        rng = self.rng
        svars = [v for v in env if v[0] == 'W']
        nvars = [v for v in env if v[0] == 'V' and abs(v[3]) <= 999999]
        r = rng.random()
        if depth_left == 0 or r < 0.25:
            x = rng.random()
            if x < 0.3:
                return ['S', rng.choice(['', 'a', 'b', 'ab', 'ba', 'A', 'abc', 'x1', 'x2'])]
            if x < 0.6 and svars:
                return rng.choice(svars)
            if x < 0.8:
                return ['G', 8, ['N', rng.choice([0, 0, 1]), rng.randrange(65, 91)], 0, 0]
            arg = rng.choice(nvars) if nvars and rng.random() < 0.5 else ['N', rng.choice([0, 1, 2]), rng.randrange(0, 1000)]
            return ['G', 9, ['U', 1, arg] if rng.random() < 0.2 else arg, 0, 0]
        if r < 0.5:
            return ['P', self.gen_str_tree(env, depth_left - 1)]
        if r < 0.65:
            f = rng.choice([10, 11, 12])
            return ['G', f, self.gen_str_tree(env, depth_left - 1), rng.randrange(0 if f != 12 else 1, 5), rng.randrange(0, 4)]
        return ['B', 6, self.gen_str_tree(env, depth_left - 1), self.gen_str_tree(env, depth_left - 1)]

    def gen_str_case_tree(self):
        rng = self.rng
        env = [v for v in self.gen_env()] + [['W', rng.choice(['S$', 'T$', 'U$(2)']), rng.choice(['x', 'y', 'ab', ''])]]
        names = set()
        env = [v for v in env if not (v[1] in names or names.add(v[1]))]
        for attempt in range(20):
            a = self.gen_str_tree(env, rng.choice([1, 2, 2, 3, 3, 4]))
            r = rng.random()
            if r < 0.5:
                e = a
            else:
                b = self.gen_str_tree(env, rng.choice([1, 2, 3]))
                e = ['B', rng.randrange(8, 14), a, b]
                if r > 0.9:
                    e = ['B', rng.choice([6, 7, 14, 9]), e, rng.choice([['N', 0, 1], ['P', e]])]
            try:
                ref_eval(e, val_un, val_bin)
                return e
            except (OutOfDomain, BErr):
                continue
        return ['B', 6, ['B', 6, ['W', 'S$', 'x'], ['W', 'T$', 'y']], ['P', ['B', 6, ['W', 'T$', 'y'], ['W', 'S$', 'x']]]]

    def gen_val_tree(self, depth_left, pextra):
        """Typed tree whose reference evaluation stays in the exact domain (or raises a BASIC error)."""
        rng = self.rng
        r = rng.random()
        if depth_left == 0 or r < 0.2:
            x = rng.random()
            if x < 0.13:
                return ['S', rng.choice(['', 'a', 'b', 'ab', 'ba', 'A', 'abc'])]
            return self.num_leaf(rng.choice([0, 0, 0, 1, 1, 2]), 0.25)
        if r < 0.2 + pextra:
            return ['P', self.gen_val_tree(depth_left - 1, pextra)]
        for attempt in range(12):
            if rng.random() < 0.3:
                e = ['U', rng.choice([1, 1, 2, 3, 3]), self.gen_val_tree(depth_left - 1, pextra)]
            else:
                e = ['B', rng.randrange(1, 19), self.gen_val_tree(depth_left - 1, pextra),
                     self.gen_val_tree(depth_left - 1, pextra)]
            try:
                ref_eval(e, val_un, val_bin)
                return e
            except OutOfDomain:
                continue
            except BErr:
                # a type mismatch below: keep some of them
                if rng.random() < 0.5:
                    return e
        return ['N', 0, rng.randrange(0, 10)]

    def gen_cases(self, n):
        rng = self.rng
        hist = {'tree': 0, 'tree_full_parens': 0, 'tree_raises': 0, 'toks_random': 0, 'toks_mutated': 0, 'val': 0,
                'val_error': 0, 'depth': {}, 'binop': {}, 'unop': {}}
        out = []

        def note(e):
            d = depth(e)
            hist['depth'][d] = hist['depth'].get(d, 0) + 1
            stack = [e]
            while stack:
                x = stack.pop()
                if x[0] == 'B':
                    hist['binop'][BIN_COQ[x[1]]] = hist['binop'].get(BIN_COQ[x[1]], 0) + 1
                    stack += [x[2], x[3]]
                elif x[0] == 'U':
                    hist['unop'][UN_COQ[x[1]]] = hist['unop'].get(UN_COQ[x[1]], 0) + 1
                    stack.append(x[2])
                elif x[0] == 'P':
                    stack.append(x[1])
        for i in range(n):
            sel = i % 20
            alt = [rng.randrange(2) for _ in range(3)]
            bl = rng.choice([0, 0, rng.getrandbits(30)])
            if sel in (8, 15):
                e = self.gen_str_case_tree()
                out.append({'k': 'var', 'e': e, 'alt': alt, 'bl': bl})
                hist['var_strings'] = hist.get('var_strings', 0) + 1
                note(e)
            elif sel in (9, 10):
                e = self.gen_var_case_tree()
                out.append({'k': 'var', 'e': e, 'alt': alt, 'bl': bl})
                hist['var'] = hist.get('var', 0) + 1
                note(e)
            elif sel < 11:
                e = self.gen_tree(rng.choice([1, 2, 3, 4, 5, 6, 6]), rng.choice([0, 0, 0.12, 0.3]))
                if rng.random() < 0.15:
                    e = par_all(e)
                    hist['tree_full_parens'] += 1
                tail = rng.choice(TAILS)
                out.append({'k': 'tree', 'e': e, 'tail': tail, 'alt': alt, 'bl': bl})
                hist['tree'] += 1
                note(e)
                try:
                    ref_eval(e, rec_un, rec_bin)
                except BErr:
                    hist['tree_raises'] += 1
            elif sel < 12:
                out.append({'k': 'trail', 'e': self.gen_tree(rng.choice([0, 1, 2, 3]), 0.1), 'o': rng.randrange(1, 19),
                            'inner': rng.randrange(2), 'end': rng.choice([[], [[':']], [[',']], [[')']], [[',', 0x3b]]]),
                            'alt': alt, 'bl': bl})
                hist['trailing_operator'] = hist.get('trailing_operator', 0) + 1
            elif sel < 13:
                out.append({'k': 'toks', 't': self.rand_toks(rng.randrange(0, 10)), 'bl': bl})
                hist['toks_random'] += 1
            elif sel < 15:
                e = self.gen_tree(rng.choice([1, 2, 3, 4]), 0.1)
                t = pr(e, alt)
                for _ in range(rng.randrange(1, 3)):
                    r = rng.random()
                    if t and r < 0.4:
                        del t[rng.randrange(len(t))]
                    elif r < 0.8:
                        t.insert(rng.randrange(len(t) + 1), self.rand_toks(1)[0])
                    elif t:
                        t[rng.randrange(len(t))] = self.rand_toks(1)[0]
                out.append({'k': 'toks', 't': t, 'bl': bl})
                hist['toks_mutated'] += 1
            else:
                if sel >= 18:
                    e = self.gen_mixed()
                    hist['val_mixed_precision'] = hist.get('val_mixed_precision', 0) + 1
                else:
                    e = self.gen_val_tree(rng.choice([1, 2, 3, 4, 5, 6]), rng.choice([0, 0, 0.15]))
                if rng.random() < 0.1:
                    e = par_all(e)
                out.append({'k': 'val', 'e': e, 'alt': alt, 'bl': bl})
                hist['val'] += 1
                note(e)
                try:
                    ref_eval(e, val_un, val_bin)
                except BErr:
                    hist['val_error'] += 1
        hist['depth'] = {str(k): v for k, v in sorted(hist['depth'].items())}
        self.histogram = hist
        return out

    # ---- implementation
    def session(self):
        n = self.__dict__.get('_uses', 0)
        s = self.__dict__.get('_sess')
        if s is None or n >= 300:
            if s is not None:
                try:
                    s.close()
                except Exception:
                    pass
            s = common.new_session()
            s.start()
            self._sess = s
            n = 0
        self._uses = n + 1
        return s

    def tokens_of(self, case):
        if case['k'] == 'toks':
            return case['t']
        if case['k'] == 'trail':
            # ( e ) o <end>   or   ( ( e ) o )
            t = pr(['P', case['e']], case['alt']) + [['o', b] for b in spelling(case['o'], case['alt'])]
            return [['(']] + t + [[')']] if case['inner'] else t + case['end']
        return pr(case['e'], case['alt']) + case.get('tail', [])

    def impl(self, case):
        from pcbasic.basic.base import codestream
        toks = self.tokens_of(case)
        s = self.session()
        if case['k'] == 'val':
            return self.impl_val(s, case, toks)
        if case['k'] == 'var':
            return self.impl_var(s, case, toks)
        data, starts = render_bytes(toks, case['bl'])
        ins = codestream.TokenisedStream()
        ins.write(data)
        ins.seek(0)
        ep = s._impl.parser.expression_parser
        try:
            with core.time_limit(20):
                with patched():
                    v = ep.parse(ins)
            pos = ins.tell()
            res = [0, len([x for x in starts if x >= pos])] + as_enc(v)
        except Exception as e:
            res = common.canon_exc(e)
        return [len(toks)] + res

    @staticmethod
    def literal(v):
        t, x = v
        if t == STR:
            return b'"' + x + b'"'
        return b'%d' % x + [b'%', b'!', b'#'][t]

    def impl_var(self, s, case, toks):
        """Assign the variables, evaluate the expression twice, read every variable back."""
        env = variables_of(case['e'])
        names = sorted(env)
        if names:
            with core.time_limit(20):
                msg = s.execute(b':'.join(n.encode('latin-1') + b'=' + self.literal(env[n]) for n in names))
            if msg:
                raise RuntimeError('assignment failed: %r' % msg)
        plain = dict(case, k='val')
        r1 = self.impl_val(s, plain, toks)
        r2 = self.impl_val(s, plain, toks)
        out = [len(toks), len(r1) - 1] + r1[1:] + [len(r2) - 1] + r2[1:]
        for n in names:
            r = self.impl_val(s, {'k': 'val', 'bl': 0}, [['v', n, 0, 0]])
            out += [len(r) - 1] + r[1:]
        return out

    def impl_val(self, s, case, toks):
        text = render_text(toks, case['bl'])
        imp = s._impl
        try:
            with core.time_limit(20):
                ins = imp.tokeniser.tokenise_line(b'?' + text)
                ins.read(2)
                v = imp.parser.parse_expression(ins)
                rest = ins.read()
            tname = type(v).__name__
            pv = v.to_value()
            if tname == 'String':
                enc = [3, len(pv)] + list(pv)
            else:
                t = {'Integer': 0, 'Single': 1, 'Double': 2}[tname]
                if pv != int(pv):
                    return [len(toks), 2, 99]            # non-integral result: outside the modelled domain
                enc = [t, int(pv)]
            res = [0, 0 if not rest.strip() else 1] + enc
        except Exception as e:
            res = common.canon_exc(e)
        return [len(toks)] + res

    # ---- model
    def model_term(self, case):
        k = case['k']
        if k in ('toks', 'trail'):
            t = coq_toks(self.tokens_of(case))
            return '(let t := %s in zlen t :: tr_enc (tr_parse t))' % t
        alt = coq_alt(case['alt'])
        if k == 'tree':
            return '(let t := tr_pr %s %s ++ %s in zlen t :: tr_enc (tr_parse t))' % (
                alt, coq_expr(case['e']), coq_toks(case['tail']))
        if k == 'var':
            env = variables_of(case['e'])
            after = []
            for n in sorted(env):
                v = [0, 0] + enc_val(env[n])
                after += [len(v)] + v
            return ('(let t := v_pr %s %s in let r := v_enc (v_parse t) in '
                    'zlen t :: (zlen r :: r) ++ (zlen r :: r) ++ %s)' % (alt, coq_expr(case['e']), core.zl(after)))
        return '(let t := v_pr %s %s in zlen t :: v_enc (v_parse t))' % (alt, coq_expr(case['e']))

    # ---- oracle: the property read on the tree
    def oracle(self, case, out):
        k = case['k']
        if k == 'var':
            return self.oracle_var(case, out)
        if out[1:2] == [2]:
            return 'host exception %s escapes from expression evaluation' % out[1:]
        if k == 'toks':
            if out[1] == 1 and out[2] not in (2, 22, 9, 18) + tuple(ERR_L.values()) + tuple(ERR_R.values()):
                return 'unexpected error %d for an ill-formed expression' % out[2]
            return None
        e = case['e']
        if k == 'var':
            return self.oracle_var(case, out)
        if k == 'trail':
            # a missing operand raises the corresponding error, after what precedes it has been evaluated
            try:
                ref_eval(e, rec_un, rec_bin)
                exp = [1, 2 if case['inner'] or case['end'][:1] in ([[',']], [[')']], [[',', 0x3b]]) else 22]
            except BErr as x:
                exp = [1, x.n]
            if out[1:] != exp:
                return 'operator without right operand in %s gives %s, expected %s' % (self.tokens_of(case), out[1:], exp)
            return None
        try:
            if k == 'tree':
                exp = [0, len(case['tail'])] + ref_eval(e, rec_un, rec_bin)
            else:
                exp = [0, 0] + enc_val(ref_eval(e, val_un, val_bin))
        except BErr as x:
            exp = [1, x.n]
        except OutOfDomain:
            return None
        if out[1:] != exp:
            return 'expression %s evaluates to %s, its operator tree gives %s' % (
                (render_text(self.tokens_of(case), 0) if k == 'val' else self.tokens_of(case)), out[1:], exp)
        return None

    def oracle_var(self, case, out):
        """The expression evaluates like its operator tree over the values of the variables, evaluating it
        again gives the same, and evaluating it does not change its operands."""
        e = case['e']
        text = render_text(self.tokens_of(case), 0)
        n1 = out[1]
        r1 = out[2:2 + n1]
        n2 = out[2 + n1]
        r2 = out[3 + n1:3 + n1 + n2]
        pos = 3 + n1 + n2
        env = variables_of(e)
        for r in (r1, r2):
            if r[:1] == [2]:
                return 'host exception %s escapes from %s' % (r, text)
        try:
            exp = [0, 0] + enc_val(ref_eval(e, val_un, val_bin))
        except BErr as x:
            exp = [1, x.n]
        except OutOfDomain:
            exp = None
        setup = b':'.join(n.encode('latin-1') + b'=' + self.literal(env[n]) for n in sorted(env))
        if exp is not None and r1 != exp:
            return 'after %s the expression %s evaluates to %s, its operator tree gives %s' % (setup, text, r1, exp)
        for n in sorted(env):
            ln = out[pos]
            got = out[pos + 1:pos + 1 + ln]
            pos += 1 + ln
            want = [0, 0] + enc_val(env[n])
            if got != want:
                return 'after %s evaluating %s changed its operand %s to %s' % (setup, text, n, got[2:])
        if r2 != r1:
            return 'after %s evaluating %s twice gives %s then %s' % (setup, text, r1, r2)
        return None

    # ---- shrinking of failing cases (tree-aware; the default would cut the nested lists blindly)
    def shrink_candidates(self, case):
        if case['k'] == 'toks':
            t = case['t']
            for i in range(len(t)):
                yield dict(case, t=t[:i] + t[i + 1:], bl=0)
            return
        leaf = ['N', 0, 1] if case['k'] in ('val', 'var') else ['L', 1]

        def subtrees(e):
            if e[0] in ('P', 'U', 'F'):
                yield e[-1]
                for x in subtrees(e[-1]):
                    yield x
            elif e[0] == 'G':
                yield e[2]
                for x in subtrees(e[2]):
                    yield x
            elif e[0] == 'B':
                for c in (e[2], e[3]):
                    yield c
                    for x in subtrees(c):
                        yield x

        def replaced(e):
            # e with one proper subtree replaced by a leaf, or one P / U node removed
            if e[0] in ('P', 'U', 'F'):
                if e[-1][0] in ('P', 'U', 'B', 'F'):
                    yield e[:-1] + [leaf]
                for x in replaced(e[-1]):
                    yield e[:-1] + [x]
            elif e[0] == 'G':
                for x in replaced(e[2]):
                    yield e[:2] + [x] + e[3:]
            elif e[0] == 'B':
                for i in (2, 3):
                    if e[i][0] in ('P', 'U', 'B', 'F'):
                        yield e[:i] + [leaf] + e[i + 1:]
                    for x in replaced(e[i]):
                        yield e[:i] + [x] + e[i + 1:]
        e = case['e']
        if case.get('tail') or case.get('bl'):
            yield dict(case, tail=[], bl=0) if case['k'] == 'tree' else dict(case, bl=0)
        for x in subtrees(e):
            yield dict(case, e=x)
        for x in replaced(e):
            yield dict(case, e=x)

    def nontrivial(self, case, out):
        if case['k'] == 'var':
            return out[2] == 0 and count_ops(case['e']) > 0
        return (out[1] == 0 and (case['k'] == 'toks' or count_ops(case['e']) > 0)) or case['k'] == 'trail'


CHECK = C18
