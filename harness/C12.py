"""C12 - Array subscripts address distinct elements within declared bounds."""
import itertools
import struct

from vlib import core
from harness import common
from harness import arrays_util as au


class C12(core.Check):
    ID = 'C12'
    GEN = ['gen_arrays']
    PROPS = 'props/C12.v'
    MODEL_IMPORTS = ['gen.Gen_arrays', 'model.Arrays']
    QUICK_CASES = 700
    THOROUGH_CASES = 5000
    TRUSTED = ['hand model model/Arrays.v of the control flow of Arrays.allocate/check_dim/erase_/option_base_/'
               'view_buffer (dict bookkeeping, bytearray slices) tied by correspondence through a real Session; '
               'the index / size / layout / subscript-classification arithmetic is regenerated from the AST; '
               'subscript expression evaluation (values.to_int) and number formats are other properties; '
               'free memory (strings.current - var_current) is an input of every operation']
    RULE = ('shape cases: every subscript tuple of every array with <= 3 dimensions and bounds <= 4 (quick: '
            'explicit base 0 thinned out for rank 3) under OPTION BASE unset/0/1 is written with a unique value, read '
            'back, probed outside the bounds and with the wrong rank, and read back again; big cases: 1-4 '
            'dimensions with bounds <= 30, corner and off-by-one tuples; hist cases: random DIM/ERASE/OPTION '
            'BASE/CLEAR/assign/read histories with a malformed stream, executed as BASIC statements in a real '
            'Session. Compared: error number or element bytes of every step and the final shape table. '
            'non-trivial = at least one successful read of a written element; distinct by hash')
    histogram = None

    def __init__(self, tier, seed):
        core.Check.__init__(self, tier, seed)
        self.sess = au.Sess()
        self._traces = {}

    # ------------------------------------------------------------------ cases
    def corpus(self):
        c = []
        # auto-dimension to 10, then the bounds are fixed even though the first access failed
        c.append({'k': 'hist', 'ops': [['get', 'A%', [11]], ['get', 'A%', [10]], ['set', 'A%', [10], 5],
                                       ['get', 'A%', [10]], ['dim', [['A%', [20]]]], ['erase', ['A%']],
                                       ['dim', [['A%', [20]]]], ['get', 'A%', [20]]]})
        # implicit base by DIM is unset again by erasing the last array; explicit base stays
        c.append({'k': 'hist', 'ops': [['dim', [['A', [3]]]], ['base', 1], ['erase', ['A']], ['base', 1],
                                       ['dim', [['A', [0]]]], ['dim', [['A', [1]]]], ['get', 'A', [0]],
                                       ['erase', ['A']], ['base', 0], ['base', 1]]})
        # negative before out-of-range in scan order, wrong rank first
        c.append({'k': 'hist', 'ops': [['dim', [['B#', [2, 2]]]], ['get', 'B#', [3, -1]], ['get', 'B#', [-1, 3]],
                                       ['get', 'B#', [-1]], ['get', 'B#', [1, 1, 1]], ['get', 'B#', [2, 2]]]})
        # Out of memory still sets the implicit base; exact boundary of the memory test
        c.append({'k': 'hist', 'ops': [['dim', [['A', [200, 200]]]], ['base', 1], ['base', 0],
                                       ['dim', [['A%', [30145]]]], ['dim', [['A%', [30144]]]],
                                       ['get', 'A%', [30144]], ['get', 'A%', [30145]]]})
        # DIM list stops at the first error, ERASE list too; names of 1..40 characters
        long = 'L' + 'ONGNAME.9' * 4 + 'XYZ'
        c.append({'k': 'hist', 'ops': [['dim', [['A$', [1]], ['A$', [1]], ['C%', [1]]]], ['get', 'C%', [1]],
                                       ['erase', ['A$', 'Q%', 'C%']], ['get', 'C%', [10]],
                                       ['dim', [[long + '%', [2, 1]]]], ['set', long + '%', [2, 1], -2],
                                       ['get', long + '%', [2, 1]], ['dim', [['X', []]]], ['dim', [['X', [-1]]]],
                                       ['clear'], ['get', long + '%', [2, 1]]]})
        # one DIM statement dimensions its arrays one by one, left to right: a later bound may read an element
        # of an earlier array; when a later item fails while its bound is evaluated (Overflow, Type mismatch)
        # the earlier arrays stay dimensioned with their declared bounds (seed C12e)
        c.append({'k': 'hist', 'ops': [['dimx', [['N%', [20]], ['M%', [['el', 'N%', [20], 12]]]]],
                                       ['set', 'N%', [20], 5], ['set', 'M%', [12], 3], ['get', 'N%', [20]],
                                       ['get', 'M%', [12]], ['get', 'M%', [13]]]})
        c.append({'k': 'hist', 'ops': [['dimx', [['A', [20]], ['B', [['ovf']]]]], ['set', 'A', [15], [1, 2, 3, 129]],
                                       ['get', 'A', [20]], ['get', 'A', [21]], ['dim', [['A', [5]]]],
                                       ['erase', ['A']], ['dim', [['A', [5]]]], ['get', 'A', [5]], ['get', 'B', [11]]]})
        c.append({'k': 'hist', 'ops': [['dimx', [['C%', [12, 1]], ['D$', [3, ['tm']]], ['A%', [1]]]],
                                       ['get', 'C%', [12, 1]], ['get', 'A%', [10]],
                                       ['dimx', [['X.1$', [['el', 'Q%', [3], 2]]], ['AB%', [['el', 'Q%', [11], 0]]]]],
                                       ['get', 'X.1$', [2]], ['get', 'Q%', [10]], ['get', 'AB%', [0]]]})
        # a DIM that fails with a negative bound must not fix the implicit base: OPTION BASE 1 is still accepted
        # (seed C12f), also as a later item of a DIM statement and after ERASE of the last array
        c.append({'k': 'hist', 'ops': [['dim', [['A', [-1]]]], ['base', 1], ['dim', [['A', [0]]]], ['dim', [['A', [1]]]],
                                       ['get', 'A', [0]], ['get', 'A', [1]], ['erase', ['A']], ['clear'],
                                       ['dim', [['B%', [2, -3]]]], ['base', 1], ['base', 0]]})
        c.append(self.shape_case(None, 'A%', [2, 3]))
        c.append(self.shape_case(1, 'B!', [1, 1, 1]))
        c.append(self.shape_case(1, 'B$', [2, 0]))
        return c

    def shape_case(self, base, name, dims):
        return {'k': 'shape', 'base': base, 'name': name, 'dims': list(dims)}

    def shape_ops(self, case):
        """All in-bounds tuples written with unique values, read, probed outside, read again."""
        base, name, dims = case['base'], case['name'], case['dims']
        b = base or 0
        ops = []
        if base is not None:
            ops.append(['base', base])
        ops.append(['dim', [[name, dims]]])
        t = au.complete(name)[-1]
        tuples = list(itertools.product(*[range(b, d + 1) for d in dims])) if all(d >= b for d in dims) else []
        for k, tup in enumerate(tuples):
            if t == '%':
                v = 1000 + k
            elif t == '!':
                v = [k % 256, k // 256, 1, 129]
            elif t == '#':
                v = [k % 256, k // 256, 1, 2, 3, 4, 5, 129]
            else:
                v = 'T%d' % k
            ops.append(['set', name, list(tup), v])
        reads = [['get', name, list(tup)] for tup in tuples]
        ops += reads
        probes = []
        for j, d in enumerate(dims):
            for bad in (d + 1, b - 1, -1, 32767):
                tup = [b if dd >= b else dd for dd in dims]
                tup[j] = bad
                probes.append(['get', name, tup])
                probes.append(['set', name, tup, self.some_value(t)])
        probes.append(['get', name, [b] * (len(dims) + 1)])
        if len(dims) > 1:
            probes.append(['set', name, [b] * (len(dims) - 1), self.some_value(t)])
        ops += probes
        ops += reads
        return ops

    @staticmethod
    def some_value(t):
        return {'%': -1, '!': [255] * 4, '#': [255] * 8, '$': 'ZZ'}[t]

    def big_ops(self, rng, name, base, dims):
        b = base or 0
        ops = []
        if base is not None:
            ops.append(['base', base])
        ops.append(['dim', [[name, dims]]])
        t = au.complete(name)[-1]
        corners = list(itertools.product(*[sorted(set([b, d])) for d in dims]))
        inner = [tuple(rng.randint(b, d) for d in dims) for _ in range(6)]
        tuples = list(dict.fromkeys(corners + inner))
        for k, tup in enumerate(tuples):
            ops.append(['set', name, list(tup), au.rand_value(rng, name, k)])
        for tup in tuples:
            ops.append(['get', name, list(tup)])
            for j, d in enumerate(dims):
                for delta in (1, -1):
                    q = list(tup)
                    q[j] += delta
                    if rng.random() < 0.35:
                        ops.append(['get', name, q])
        return ops

    NAMES = ['A%', 'B!', 'C#', 'D$', 'A', 'A#', 'AB%', 'ABC!', 'X.1$', 'N234567890123456789012345678901234567890%']

    def hist_ops(self, rng):
        ops = []
        names = rng.sample(self.NAMES, rng.randint(2, 4))
        counter = [0]

        def dims():
            r = rng.random()
            rank = 1 if r < 0.5 else 2 if r < 0.8 else 3 if r < 0.95 else 4
            ds = [rng.choice([0, 1, 1, 2, 2, 3, 4, 5, 10, 11]) for _ in range(rank)]
            if rng.random() < 0.06:
                ds[rng.randrange(rank)] = rng.choice([-1, -2, 0])
            return ds

        def index(rank):
            r = rng.random()
            if r < 0.08:
                rank = max(1, rank + rng.choice([-1, 1]))
            return [rng.choice([0, 0, 1, 1, 2, 2, 3, 4, 5, 9, 10, 11, -1, 12]) if rng.random() < 0.5
                    else rng.randint(0, 3) for _ in range(rank)]
        ranks = {}
        if rng.random() < 0.12:
            # a failing first DIM (negative bound), then OPTION BASE
            a = rng.choice(names)
            ops.append(['dim', [[a, [rng.choice([-1, -2]) if rng.random() < 0.7 else 3, -1][:rng.choice([1, 2])]]]])
            ops.append(['base', rng.choice([0, 1, 1])])
        n = rng.randint(6, 28)
        for _ in range(n):
            r = rng.random()
            nm = rng.choice(names)
            if r < 0.12:
                args = []
                for _k in range(rng.choice([1, 1, 1, 2, 3])):
                    a = rng.choice(names)
                    d = dims() if rng.random() < 0.95 else []
                    ranks[a] = len(d) or ranks.get(a, 1)
                    args.append([a, d])
                ops.append(['dim', args])
            elif r < 0.2:
                ops.append(['erase', [rng.choice(names) for _k in range(rng.choice([1, 1, 2]))]])
            elif r < 0.27:
                ops.append(['base', rng.choice([0, 1])])
            elif r < 0.29:
                ops.append(['clear'])
            elif r < 0.35:
                # DIM of several arrays with bound expressions (constants, element reads, failing items)
                ints = [a for a in self.NAMES if a.endswith('%')]
                items = []
                for _k in range(rng.choice([2, 2, 3])):
                    a = rng.choice(names)
                    bs = []
                    for _j in range(rng.choice([1, 1, 2])):
                        q = rng.random()
                        if q < 0.7:
                            bs.append(rng.choice([0, 1, 2, 3, 5, 10, 11, 12, 15, 20]))
                        elif q < 0.88:
                            prev = [it for it in items if it[0].endswith('%') and all(isinstance(x, int) for x in it[1])]
                            if prev and rng.random() < 0.7:
                                src, sidx = prev[-1][0], list(prev[-1][1])
                            else:
                                src = rng.choice(ints)
                                sidx = index(ranks.setdefault(src, 1))
                            bs.append(['el', src, sidx, rng.choice([0, 2, 12])])
                        else:
                            bs.append([rng.choice(['ovf', 'ovf', 'tm'])])
                    ranks[a] = len(bs)
                    items.append([a, bs])
                ops.append(['dimx', items])
                for a, bs in items:
                    if all(isinstance(x, int) for x in bs) and rng.random() < 0.8:
                        ops.append(['get', a, list(bs)])
            elif r < 0.65:
                rk = ranks.setdefault(nm, rng.choice([1, 1, 2, 3]))
                counter[0] += 1
                ops.append(['set', nm, index(rk), au.rand_value(rng, nm, counter[0])])
            else:
                rk = ranks.setdefault(nm, rng.choice([1, 1, 2, 3]))
                ops.append(['get', nm, index(rk)])
        return ops

    def gen_cases(self, n):
        rng = self.rng
        out = []
        hist = {'shape': 0, 'big': 0, 'hist': 0, 'tuples_exhaustive': 0}
        maxb = 4
        types = ['%', '!', '#', '$']
        k = 0
        for base in (None, 0, 1):
            lo = base or 0
            for rank in (1, 2, 3):
                top = maxb
                for dims in itertools.product(range(0, top + 1), repeat=rank):
                    if base == 1 and any(d < 1 for d in dims) and rng.random() < 0.8:
                        continue
                    # unset and explicit 0 behave the same for in-bounds tuples: thin out one of them
                    if base == 0 and rank == 3 and self.tier != 'thorough' and rng.random() < 0.5:
                        continue
                    k += 1
                    out.append(self.shape_case(base, 'A' + types[k % 4], dims))
                    hist['shape'] += 1
                    if all(d >= lo for d in dims):
                        p = 1
                        for d in dims:
                            p *= d + 1 - lo
                        hist['tuples_exhaustive'] += p
        nbig = max(20, n // 10)
        for _ in range(nbig):
            rank = rng.choice([1, 2, 2, 3, 3, 4])
            name = rng.choice(self.NAMES)
            size = au.SIZE[au.complete(name)[-1]]
            while True:
                dims = [rng.choice([30, 29, 17, 8, 5, 2, 1, rng.randint(1, 30)]) for _ in range(rank)]
                p = 1
                for d in dims:
                    p *= d + 1
                if p * size <= 24000:
                    break
            out.append({'k': 'hist', 'ops': self.big_ops(rng, name, rng.choice([None, 0, 1]), dims)})
            hist['big'] += 1
        while len(out) < n:
            out.append({'k': 'hist', 'ops': self.hist_ops(rng)})
            hist['hist'] += 1
        rng.shuffle(out)
        self.histogram = hist
        return out

    def ops_of(self, case):
        return self.shape_ops(case) if case['k'] == 'shape' else case['ops']

    # ------------------------------------------------------------------ DIM with bound expressions
    # ['dimx', [[name, [bound, ...]], ...]] is ONE statement DIM a(b1,b2), c(b3), ...; a bound is an int,
    # ['el', name, idx, add] (the expression name(idx)+add, reading an integer array element),
    # ['ovf'] (40000: Overflow when the bound is evaluated) or ['tm'] ("x": Type mismatch).
    @staticmethod
    def bound_text(b):
        if isinstance(b, int):
            return str(b)
        if b[0] == 'el':
            return '%s%s+%d' % (b[1], au.subs(b[2]), b[3])
        return '40000' if b[0] == 'ovf' else '"x"'

    def dimx_text(self, op):
        return 'DIM ' + ','.join('%s(%s)' % (nm, ','.join(self.bound_text(b) for b in bs)) for nm, bs in op[1])

    @staticmethod
    def dimx_seq(op, ref, free):
        """The statement under the language rule 'each array is dimensioned before the bounds of the next one
        are evaluated': the primitive operations it performs on the reference `ref` (which is updated), the
        evaluation error that ends it (or None) and its error number."""
        sub = []
        for nm, bs in op[1]:
            vals = []
            for b in bs:
                if isinstance(b, int):
                    vals.append(b)
                elif b[0] == 'el':
                    sub.append(['get', b[1], b[2]])
                    e, by = ref.get(au.complete(b[1]), b[2], free)
                    if e:
                        return sub, None, e
                    v = struct.unpack('<h', bytes(by))[0] + b[3]
                    if not -32768 <= v <= 32767:
                        return sub, 6, 6
                    vals.append(v)
                else:
                    e = 6 if b[0] == 'ovf' else 13
                    return sub, e, e
            sub.append(['dim', [[nm, vals]]])
            e = ref.dim(au.complete(nm), vals, free)
            if e:
                return sub, None, e
        return sub, None, 0

    # ------------------------------------------------------------------ implementation
    def trace(self, case):
        key = core.sha(case)
        if key not in self._traces:
            self._traces[key] = self._trace(case)
        return self._traces[key]

    def _trace(self, case):
        """Run the history through a real Session; per step: (error, free before, bytes, printed text)."""
        s = self.sess.fresh()
        m = s._impl.memory
        tr = []
        with core.time_limit(120):
            for op in self.ops_of(case):
                free = m.strings.current - m.var_current()
                err, b, text = 0, None, None
                kind = op[0]
                if kind == 'dim':
                    err, _ = self.sess.run('DIM ' + ','.join(nm + (au.subs(d) if d else '') for nm, d in op[1]))
                elif kind == 'dimx':
                    err, _ = self.sess.run(self.dimx_text(op))
                elif kind == 'erase':
                    err, _ = self.sess.run('ERASE ' + ','.join(op[1]))
                elif kind == 'base':
                    err, _ = self.sess.run('OPTION BASE %d' % op[1])
                elif kind == 'clear':
                    err, _ = self.sess.run('CLEAR')
                elif kind == 'set':
                    nm, idx, val = op[1], op[2], op[3]
                    err, _ = self.sess.run('%s%s=%s' % (nm, au.subs(idx), au.value_expr(nm, val)))
                    if not err:
                        b = list(bytearray(m.arrays.view_buffer(au.complete(nm).encode('ascii'), list(idx))))
                elif kind == 'get':
                    nm, idx = op[1], op[2]
                    err, text = self.sess.value('%s%s' % (nm, au.subs(idx)))
                    if not err:
                        b = list(bytearray(m.arrays.view_buffer(au.complete(nm).encode('ascii'), list(idx))))
                else:
                    raise ValueError(kind)
                tr.append((err, free, b, text))
            a = m.arrays
            shape = [-1 if a._base is None else a._base, int(a._base_set_by_dim), a.current, len(a._dims)]
            for nm, d in a._dims.items():
                np_, ap_ = a._array_memory[nm]
                shape += [len(nm)] + list(bytearray(nm)) + [len(d)] + list(d) + [np_, ap_, len(a._buffers[nm])]
        return tr, shape

    def impl(self, case):
        tr, shape = self.trace(case)
        out = []
        for op, (err, free, b, text) in zip(self.ops_of(case), tr):
            if err:
                e = [1, err]
            elif op[0] == 'get':
                e = [0] + b
            else:
                e = [0]
            out += [len(e)] + e
        return out + shape

    # ------------------------------------------------------------------ model
    def prim_term(self, op, free, b):
        kind = op[0]
        z = core.zl([free])[1:-1]
        if kind == 'dim':
            return 'ODim %s [%s]' % (z, ';'.join('(%s,%s)' % (au.cname(nm), au.czl(d)) for nm, d in op[1]))
        if kind == 'erase':
            return 'OErase [%s]' % ';'.join(au.cname(nm) for nm in op[1])
        if kind == 'base':
            return 'OBase %d' % op[1]
        if kind == 'clear':
            return 'OClear'
        if kind == 'set':
            nm, idx, val = op[1], op[2], op[3]
            v = au.value_bytes(nm, val)
            if v is None:
                v = b if b is not None else [0, 0, 0]      # string descriptor: opaque, as stored
            return 'OSet %s %s %s %s' % (z, au.cname(nm), au.czl(idx), au.czl(v))
        return 'OGet %s %s %s' % (z, au.cname(op[1]), au.czl(op[2]))

    def model_term(self, case):
        tr, _ = self.trace(case)
        terms = []
        ref = au.RefArrays()      # only to decompose DIM statements with bound expressions
        for op, (err, free, b, text) in zip(self.ops_of(case), tr):
            if op[0] == 'dimx':
                sub, tail, _ = self.dimx_seq(op, ref, free)
                terms.append('XSeq [%s] %s' % (';'.join(self.prim_term(o, free, None) for o in sub),
                                               'None' if tail is None else '(Some %d)' % tail))
            else:
                self.ref_step(ref, op, free, b)
                terms.append('XOp (%s)' % self.prim_term(op, free, b))
        return '(let xs := [%s] in enc_outs (xrun a_init xs) ++ enc_shape (xfinal a_init xs))' % ';\n'.join(terms)

    @staticmethod
    def ref_step(ref, op, free, b):
        """apply a primitive operation to the reference; returns (error, bytes)"""
        kind = op[0]
        if kind == 'dim':
            for nm, d in op[1]:
                e = ref.dim(au.complete(nm), d, free)
                if e:
                    return e, None
            return 0, None
        if kind == 'erase':
            return ref.erase([au.complete(nm) for nm in op[1]]), None
        if kind == 'base':
            return ref.option_base(op[1]), None
        if kind == 'clear':
            ref.clear()
            return 0, None
        if kind == 'set':
            nm, idx, val = au.complete(op[1]), op[2], op[3]
            v = au.value_bytes(nm, val)
            return ref.set(nm, idx, v if v is not None else (b or [0, 0, 0]), free), None
        return ref.get(au.complete(op[1]), op[2], free)

    # ------------------------------------------------------------------ oracle
    def oracle(self, case, out):
        """Direct reading of the property with a dict reference (no Coq model involved)."""
        tr, shape = self.trace(case)
        ref = au.RefArrays()
        texts = {}
        for step, (op, (err, free, b, text)) in enumerate(zip(self.ops_of(case), tr)):
            kind = op[0]
            exp_b = None
            if kind == 'dimx':
                _, _, exp = self.dimx_seq(op, ref, free)
            else:
                exp, exp_b = self.ref_step(ref, op, free, b)
                if kind == 'clear':
                    texts = {}
                if kind == 'set' and not exp:
                    texts[(au.complete(op[1]), tuple(op[2]))] = op[3]
                if kind == 'get':
                    nm, idx = au.complete(op[1]), op[2]
            texts = {k: v for k, v in texts.items() if k[0] in ref.shapes}
            if exp != err:
                return 'step %d %r: error %d, the array rules give %d' % (step, op, err, exp)
            if kind == 'get' and not err:
                if b != exp_b:
                    return 'step %d %r: element holds %r, last value written there is %r' % (step, op, b, exp_b)
                if nm[-1] in '%$' and (nm, tuple(idx)) in texts:
                    want = texts[(nm, tuple(idx))]
                    got = text if nm[-1] == '%' else text.decode('latin1')
                    if got != want:
                        return 'step %d %r: evaluates to %r, last value written there is %r' % (step, op, got, want)
        # declared bounds as the rules say
        names = []
        i = 4
        for _ in range(shape[3]):
            ln = shape[i]
            nm = bytes(shape[i + 1:i + 1 + ln]).decode('ascii')
            rk = shape[i + 1 + ln]
            d = shape[i + 2 + ln:i + 2 + ln + rk]
            names.append((nm, tuple(d)))
            i += 2 + ln + rk + 3
        if names != list(ref.shapes.items()):
            return 'declared arrays %r, the array rules give %r' % (names, list(ref.shapes.items()))
        if shape[0] != (-1 if ref.base is None else ref.base):
            return 'OPTION BASE state %r, the rules give %r' % (shape[0], ref.base)
        return None

    def nontrivial(self, case, out):
        tr, _ = self.trace(case)
        written = set()
        for op, (err, free, b, text) in zip(self.ops_of(case), tr):
            if op[0] == 'set' and not err:
                written.add((au.complete(op[1]), tuple(op[2])))
            if op[0] == 'get' and not err and (au.complete(op[1]), tuple(op[2])) in written:
                return True
        return False


CHECK = C12
