"""Generator of token lines as item lists, mirroring the inductive class `Lines` of theories/model/Lines.v (C17).

An item is a list: ['sp'] ['p',c] ['op',c] ['kw',[bytes]] ['name',[bytes]] ['int',v] ['hex',v] ['oct',v]
['flt',lead,[trail],[txt]] ['jump',n] ['str',[body],closed] ['else'] ['while'] ['rem',[tail]] ['quote',[tail]]
['data',[tail]].  render_tokens / render_text / coq_items are the Python side of item_toks / item_text."""

OPS = b'+-=/\\^*<>'
LINENUM_WORDS = [b'GOTO', b'THEN', b'ELSE', b'GOSUB', b'LIST', b'RENUM', b'EDIT', b'LLIST', b'DELETE', b'RUN',
                 b'RESUME', b'AUTO', b'ERL', b'RESTORE', b'RETURN']
SPECIAL = [b'REM', b'DATA', b'ELSE', b'WHILE']
NAMES = [b'A', b'B', b'I', b'J', b'X', b'X1', b'AB.C', b'TOTAL', b'FORK', b'XWHILE', b'NREM', b'MIDX', b'Z9', b'LETTER',
         b'GOX', b'ONX', b'T.', b'PRINTER', b'IFF', b'KEYS', b'AS', b'BASE']
FUNCS = [b'ABS', b'INT', b'SQR', b'LEN', b'ASC', b'VAL', b'PEEK', b'RND', b'CHR$', b'STR$', b'LEFT$', b'MID$',
         b'INSTR', b'POINT', b'CINT', b'EOF', b'LOC', b'VARPTR', b'INKEY$', b'CSRLIN', b'TIMER', b'ERR', b'DATE$']
WORD_OPS = [b'AND', b'OR', b'XOR', b'EQV', b'IMP', b'MOD']
FLOAT_TEXTS = [b'1.5', b'.25', b'1E10', b'1.5D-3', b'123456789', b'3.141593', b'1!', b'2#', b'.5#', b'100000',
               b'1E-38', b'1.234567E+10', b'9999999', b'1D0', b'16777216', b'3#', b'32768', b'65535', b'0.1',
               b'1.5E+20', b'2.5D+100', b'12345678.9', b'1D-300', b'.0015#', b'7!', b'4.25', b'1E5', b'99999.5',
               # doubles with a fractional part and few digits, whole doubles, D / E exponents, suffix forms,
               # 7 versus 8 and more digits
               b'1.25#', b'1234.5#', b'.75#', b'.0009765625#', b'100000#', b'0#', b'0!', b'1234567', b'12345678',
               b'1048576.5', b'8388607.5', b'1234567890123456', b'1D5', b'5D-1', b'1.5D+10', b'2.5E-1', b'1.5E+3',
               b'.0078125', b'2.5#', b'65536#', b'32768!', b'.5', b'.5!', b'1.75D+2', b'6.25E-2', b'3.0517578125D-5',
               b'4294967296', b'1E+15', b'1D+15', b'123456.5', b'1234567.5']


def literal_value(lit):
    """exact value, number of significant digits and double-marker of a BASIC float literal text
    (digits [. digits] [E|D [sign] digits] [!|#]) - independent reference, no pcbasic code."""
    from fractions import Fraction
    t = bytes(lit).upper()
    forced = None
    if t[-1:] in (b'!', b'#'):
        forced = t[-1:]
        t = t[:-1]
    exp = 0
    isd = False
    for ch in (b'E', b'D'):
        if ch in t:
            t, e = t.split(ch, 1)
            exp = int(e or b'0')
            isd = ch == b'D'
    ip, _, fp = t.partition(b'.')
    digits = (ip + fp).lstrip(b'0')
    mant = int(ip + fp or b'0')
    val = Fraction(mant) * Fraction(10) ** (exp - len(fp))
    return val, len(digits), forced, isd


def exactly_representable(lit):
    """the literal has at most 7 (single) / 16 (double) significant digits and its value is exactly an MBF
    single / double of the type the literal denotes."""
    val, nd, forced, isd = literal_value(lit)
    double = forced == b'#' or isd or (forced is None and nd > 7)
    if nd > (16 if double else 7):
        return False
    if val == 0:
        return True
    q = val.denominator
    if q & (q - 1):
        return False
    p = val.numerator
    while p % 2 == 0:
        p //= 2
    if p.bit_length() > (56 if double else 24):
        return False
    return Fraction_log2_ok(val)


def Fraction_log2_ok(val):
    # MBF exponent range 2^-128 .. 2^126
    from fractions import Fraction
    return Fraction(1, 2 ** 127) <= val < Fraction(2 ** 126)


def random_exact_literal(rng):
    """a random exactly representable literal of a random shape."""
    j = rng.choice([0, 0, 1, 1, 2, 3, 4, 6])
    double = rng.random() < 0.5
    a = rng.randrange(1, 10 ** rng.choice([1, 2, 3, 5, 6] if not double else [1, 3, 6, 9, 11]))
    from fractions import Fraction
    val = Fraction(a, 2 ** j)
    # decimal expansion of a / 2^j is finite: a * 5^j / 10^j
    num = a * 5 ** j
    s = (b'%d' % num).rjust(j + 1, b'0')
    txt = s[:len(s) - j] + (b'.' + s[len(s) - j:] if j else b'')
    txt = txt.lstrip(b'0') or b'0'
    if b'.' in txt:
        txt = txt.rstrip(b'0').rstrip(b'.') or b'0'
    shape = rng.randrange(5)
    if double:
        txt = txt + (b'#' if shape < 3 else b'D0' if shape == 3 else b'D+00')
    else:
        txt = txt + (b'' if shape < 2 else b'!' if shape < 4 else b'E0')
    return txt


STR_BODIES = [b'HELLO', b'', b'a b', b'1,2', b':', b"'", b'REM', b'x\xff\x80', b'GOTO 10', b'\x01\x7f', b'&HFF']
REM_TAILS = [b' hello world', b'', b' GOTO 10', b' x:y', b" it's", b' a"b', b':', b'  spaced  ', b' \xc4\xd6', b' "q', b'-']
QUOTE_TAILS = REM_TAILS + [b'hello', b'A', b'1', b'\xd9']
DATA_TAILS = [b' 1,2,3', b' "a,b",c', b' x , y ', b' 1.5,2E3', b' "q', b'', b' a b c', b' -1,+2', b' "a:b"', b',,',
              b' "x"y"z', b' GOTO', b' "ab","c:d e"', b' "at 10:30 print",x', b' "a","b","c:goto 10:rem"',
              b' 1,"x:y","p:q r', b' "a:b","c:d"']

# raw content that tokenisation would change if it were read as code: lower case, keywords, numbers, colons,
# quotes, REM markers, jump numbers, high and control bytes.  Used inside string literals, REM / ' tails and
# DATA items, where it must be kept byte for byte.
RAW_PIECES = [b'a', b'ab', b'x y', b'print', b'PRINT', b'goto 10', b'at 10:30', b':', b':d e', b':rem x', b':print 1',
              b'10', b'1.5', b'&hff', b"'", b',', b' ', b'  ', b'else', b'Data', b'\xc4', b'\x7f', b'\x01', b'?', b'=',
              b'go to', b'then 20', b'-', b'e', b'1e5', b'while', b'\xd9', b'\x8f', b';', b'(', b'fn', b'.5#']


def raw_text(rng, maxn=4, quote=False, colon=True):
    """concatenation of raw pieces; quote: may contain double quotes; colon: may contain colons."""
    out = b''
    for _ in range(rng.randrange(maxn + 1)):
        pc = rng.choice(RAW_PIECES)
        if not colon:
            pc = pc.replace(b':', b';')
        out += pc
        if quote and rng.random() < 0.15:
            out += b'"'
    return out


def plain_text(rng, maxn=3):
    """text of an unquoted DATA item: printable ASCII without colon and double quote."""
    t = raw_text(rng, maxn, quote=False, colon=False)
    return bytes(bytearray(c for c in bytearray(t) if 32 <= c <= 126 and c not in (34, 58)))


def data_tail(rng):
    """(tail, ends_inside_literal): a DATA tail of several items, quoted and unquoted in any order; quoted items may
    contain colons followed by anything."""
    lead = rng.choice([b' ', b' ', b'', b','])
    items = []
    n = rng.choice([1, 2, 2, 3, 4])
    open_end = False
    for i in range(n):
        q = rng.random()
        if q < 0.55:
            body = raw_text(rng, 3, quote=False, colon=True)
            if i == n - 1 and rng.random() < 0.15:
                items.append(b'"' + body)
                open_end = True
            else:
                items.append(b'"' + body + b'"' + (plain_text(rng, 1) if rng.random() < 0.15 else b''))
        else:
            items.append(plain_text(rng))
    tail = lead + rng.choice([b',', b', ', b' ,']).join(items) if n > 1 else lead + items[0]
    if not lead and tail[:1] not in (b'"', b',', b' ', b''):
        tail = b' ' + tail
    return tail, open_end


def b2l(b):
    return list(bytearray(b))


class Gen(object):
    """stateful generator; mirrors the tokeniser state so that number literals are placed as the right item."""

    def __init__(self, rng, keywords, float_pairs):
        self.rng = rng
        self.kws = [k for k in keywords if 65 <= bytearray(k)[0] <= 90 and k not in SPECIAL]
        self.keyset = set(keywords)
        self.floats = float_pairs        # list of (lead, trail bytes, text bytes)
        self.items = []
        self.aj, self.an, self.sot = False, True, False

    # --- state mirror (Tokeniser.tokenise_line) ---
    def _word(self, w):
        self.aj = w in LINENUM_WORDS
        self.an = w in self.keyset
        if w in (b'SPC(', b'TAB('):
            self.sot = True

    def emit(self, it):
        self.items.append(it)
        k = it[0]
        if k == 'p':
            c = it[1]
            if c in b',#;([':
                self.an = True
            elif c == 41:
                if self.sot:
                    self.sot = False
                    self.aj = False
                self.an = True
            else:
                self.aj, self.an = False, False
        elif k == 'op':
            self.an = True
        elif k == 'kw':
            self._word(bytes(bytearray(it[1])))
        elif k == 'name':
            self._word(bytes(bytearray(it[1])))
        elif k == 'else':
            self._word(b'ELSE')
        elif k == 'while':
            self._word(b'WHILE')

    def sp(self):
        self.emit(['sp'])

    def p(self, ch):
        self.emit(['p', bytearray(ch)[0]])

    def op(self, ch):
        self.emit(['op', bytearray(ch)[0]])

    def kw(self, k):
        self.emit(['kw', b2l(k)])

    def name(self, n):
        self.emit(['name', b2l(n)])

    # --- number literal in the current state ---
    def number(self):
        rng = self.rng
        if self.an and self.aj:
            self.emit(['jump', rng.choice([0, 1, 10, 100, 255, 256, 1000, 6552, 6553, 32767, 32768, 65529,
                                          rng.randrange(65530)])])
        elif self.an:
            r = rng.random()
            if r < 0.35:
                self.emit(['int', rng.choice([0, 1, 2, 9, 10, 11, 99, 255, 256, 257, 1000, 32767, rng.randrange(32768)])])
            elif r < 0.5:
                self.emit(['hex', rng.choice([0, 1, 15, 16, 255, 256, 4095, 32767, 32768, 65535, rng.randrange(65536)])])
            elif r < 0.6:
                self.emit(['oct', rng.choice([0, 1, 7, 8, 63, 64, 511, 32767, 32768, 65535, rng.randrange(65536)])])
            else:
                lead, trail, txt = rng.choice(self.floats)
                self.emit(['flt', lead, b2l(trail), b2l(txt)])
        else:
            # digits are plain characters here (e.g. OPTION BASE 1)
            self.p(rng.choice([b'0', b'1', b'7']))

    def string(self, closed=True):
        body = self.rng.choice(STR_BODIES) if self.rng.random() < 0.6 else raw_text(self.rng, 3)
        self.emit(['str', b2l(body), closed])

    # --- expressions ---
    def atom(self, depth):
        rng = self.rng
        r = rng.random()
        if r < 0.4:
            self.number()
        elif r < 0.6:
            self.name(rng.choice(NAMES))
            if rng.random() < 0.3:
                self.p(rng.choice([b'%', b'!', b'#', b'$']) if self.items[-1][1] not in (b2l(b'MIDX'),) else b'%')
            if rng.random() < 0.25:
                self.p(b'(')
                self.expr(depth + 1)
                self.p(b')')
        elif r < 0.75:
            f = rng.choice(FUNCS)
            self.kw(f)
            if f not in (b'RND', b'INKEY$', b'CSRLIN', b'TIMER', b'ERR', b'DATE$'):
                self.p(b'(')
                self.expr(depth + 1)
                self.p(b')')
        elif r < 0.85:
            self.string()
        elif r < 0.92:
            self.p(b'(')
            self.expr(depth + 1)
            self.p(b')')
        else:
            self.kw(b'FN')
            self.name(rng.choice([b'A', b'B2', b'XY']))
            self.p(b'(')
            self.expr(depth + 1)
            self.p(b')')

    def expr(self, depth=0):
        rng = self.rng
        r = rng.random()
        if depth > 2 or r < 0.45:
            self.atom(depth)
        elif r < 0.55:
            self.op(rng.choice([b'-', b'+']))
            self.atom(depth)
        elif r < 0.62:
            self.kw(b'NOT')
            self.sp()
            self.atom(depth)
        elif r < 0.85:
            self.expr(depth + 1)
            if rng.random() < 0.2:
                self.sp()
            self.op(rng.choice([b'+', b'-', b'*', b'/', b'\\', b'^', b'=', b'<', b'>']))
            if rng.random() < 0.3:
                self.op(rng.choice([b'=', b'>']))
            if rng.random() < 0.2:
                self.sp()
            self.expr(depth + 1)
        else:
            self.expr(depth + 1)
            self.sp()
            self.kw(rng.choice(WORD_OPS))
            self.sp()
            self.expr(depth + 1)

    def jump(self):
        if self.an and self.aj:
            self.number()
        else:
            self.number()

    # --- statements ---
    def statement(self):
        rng = self.rng
        r = rng.randrange(30)
        if r >= 26:
            # a number literal followed by a blank and a keyword (ELSE, EQV, AND, TO, STEP, THEN ...): the
            # reader of decimal literals must stop before the keyword in every capitalisation
            q = rng.randrange(4)
            if q == 0:
                self.kw(b'IF'); self.sp(); self.name(rng.choice([b'A', b'X'])); self.sp(); self.kw(b'THEN'); self.sp()
                self.name(b'X'); self.op(b'='); self.number(); self.sp(); self.emit(['else']); self.sp()
                self.name(b'X'); self.op(b'='); self.number()
            elif q == 1:
                self.kw(b'PRINT'); self.sp(); self.number()
                for _ in range(rng.randrange(1, 4)):
                    self.sp(); self.kw(rng.choice(WORD_OPS)); self.sp(); self.number()
            elif q == 2:
                self.kw(b'FOR'); self.sp(); self.name(b'I'); self.op(b'='); self.number(); self.sp(); self.kw(b'TO')
                self.sp(); self.number(); self.sp(); self.kw(b'STEP'); self.sp(); self.number()
            else:
                self.kw(b'IF'); self.sp(); self.name(b'X'); self.op(b'='); self.number(); self.sp(); self.kw(b'THEN')
                self.sp(); self.kw(b'PRINT'); self.sp(); self.number(); self.sp(); self.emit(['else']); self.sp()
                self.kw(b'PRINT'); self.sp(); self.number(); self.sp(); self.kw(b'EQV'); self.sp(); self.number()
        elif r == 0:
            self.kw(b'PRINT'); self.sp(); self.expr()
            if rng.random() < 0.4:
                self.p(rng.choice([b';', b','])); self.expr()
        elif r == 1:
            self.kw(b'LET'); self.sp(); self.name(rng.choice(NAMES)); self.op(b'='); self.expr()
        elif r == 2:
            self.name(rng.choice(NAMES)); self.op(b'='); self.expr()
        elif r == 3:
            self.kw(rng.choice([b'GOTO', b'GOSUB', b'RESTORE', b'RUN', b'RESUME'])); self.sp(); self.number()
        elif r == 4:
            self.kw(b'IF'); self.sp(); self.expr(); self.sp(); self.kw(b'THEN'); self.sp()
            if rng.random() < 0.5:
                self.number()
            else:
                self.kw(b'PRINT'); self.sp(); self.expr()
            if rng.random() < 0.5:
                self.sp(); self.emit(['else']); self.sp()
                if rng.random() < 0.5:
                    self.number()
                else:
                    self.kw(b'END')
        elif r == 5:
            self.kw(b'FOR'); self.sp(); self.name(b'I'); self.op(b'='); self.expr(); self.sp(); self.kw(b'TO')
            self.sp(); self.expr()
            if rng.random() < 0.4:
                self.sp(); self.kw(b'STEP'); self.sp(); self.expr()
        elif r == 6:
            self.emit(['while']); self.sp(); self.expr()
        elif r == 7:
            t = rng.choice(REM_TAILS) if rng.random() < 0.6 else rng.choice([b' ', b':', b'-']) + raw_text(rng, 4, quote=True)
            self.emit(['rem', b2l(t)])
            return False
        elif r == 8:
            t = rng.choice(QUOTE_TAILS) if rng.random() < 0.6 else raw_text(rng, 4, quote=True)
            self.emit(['quote', b2l(t)])
            return False
        elif r == 9 or r == 25:
            if rng.random() < 0.4:
                t = rng.choice(DATA_TAILS)
                open_end = t.count(b'"') % 2 == 1
            else:
                t, open_end = data_tail(rng)
            self.emit(['data', b2l(t)])
            if open_end:
                return False
        elif r == 10:
            self.kw(b'ON'); self.sp(); self.expr(); self.sp(); self.kw(rng.choice([b'GOTO', b'GOSUB'])); self.sp()
            self.number()
            for _ in range(rng.randrange(3)):
                self.p(b','); self.number()
        elif r == 11:
            self.name(b'A'); self.p(b'$'); self.op(b'='); self.string(closed=True)
        elif r == 12:
            self.kw(b'DEF'); self.sp(); self.kw(b'FN'); self.name(b'A'); self.p(b'('); self.name(b'X'); self.p(b')')
            self.op(b'='); self.name(b'X'); self.op(b'*'); self.expr()
        elif r == 13:
            self.kw(b'PRINT'); self.sp(); self.kw(b'TAB('); self.expr(); self.p(b')'); self.p(b';')
            self.kw(b'SPC('); self.expr(); self.p(b')')
            if rng.random() < 0.5:
                self.number()
        elif r == 14:
            self.kw(b'OPEN'); self.sp(); self.string(); self.sp(); self.kw(b'FOR'); self.sp(); self.kw(b'INPUT')
            self.sp(); self.name(b'AS'); self.sp(); self.p(b'#'); self.number()
        elif r == 15:
            self.kw(b'LINE'); self.sp(); self.p(b'('); self.expr(); self.p(b','); self.expr(); self.p(b')')
            self.op(b'-'); self.p(b'('); self.expr(); self.p(b','); self.expr(); self.p(b')')
        elif r == 16:
            self.kw(b'MID$'); self.p(b'('); self.name(b'A'); self.p(b'$'); self.p(b','); self.expr(); self.p(b')')
            self.op(b'='); self.string()
        elif r == 17:
            self.kw(b'IF'); self.sp(); self.kw(b'ERL'); self.op(b'='); self.number(); self.sp(); self.kw(b'THEN')
            self.sp(); self.number()
        elif r == 18:
            self.kw(b'OPTION'); self.sp(); self.name(b'BASE'); self.sp(); self.number()
        elif r == 19:
            self.kw(b'PRINT'); self.sp(); self.string(closed=False)
            return False
        elif r == 20:
            self.kw(b'KEY'); self.p(b'('); self.number(); self.p(b')'); self.sp(); self.kw(b'ON')
        elif r == 21:
            self.kw(b'DEFINT'); self.sp(); self.name(b'A'); self.op(b'-'); self.name(b'Z')
        elif r == 22:
            self.kw(b'PRINT'); self.sp(); self.kw(b'USING'); self.sp(); self.string(); self.p(b';'); self.expr()
        else:
            # any keyword of the dialect as a statement word
            k = rng.choice(self.kws)
            self.kw(k)
            if k in (b'SPC(', b'TAB('):
                self.expr(); self.p(b')')
            elif k in (b'FN', b'USR'):
                self.name(b'A') if k == b'FN' else self.number()
            elif rng.random() < 0.7:
                self.sp(); self.expr()
        return True

    def line(self):
        rng = self.rng
        if rng.random() < 0.15:
            self.sp()
        n = 1 if rng.random() < 0.6 else rng.randrange(2, 5)
        for i in range(n):
            more = self.statement()
            if not more:
                break
            if i + 1 < n:
                if rng.random() < 0.2 and self.items[-1][0] != 'data':
                    self.sp()
                self.p(b':')
                if rng.random() < 0.3:
                    self.sp()
        # an octal literal swallows blanks that follow it: in the class it is followed by an operator or
        # punctuation only; elsewhere use the hex form of the same value
        for i, it in enumerate(self.items):
            if it[0] == 'oct' and i + 1 < len(self.items) and self.items[i + 1][0] not in ('op', 'p'):
                self.items[i] = ['hex', it[1]]
        return self.items


# ---------------------------------------------------------------------------------------------------
def int_token(v):
    if v < 10:
        return bytes(bytearray([0x11 + v]))
    if v < 256:
        return bytes(bytearray([0x0f, v]))
    return bytes(bytearray([0x1c, v % 256, v // 256]))


def item_tokens(it, to_token):
    k = it[0]
    if k == 'sp':
        return b' '
    if k == 'p':
        return bytes(bytearray([it[1]]))
    if k == 'op':
        return to_token[bytes(bytearray([it[1]]))]
    if k == 'kw':
        return to_token.get(bytes(bytearray(it[1])), b'')
    if k == 'name':
        return bytes(bytearray(it[1]))
    if k == 'int':
        return int_token(it[1])
    if k == 'hex':
        return bytes(bytearray([0x0c, it[1] % 256, it[1] // 256]))
    if k == 'oct':
        return bytes(bytearray([0x0b, it[1] % 256, it[1] // 256]))
    if k == 'flt':
        return bytes(bytearray([it[1]] + it[2]))
    if k == 'jump':
        return bytes(bytearray([0x0e, it[1] % 256, it[1] // 256]))
    if k == 'str':
        return b'"' + bytes(bytearray(it[1])) + (b'"' if it[2] else b'')
    if k == 'else':
        return b':' + to_token[b'ELSE']
    if k == 'while':
        return to_token[b'WHILE'] + to_token[b'+']
    if k == 'rem':
        return to_token[b'REM'] + bytes(bytearray(it[1]))
    if k == 'quote':
        return b':' + to_token[b'REM'] + to_token[b"'"] + bytes(bytearray(it[1]))
    if k == 'data':
        return to_token[b'DATA'] + bytes(bytearray(it[1]))
    raise ValueError(k)


def item_text(it):
    k = it[0]
    if k == 'sp':
        return b' '
    if k in ('p', 'op'):
        return bytes(bytearray([it[1]]))
    if k in ('kw', 'name'):
        return bytes(bytearray(it[1]))
    if k in ('int', 'jump'):
        return b'%d' % it[1]
    if k == 'hex':
        return b'&H%X' % it[1]
    if k == 'oct':
        return b'&O%o' % it[1]
    if k == 'flt':
        return bytes(bytearray(it[3]))
    if k == 'str':
        return b'"' + bytes(bytearray(it[1])) + (b'"' if it[2] else b'')
    if k == 'else':
        return b'ELSE'
    if k == 'while':
        return b'WHILE'
    if k == 'rem':
        return b'REM' + bytes(bytearray(it[1]))
    if k == 'quote':
        return b"'" + bytes(bytearray(it[1]))
    if k == 'data':
        return b'DATA' + bytes(bytearray(it[1]))
    raise ValueError(k)


def line_tokens(n, items, to_token):
    return (b'\0\xc0\xde' + bytes(bytearray([n % 256, n // 256])) + (b' ' if n == 0 else b'')
            + b''.join(item_tokens(it, to_token) for it in items))


def line_text(n, items):
    return b'%d ' % n + b''.join(item_text(it) for it in items)


def zl(l):
    return '[' + ';'.join('%d' % x for x in l) + ']'


def coq_item(it):
    k = it[0]
    if k == 'sp':
        return 'ISpace'
    if k == 'p':
        return 'IPunct %d' % it[1]
    if k == 'op':
        return 'IOp %d' % it[1]
    if k == 'kw':
        return 'IKw %s' % zl(it[1])
    if k == 'name':
        return 'IName %s' % zl(it[1])
    if k == 'int':
        return 'INum (NInt %d)' % it[1]
    if k == 'hex':
        return 'INum (NHex %d)' % it[1]
    if k == 'oct':
        return 'INum (NOct %d)' % it[1]
    if k == 'flt':
        return 'INum (NFloat %d %s %s)' % (it[1], zl(it[2]), zl(it[3]))
    if k == 'jump':
        return 'IJump %d' % it[1]
    if k == 'str':
        return 'IStr %s %s' % (zl(it[1]), 'true' if it[2] else 'false')
    if k == 'else':
        return 'IElse'
    if k == 'while':
        return 'IWhile'
    if k == 'rem':
        return 'IRem %s' % zl(it[1])
    if k == 'quote':
        return 'IQuote %s' % zl(it[1])
    if k == 'data':
        return 'IData %s' % zl(it[1])
    raise ValueError(k)


def coq_items(items):
    return '[' + '; '.join(coq_item(it) for it in items) + ']'
