"""C34 - Video memory reflects and controls the screen content."""
import logging
import os
import struct

from vlib import core
from harness import common

VIDEO_LO = 0xa0000
VIDEO_HI = 0xc0000

# (video adapter option, extra Session options)
ADAPTERS = [
    ('cga', {}), ('ega', {}), ('ega', {'monitor': 'mono'}), ('ega', {'video_memory': 65536}), ('vga', {}),
    ('mda', {}), ('hercules', {}), ('tandy', {}), ('pcjr', {}), ('pcjr', {'video_memory': 65536}),
    ('olivetti', {}),
]
KIND = {'CGAMemoryMapper': 0, 'EGAMemoryMapper': 1, 'Tandy6MemoryMapper': 2, 'TextMemoryMapper': 3}


def scramble(i):
    return ((i * i * 73 + i * 41 + 11) // 4) % 256


SCR = bytes(scramble(i) for i in range(256))


def init_row(seed, p, a, width, rng):
    """row a of page p of the initial contents: init_fn seed p a b for b in range(width), mod rng"""
    off = (3 * a + 7 * p + seed) % 256
    tab = SCR if rng == 256 else bytes(v % rng for v in SCR)
    reps = (off + width) // 256 + 1
    return (tab * reps)[off:off + width]


def gen_bytes(seed, n):
    return [scramble((i * 5 + i // 7 + seed) % 256) for i in range(n)]


def hash_bytes(l):
    h = 7
    for b in l:
        h = (h * 257 + b + 1) % 1000003
    return h


def report(l):
    l = list(l)
    return l if len(l) <= 48 else [len(l), hash_bytes(l)]


def mode_ident(name):
    return 'vmode_' + ''.join(c if c.isalnum() else '_' for c in name)


def pow2ceil(n):
    p = 1
    while p < n:
        p *= 2
    return p


class Ref(object):
    """Independent reference for the memory layout, written from the hardware description and NOT from the
    mapper's stride attributes: text = char/attribute pairs, row-major, pages of the next power of two;
    CGA/PCjr/Tandy/Hercules/Olivetti graphics = packed pixels (Tandy 640x200x4: bit plane per address parity),
    scan lines interlaced over as many 8 KiB banks as the picture needs, page = banks x 8 KiB; EGA = bit
    planes of 8 pixels per byte, linear, pages of the next power of two.  Taken from the live mode: pixel or
    text dimensions, bits per pixel, mapper class, segment, number of pages."""

    def __init__(self, info):
        self.i = info
        i = info
        if i['kind'] == 3:
            self.page_size = pow2ceil(i['width'] * i['height'] * 2)
        elif i['kind'] == 1:
            self.bpr = i['width'] // 8
            self.page_size = pow2ceil(self.bpr * i['height'])
        else:
            self.bpr = i['width'] * i['bpp'] // 8
            self.banks = -(-(self.bpr * i['height']) // 0x2000)
            self.page_size = self.banks * 0x2000

    def addr(self, page, x, y, plane=0):
        """the address of the byte that holds pixel (x, y) of a page (graphics; plane: Tandy 640x200x4 only)"""
        i = self.i
        base = i['seg'] * 16 + page * self.page_size
        if i['kind'] == 1:
            return base + y * self.bpr + x // 8
        bank, row = y % self.banks, y // self.banks
        if i['kind'] == 2:
            return base + bank * 0x2000 + row * self.bpr + (x // 8) * 2 + plane
        return base + bank * 0x2000 + row * self.bpr + x // (8 // i['bpp'])

    def usable_pages(self):
        """pages whose memory lies completely inside the PEEKable video range"""
        i = self.i
        return [p for p in range(i['npages']) if i['seg'] * 16 + (p + 1) * self.page_size <= VIDEO_HI]

    def cell(self, addr):
        """-> None (not backing screen content) or (page, y, x0, npix, plane-or-None) / text: (page,row,col,is_attr)"""
        i = self.i
        rel = addr - i['seg'] * 16
        if rel < 0:
            return None
        page, a = divmod(rel, self.page_size)
        if page >= i['npages']:
            return None
        if i['kind'] == 3:
            row, r = divmod(a, 2 * i['width'])
            if row >= i['height']:
                return None
            return (page, row, r // 2, r % 2)
        if i['kind'] == 1:
            row, col = divmod(a, self.bpr)
            if row >= i['height']:
                return None
            return (page, row, col * 8, 8, None)
        bank, off = divmod(a, 0x2000)
        row, col = divmod(off, self.bpr)
        y = row * self.banks + bank
        if y >= i['height']:
            return None
        if i['kind'] == 2:
            return (page, y, (col // 2) * 8, 8, col % 2)
        ppb = 8 // i['bpp']
        return (page, y, col * ppb, ppb, None)


def hdr_of(op):
    """bload / bloadgen: (header offset of the file, offset given in the statement or None).
    optional last element: ['omit'] = BLOAD without offset (file saved from the target offset),
    ['given', hoff] = explicit offset, file header says hoff; absent = explicit offset equal to the header's"""
    off = op[2]
    h = op[4] if op[0] == 'bload' and len(op) > 4 else op[5] if op[0] == 'bloadgen' and len(op) > 5 else None
    if not h:
        return off, off
    if h[0] == 'omit':
        return off, None
    return h[1], off


def bloadf_of(op, ops):
    """['bloadf', k, off_or_None]: load the file BSAVEd by ops[k] -> (seg, header off, given off, n) or None"""
    k = op[1]
    if not (0 <= k < len(ops)) or ops[k][0] != 'bsave':
        return None
    return ops[k][1], ops[k][2], op[2], ops[k][3]


def drop_op(ops, j):
    """ops without ops[j]; bloadf references are renumbered, those to ops[j] are dropped"""
    res = []
    for k, op in enumerate(ops):
        if k == j:
            continue
        if op[0] == 'bloadf':
            if op[1] == j:
                continue
            op = ['bloadf', op[1] - (1 if op[1] > j else 0), op[2]]
        res.append(op)
    return res


class C34(core.Check):
    ID = 'C34'
    GEN = ['gen_vmem']
    PROPS = 'props/C34.v'
    MODEL_IMPORTS = ['gen.Gen_vmem', 'model.VideoMem']
    QUICK_CASES = 200
    THOROUGH_CASES = 3000
    TRUSTED = ['hand model model/VideoMem.v of the pixel packing of base/bytematrix.py (pack_bytes/unpack_bytes), of '
               'the slice assignments in CGA/EGA/Tandy6MemoryMapper.get_memory/set_memory (EGA plane and mask '
               'registers, Tandy parity planes), of the TextMemoryMapper byte loop around the regenerated '
               'arithmetic and of the video branch of machine.Memory; tied by correspondence in every mode of '
               'every adapter',
               'screen buffers are total functions page->y->x in the model; the real buffers are bounded '
               '(slices never leave a row because bytes_per_row*pixels_per_byte = width: checked for the '
               'regenerated mode table, C34_table_wf)']
    RULE = ('real Session(peek_values={}) per case in a mode of an adapter (cga, ega, ega mono, ega 64k, vga, mda, '
            'hercules, tandy, pcjr, pcjr 64k, olivetti; all screen numbers and both text widths; thorough cycles '
            'through all of them), page buffers filled by formula, then DEF SEG / PEEK / POKE / BSAVE / BLOAD / '
            'OUT &H3C5/&H3CF on addresses dense at row, bank, page and segment boundaries; output = PEEK values, '
            'BSAVE data (hash when long) and pixels/cells at probe coordinates, compared with the model; oracle = '
            'twin session doing every block byte by byte + independent layout reference. non-trivial = some '
            'address backs screen content; distinct by hash')
    histogram = None

    # ------------------------------------------------------------------ mode information
    def combos(self):
        c = self.__dict__.get('_combos')
        if c is None:
            from pcbasic.basic.display import modes
            c = []
            for ad, opts in ADAPTERS:
                eff = ad
                if ad == 'ega' and opts.get('monitor') == 'mono':
                    eff = 'ega_mono'
                elif ad == 'ega' and opts.get('video_memory', 262144) < 131072:
                    eff = 'ega_64k'
                nums = sorted(k for k in modes._MODES[eff] if isinstance(k, int) and k < 11)
                if ad == 'olivetti':
                    nums = [1, 2, 3, 200]
                for nr in nums:
                    c.append((ad, opts, nr, 0))
                for w in (40, 80):
                    c.append((ad, opts, 0, w))
            self._combos = c
        return c

    def open(self, case, d=None):
        logging.disable(logging.WARNING)
        kw = dict(case['opts'])
        if d is not None:
            kw.update(devices={'C': d}, current_device='C:')
        s = common.new_session(peek_values={}, video=case['ad'], **kw)
        if case['scr']:
            r = s.execute('SCREEN %d' % case['scr'])
        else:
            r = s.execute('SCREEN 0:WIDTH %d' % case['w'])
        if r.strip():
            s.close()
            raise RuntimeError('cannot enter mode: %r' % r)
        return s

    def info_of(self, s):
        d = s._impl.display
        mm = d.mode.memorymap
        kind = KIND[type(mm).__name__]
        i = {'name': d.mode.name, 'mem': mm._video_mem_size, 'kind': kind, 'seg': mm._video_segment,
             'page_size': mm._page_size, 'npages': len(d.pages)}
        if kind == 3:
            i.update(width=d.mode.width, height=d.mode.height, bpp=8)
        else:
            i.update(width=d.mode.pixel_width, height=d.mode.pixel_height, bpp=d.mode.bitsperpixel,
                     bank_size=mm._bank_size, interleave=mm._interleave_times,
                     planes_used=list(getattr(mm, '_planes_used', [])),
                     master=getattr(mm, '_master_plane_mask', 0))
        return i

    def info(self, case):
        key = core.sha([case['ad'], case['opts'], case['scr'], case['w']])
        cache = self.__dict__.setdefault('_infos', {})
        if key not in cache:
            s = self.open(case)
            try:
                cache[key] = self.info_of(s)
            finally:
                s.close()
        return cache[key]

    # ------------------------------------------------------------------ cases
    def mk(self, ad, opts, scr, w, seed, rng, ops, probes=None):
        case = {'ad': ad, 'opts': opts, 'scr': scr, 'w': w, 'seed': seed, 'range': rng, 'ops': ops}
        case['probes'] = probes if probes is not None else self.probes_for(case)
        return case

    def corpus(self):
        B8 = 0xb800
        A0 = 0xa000
        c = []
        # K2 / D34a: block starting mid-bank and crossing a bank boundary (SCREEN 1, offset &H1000, &H2000 bytes)
        c.append(self.mk('cga', {}, 1, 0, 3, 4, [['bsave', B8, 0x1000, 0x2000]]))
        c.append(self.mk('cga', {}, 1, 0, 3, 4, [['bloadgen', B8, 0x1e00, 9, 0x400], ['bsave', B8, 0x1d80, 0x500]]))
        # start mid-row in bank 0, crossing into bank 1; bank-aligned start in bank 1 crossing the page end
        c.append(self.mk('cga', {}, 1, 0, 4, 4, [['bsave', B8, 8192 - 100, 200]]))
        c.append(self.mk('cga', {}, 1, 0, 4, 4, [['bsave', B8, 0x2000 + 8000 - 20, 8192 - 8000 + 60]]))
        c.append(self.mk('cga', {}, 2, 0, 5, 2, [['bloadgen', B8, 0x1fb0, 4, 200], ['bsave', B8, 0x1fb0, 200]]))
        c.append(self.mk('hercules', {}, 3, 0, 6, 2, [['bsave', B8, 0x1f00 + 45, 0x200]]))
        c.append(self.mk('ega', {}, 7, 0, 7, 16, [['bsave', A0, 0x1e00 + 100, 0x300]]))
        c.append(self.mk('ega', {}, 7, 0, 7, 16, [['mask', 5], ['bloadgen', A0, 8000 - 30, 2, 300],
                                                 ['plane', 2], ['bsave', A0, 8000 - 30, 300]]))
        # Tandy mode 6: block starting at an odd address; even start crossing a bank
        c.append(self.mk('tandy', {}, 6, 0, 8, 4, [['bsave', B8, 1, 7]]))
        c.append(self.mk('tandy', {}, 6, 0, 8, 4, [['bload', B8, 161, [255, 0, 255, 255, 0]], ['bsave', B8, 160, 8]]))
        c.append(self.mk('pcjr', {}, 6, 0, 8, 4, [['bsave', B8, 0x1f02, 0x204]]))
        # text: below the segment (must not alias into the last page), page slack, last page end
        c.append(self.mk('cga', {}, 0, 80, 9, 256, [['poke', 0xb700, 0, 65], ['peek', 0xb700, 0], ['peek', B8, 0x3000]]))
        c.append(self.mk('mda', {}, 0, 80, 9, 256, [['poke', 0xa000, 0, 65], ['peek', 0xb000, 0], ['bsave', 0xafff, 0, 40]]))
        c.append(self.mk('cga', {}, 0, 40, 9, 256, [['bsave', B8, 1990, 70], ['bload', B8, 1999, [1, 2, 3, 4, 5, 6]],
                                                   ['bsave', B8, 1990, 70]]))
        # single bytes in every kind of mode
        c.append(self.mk('cga', {}, 1, 0, 1, 4, [['peek', B8, 0], ['poke', B8, 0, 27], ['peek', B8, 0],
                                                ['poke', B8, 0x2000 + 79, 228], ['peek', B8, 0x2000 + 79]]))
        c.append(self.mk('ega', {}, 9, 0, 1, 16, [['mask', 2], ['poke', A0, 81, 0xa5], ['plane', 1], ['peek', A0, 81],
                                                 ['plane', 0], ['peek', A0, 81]]))
        c.append(self.mk('ega', {'monitor': 'mono'}, 10, 0, 1, 16, [['mask', 255], ['poke', A0, 5, 0xc3], ['plane', 3],
                                                                   ['peek', A0, 5], ['plane', 2], ['peek', A0, 5]]))
        c.append(self.mk('tandy', {}, 6, 0, 1, 4, [['poke', B8, 3, 0x96], ['peek', B8, 3], ['peek', B8, 2]]))
        c.append(self.mk('cga', {}, 1, 0, 1, 4, [['poke', B8, 0, 256]]))
        c.append(self.mk('cga', {}, 1, 0, 1, 256, [['peek', B8, 5], ['bsave', B8, 0, 12]]))
        # BSAVE from a non-zero offset, BLOAD of that file with an explicit offset 0 / omitted / elsewhere
        # (seed C34c: `offset or g.offset` took 0 for "omitted")
        c.append(self.mk('cga', {}, 1, 0, 3, 4, [['bsave', B8, 0x2000 + 100, 24], ['bloadf', 0, 0], ['bsave', B8, 0, 30]]))
        c.append(self.mk('cga', {}, 0, 80, 9, 256, [['bsave', B8, 0x1000 + 162, 24], ['bloadf', 0, 0], ['peek', B8, 0]]))
        c.append(self.mk('ega', {}, 9, 0, 1, 16, [['bsave', A0, 81, 20], ['bloadf', 0, 0], ['bloadf', 0, None],
                                                 ['bloadf', 0, 160]]))
        c.append(self.mk('tandy', {}, 6, 0, 8, 4, [['bload', B8, 0, [255, 0, 255, 1, 2], ['given', 161]],
                                                  ['bloadgen', B8, 0x2001, 5, 9, ['omit']], ['bsave', B8, 0, 8]]))
        # EGA: every plane of the mode is writable (seed C34f: master plane mask left at 7, plane 3 lost)
        c.append(self.mk('ega', {}, 9, 0, 1, 16, [['poke', A0, 81, 255], ['plane', 3], ['peek', A0, 81], ['point', 8, 1]]))
        c.append(self.mk('vga', {}, 7, 0, 1, 16, [['mask', 8], ['bload', A0, 40, [255, 129]], ['plane', 3], ['bsave', A0, 40, 2],
                                                 ['point', 0, 1], ['point', 15, 1]]))
        # PCOPY onto the ACTIVE page, then draw / read memory and poke / POINT without a SCREEN statement in
        # between (seed C34d: the graphics statements kept drawing into the page's old pixel matrix)
        c.append(self.mk('ega', {}, 7, 0, 1, 16, [['page', 1, 0], ['hline', 0, 319, 0, 5], ['pcopy', 1, 2], ['pcopy', 2, 1],
                                                 ['pset', 3, 0, 15], ['plane', 1], ['peek', A0, 8192], ['poke', A0, 8193, 255],
                                                 ['point', 8, 0], ['bsave', A0, 8192, 2]]))
        c.append(self.mk('cga', {}, 1, 0, 2, 4, [['pcopy', 1, 0], ['pset', 5, 1, 3], ['peek', B8, 0x2001], ['poke', B8, 0, 0x1b],
                                                ['point', 0, 0], ['point', 3, 0]]))
        c.append(self.mk('tandy', {}, 6, 0, 2, 4, [['pcopy', 1, 0], ['hline', 6, 17, 2, 2],
                                                  ['bsave', B8, 0x4000, 6], ['poke', B8, 0x4001, 0xf0],
                                                  ['point', 1, 2], ['point', 5, 2]]))
        c.append(self.mk('cga', {}, 0, 80, 9, 256, [['pcopy', 0, 2], ['peek', B8, 0x2000 + 162], ['poke', B8, 160, 66],
                                                   ['pcopy', 0, 1], ['bsave', B8, 0x1000 + 158, 6]]))
        return c

    def gfx_ops(self, i, rng):
        """a history of page switches, PCOPY and drawing statements interleaved with accesses to the memory of
        the pixels drawn: what the graphics statements draw PEEK must see, what POKE writes POINT must see"""
        ref = Ref(i)
        pages = ref.usable_pages()
        ppb = 8 if i['kind'] in (1, 2) else 8 // i['bpp']
        ncol = 1 << i['bpp']
        ap = 0
        ops = []

        def xy():
            x = rng.choice([0, ppb - 1, ppb, i['width'] - 1, i['width'] - ppb, rng.randrange(i['width'])])
            y = rng.choice([0, 1, 2, 3, i['height'] - 1, rng.randrange(i['height'])])
            return x, y

        def access(x, y):
            a = ref.addr(ap, x, y, rng.randrange(2)) + rng.choice([0, 0, 0, 1, -1])
            a = min(max(a, VIDEO_LO), VIDEO_HI - 1)
            seg, off = self.split(a, i, rng)
            return a, seg, off
        if rng.random() < 0.7:
            ap = rng.choice(pages)
            ops.append(['page', ap, rng.choice(pages)])
        for _ in range(rng.choice([2, 3, 4, 5])):
            r = rng.random()
            if r < 0.3:
                dst = ap if rng.random() < 0.65 else rng.choice(pages)
                src = rng.choice([p for p in range(i['npages']) if p != dst])
                ops.append(['pcopy', src, dst])
            elif r < 0.36:
                ap = rng.choice(pages)
                ops.append(['page', ap, rng.choice(pages)])
            elif r < 0.7:
                # draw, then read the memory of what was drawn
                x, y = xy()
                if rng.random() < 0.5:
                    ops.append(['pset', x, y, rng.randrange(ncol)])
                else:
                    x1 = min(i['width'] - 1, x + rng.choice([0, 1, ppb, 2 * ppb + 1, 40]))
                    ops.append(['hline', x, x1, y, rng.randrange(ncol)])
                if i['kind'] == 1 and rng.random() < 0.6:
                    ops.append(['plane', rng.randrange(4)])
                a, seg, off = access(x, y)
                if rng.random() < 0.6:
                    ops.append(['peek', seg, off])
                else:
                    ops.append(['bsave', seg, off, min(rng.choice([1, 2, 3, 9]), VIDEO_HI - a)])
            else:
                # write memory, then look at the pixels with POINT
                x, y = xy()
                if i['kind'] == 1 and rng.random() < 0.4:
                    ops.append(['mask', rng.choice([1, 2, 4, 8, 5, 15, 255])])
                a, seg, off = access(x, y)
                if rng.random() < 0.7:
                    ops.append(['poke', seg, off, rng.randrange(256)])
                else:
                    ops.append(['bload', seg, off, common.rand_bytes(rng, rng.choice([1, 2, 5]))])
                x0 = x - x % ppb
                for xx in sorted(set([x, x0, min(i['width'] - 1, x0 + ppb - 1), min(i['width'] - 1, x0 + ppb)])):
                    ops.append(['point', xx, y])
        return ops

    def addr_pool(self, i, rng):
        base = i['seg'] * 16
        ps = i['page_size']
        if i['kind'] == 3:
            rowb = 2 * i['width']
            marks = [0, rowb, rowb * (i['height'] - 1), rowb * i['height'], ps]
        else:
            bs = i['bank_size']
            bpr = {0: i['width'] * i['bpp'] // 8, 1: i['width'] // 8, 2: i['width'] // 4}[i['kind']]
            rows = -(-i['height'] // i['interleave'])
            marks = [0, bpr, bpr * rng.randrange(1, rows), bpr * (rows - 1), bpr * rows, bs, bs + bpr,
                     bs * (i['interleave'] - 1), bs * (i['interleave'] - 1) + bpr * rows, ps]
        r = rng.random()
        if r < 0.72:
            rel = rng.choice(marks) + rng.choice([0, 0, 1, -1, 2, -2, 3, -3, rng.randrange(-90, 90)])
            rel += ps * rng.choice([0, 0, 0, 1, i['npages'] - 1, i['npages']])
        elif r < 0.92:
            rel = rng.randrange(0, max(1, min(i['npages'] * ps, VIDEO_HI - base)))
        else:
            rel = rng.choice([-1, -2, -ps, -ps + 1, -rng.randrange(1, 5000), VIDEO_HI - base - 1,
                              VIDEO_HI - base - rng.randrange(1, 300), VIDEO_LO - base])
        return min(max(base + rel, VIDEO_LO), VIDEO_HI - 1)

    def split(self, addr, i, rng):
        """a DEF SEG value and an offset for the address"""
        base = i['seg']
        cands = []
        for seg in (base, 0xa000, 0xb000, 0xb800, addr // 16, addr // 16 - rng.randrange(0, 0xfff),
                    base - rng.randrange(1, 0x400), base + 0x200):
            off = addr - seg * 16
            if 0 <= seg <= 0xffff and 0 <= off <= 0xffff:
                cands.append((seg, off))
        return cands[0] if rng.random() < 0.6 else rng.choice(cands)

    def rand_len(self, i, rng):
        r = rng.random()
        big = self.tier == 'thorough'
        if r < 0.35:
            return rng.choice([0, 1, 2, 3, 4, 5, 7, 8])
        if r < 0.92:
            return rng.randrange(1, 200)
        if r < (0.97 if big else 0.995):
            return rng.randrange(200, 1200)
        return rng.choice([0x2000, 0x1000, i['page_size'], 0x2000 + rng.randrange(1, 200)])

    def gen_cases(self, n):
        rng = self.rng
        combos = self.combos()
        hist = {}
        out = []
        order = list(range(len(combos)))
        rng.shuffle(order)
        for k in range(n):
            ad, opts, scr, w = combos[order[k % len(order)]]
            base = {'ad': ad, 'opts': opts, 'scr': scr, 'w': w}
            i = self.info(base)
            hist['mode ' + i['name']] = hist.get('mode ' + i['name'], 0) + 1
            full = 256 if i['kind'] == 3 else 1 << i['bpp']
            if i['kind'] == 1:
                full = 16
            prange = 256 if rng.random() < 0.15 else full
            ops = []
            if i['kind'] != 3 and len(Ref(i).usable_pages()) >= 2 and rng.random() < 0.4:
                ops = self.gfx_ops(i, rng)
                hist['graphics history'] = hist.get('graphics history', 0) + 1
                out.append(self.mk(ad, opts, scr, w, rng.randrange(256), prange, ops))
                continue
            for _ in range(rng.choice([1, 2, 3, 3, 4, 5, 6])):
                r = rng.random()
                a = self.addr_pool(i, rng)
                if ops and rng.random() < 0.35:
                    # near an earlier address: read back what was written
                    prev = ops[-1]
                    if prev[0] in ('peek', 'poke', 'bsave', 'bload', 'bloadgen') and rng.random() < 0.8:
                        a = min(max(prev[1] * 16 + prev[2] + rng.choice([0, 0, 0, 1, -1, 2, -5]), VIDEO_LO), VIDEO_HI - 1)
                seg, off = self.split(a, i, rng)
                if i['npages'] >= 2 and rng.random() < 0.08:
                    dst = rng.randrange(i['npages'])
                    ops.append(['pcopy', rng.choice([p for p in range(i['npages']) if p != dst]), dst])
                    hist['pcopy'] = hist.get('pcopy', 0) + 1
                    continue
                if i['kind'] == 1 and rng.random() < 0.3:
                    if rng.random() < 0.5:
                        ops.append(['plane', rng.choice([0, 1, 2, 3, 3, 4, 5, 7, 255])])
                    else:
                        ops.append(['mask', rng.choice([0, 1, 2, 4, 8, 5, 10, 15, 255, 16, 3])])
                    kind = 'reg'
                elif rng.random() < 0.4 and any(o[0] == 'bsave' for o in ops):
                    # load a file saved earlier in the session: at offset 0, where it came from, elsewhere
                    k = rng.choice([j for j, o in enumerate(ops) if o[0] == 'bsave'])
                    room = VIDEO_HI - ops[k][1] * 16 - ops[k][3]
                    cands = [None, 0, 0, ops[k][2]]
                    if ops[k][1] == seg:
                        cands.append(off)
                    lo = max(0, VIDEO_LO - ops[k][1] * 16)
                    cands = [c for c in cands if c is None or lo <= c <= min(room, 0xffff)]
                    ops.append(['bloadf', k, rng.choice(cands or [None])])
                    kind = 'bloadf'
                elif r < 0.25:
                    ops.append(['peek', seg, off])
                    kind = 'peek'
                elif r < 0.5:
                    v = rng.choice(common.BYTE_POOL) if rng.random() < 0.3 else rng.randrange(256)
                    if rng.random() < 0.02:
                        v = rng.choice([256, -1, 300])
                    ops.append(['poke', seg, off, v])
                    kind = 'poke'
                else:
                    ln = self.rand_len(i, rng)
                    ln = min(ln, VIDEO_HI - a, 0xffff)
                    if r < 0.75:
                        ops.append(['bsave', seg, off, ln])
                        kind = 'bsave'
                    else:
                        # the file header may name another offset than the statement, or the statement none
                        hv = rng.random()
                        h = [] if hv < 0.4 else [['omit']] if hv < 0.6 else \
                            [['given', rng.choice([0, 1, off ^ 1, (off + 0x2000) & 0xffff, rng.randrange(0x10000)])]]
                        if ln <= 24 and rng.random() < 0.5:
                            ops.append(['bload', seg, off, common.rand_bytes(rng, ln)] + h)
                        else:
                            # long writes are slow in the model (list indexing): cap them
                            ops.append(['bloadgen', seg, off, rng.randrange(256), min(ln, 2500)] + h)
                        kind = 'bload'
                hist[kind] = hist.get(kind, 0) + 1
            case = self.mk(ad, opts, scr, w, rng.randrange(256), prange, ops)
            out.append(case)
        self.histogram = hist
        return out

    def op_addrs(self, op, ops=()):
        """absolute addresses touched by an operation (sampled for long blocks)"""
        if op[0] in ('peek', 'poke'):
            return [op[1] * 16 + op[2]]
        if op[0] == 'bloadf':
            f = bloadf_of(op, ops)
            if f is None:
                return []
            op = ['bsave', f[0], f[1] if f[2] is None else f[2], f[3]]
        if op[0] in ('bsave', 'bloadgen', 'bload'):
            a = op[1] * 16 + op[2]
            n = op[3] if op[0] == 'bsave' else (op[4] if op[0] == 'bloadgen' else len(op[3]))
            if n <= 8:
                return list(range(a, a + n))
            step = max(1, n // 6)
            return sorted(set([a, a + 1, a + 2, a + n - 1, a + n - 2] + list(range(a, a + n, step))))
        return []

    def probes_for(self, case):
        i = self.info(case)
        ref = Ref(i)
        pr = []
        seen = set()

        def add(p, a, b):
            if i['kind'] == 3:
                ok = 0 <= p < i['npages'] and 0 <= a < i['height'] and 0 <= b < i['width']
            else:
                ok = 0 <= p < i['npages'] and 0 <= a < i['height'] and 0 <= b < i['width']
            if ok and (p, a, b) not in seen and len(pr) < 90:
                seen.add((p, a, b))
                pr.append([p, a, b])
        ap = 0
        for op in case['ops']:
            if op[0] == 'page':
                ap = op[1]
            elif op[0] in ('pset', 'point'):
                for dx in (0, -1, 1):
                    add(ap, op[2], op[1] + dx)
            elif op[0] == 'hline':
                for x in (op[1] - 1, op[1], (op[1] + op[2]) // 2, op[2], op[2] + 1):
                    add(ap, op[3], x)
            elif op[0] == 'pcopy' and i['kind'] != 3:
                add(op[2], case['seed'] % i['height'], (case['seed'] * 7) % i['width'])
            elif op[0] == 'pcopy':
                add(op[2], case['seed'] % i['height'], (case['seed'] * 7) % i['width'])
            for a in self.op_addrs(op, case['ops']):
                for aa in (a, a - 1, a + 1):
                    c = ref.cell(aa)
                    if c is None:
                        continue
                    if i['kind'] == 3:
                        add(c[0], c[1], c[2])
                    else:
                        page, y, x0, npix = c[0], c[1], c[2], c[3]
                        for x in (x0, x0 + npix - 1, x0 + npix // 2):
                            add(page, y, x)
                        if aa == a:
                            add(page, y + 1, x0)
                            add(page, y - 1, x0)
        # fixed spread of further probes
        k = case['seed']
        for j in range(8):
            add((k + j) % i['npages'], (k * 7 + j * 31) % i['height'], (k * 13 + j * 97) % i['width'])
        return pr

    # ------------------------------------------------------------------ implementation
    def fill(self, s, case, i):
        d = s._impl.display
        from pcbasic.basic.base.bytematrix import ByteMatrix
        for p, page in enumerate(d.pages):
            if i['kind'] == 3:
                for r in range(i['height']):
                    row = page._rows[r]
                    row.chars[:] = [bytes([v]) for v in init_row(case['seed'] + 1, p, r, i['width'], 256)]
                    row.attrs[:] = list(init_row(case['seed'] + 2, p, r, i['width'], 256))
            else:
                pix = page._pixels
                for y in range(i['height']):
                    pix[y, 0:i['width']] = ByteMatrix(1, i['width'], init_row(case['seed'], p, y, i['width'], case['range']))

    def snapshot(self, s, i):
        d = s._impl.display
        if i['kind'] == 3:
            return [[(b''.join(r.chars), bytes(r.attrs)) for r in page._rows] for page in d.pages]
        return [[bytes(r) for r in page._pixels._rows] for page in d.pages]

    @staticmethod
    def basic_error(text):
        from pcbasic.basic.base import error
        t = text.strip()
        if not t:
            return None
        for num, msg in error.BASICError.messages.items():
            if t.startswith(msg.decode('latin-1')):
                return num
        return 0

    def write_bload(self, d, name, seg, off, data, tandy=False):
        hdr = b'\xfd' + struct.pack('<HHH', seg, off, len(data) & 0xffff)
        with open(os.path.join(d, name + '.BAS'), 'wb') as f:
            f.write(hdr + bytes(data) + b'\x1a')

    def run_session(self, case, bytewise):
        """Run the operations in a fresh session.  bytewise: blocks are done by PEEK/POKE loops instead.
        -> (out list, per-op records for the oracle, final snapshot, info)"""
        d = common.tmpdir('c34')
        s = None
        try:
            s = self.open(case, d)
            i = self.info_of(s)
            self.fill(s, case, i)
            mem = s._impl.all_memory
            out = []
            recs = []
            err = None
            ap = 0
            ref = Ref(i)
            for k, op in enumerate(case['ops']):
                kind = op[0]
                rec = {'op': op, 'ap': ap}
                if kind in ('page', 'pcopy', 'pset', 'hline'):
                    stmt = {'page': 'SCREEN ,,%d,%d', 'pcopy': 'PCOPY %d,%d', 'pset': 'PSET (%d,%d),%d',
                            'hline': 'LINE (%d,{y})-(%d,{y}),%d'}[kind]
                    if kind == 'hline':
                        stmt = stmt.format(y=op[3]) % (op[1], op[2], op[4])
                    else:
                        stmt = stmt % tuple(op[1:])
                    e = self.basic_error(s.execute(stmt))
                    if kind == 'page' and e is None:
                        ap = op[1]
                    if e is None and kind in ('pcopy', 'pset', 'hline'):
                        rec['snap'] = self.snapshot(s, i)
                    if bytewise and e is None and kind in ('pset', 'hline'):
                        xs = [op[1]] if kind == 'pset' else sorted(set([op[1], (op[1] + op[2]) // 2, op[2]]))
                        y = op[2] if kind == 'pset' else op[3]
                        rec['mem'] = [self.decode_pixel(s, i, ref, ap, x, y) for x in xs]
                elif kind == 'point':
                    v = s.evaluate('POINT(%d,%d)' % (op[1], op[2]))
                    e = 0 if v is None else None
                    if v is not None:
                        out.append(int(v))
                        rec['res'] = int(v)
                        if bytewise:
                            rec['mem'] = self.decode_pixel(s, i, ref, ap, op[1], op[2])
                elif kind in ('plane', 'mask'):
                    r = s.execute('OUT %s,%d' % ('&H3CF' if kind == 'plane' else '&H3C5', op[1]))
                    e = self.basic_error(r)
                    rec['res'] = None
                elif kind == 'bloadf':
                    e = None
                    f = bloadf_of(op, case['ops'])
                    if f is not None and 'res' in recs[op[1]]:
                        fseg, foff, given, n = f
                        # the address asked for: the given offset (0 included), else where the file came from
                        target = fseg * 16 + (foff if given is None else given)
                        rec['target'] = target
                        if bytewise:
                            for j, b in enumerate(recs[op[1]]['res']):
                                mem._set_memory(target + j, b)
                        else:
                            r = s.execute('DEF SEG=%d' % fseg)
                            e = self.basic_error(r)
                            if e is None:
                                r = s.execute('BLOAD "S%d"%s' % (op[1], '' if given is None else ',%d' % given))
                                e = self.basic_error(r)
                        rec['snap'] = self.snapshot(s, i)
                else:
                    seg, off = op[1], op[2]
                    addr = seg * 16 + off
                    offs = str(off) if (off < 32768 or (k + case['seed']) % 2) else str(off - 65536)
                    r = s.execute('DEF SEG=%d' % seg)
                    e = self.basic_error(r)
                    if e is None and kind == 'peek':
                        v = s.evaluate('PEEK(%s)' % offs)
                        if v is None:
                            e = 0
                        else:
                            out.append(int(v))
                            rec['res'] = int(v)
                            if bytewise:
                                rec['points'] = self.points_of(s, i, ref, ap, addr)
                    elif e is None and kind == 'poke':
                        if bytewise:
                            rec['before'] = self.snapshot(s, i)
                        r = s.execute('POKE %s,%d' % (offs, op[3]))
                        e = self.basic_error(r)
                        if bytewise and e is None:
                            rec['after'] = self.snapshot(s, i)
                            rec['readback'] = mem._get_memory(addr)
                            if i['kind'] == 1:
                                # every colour plane of the mode, read one by one (register restored)
                                mm = s._impl.display.mode.memorymap
                                saved = mm._plane
                                rec['planes'] = {}
                                try:
                                    for pl in i['planes_used']:
                                        mm.set_plane(pl)
                                        rec['planes'][pl] = mem._get_memory(addr)
                                finally:
                                    mm.set_plane(saved)
                            rec['plane'] = getattr(s._impl.display.mode.memorymap, '_plane', None)
                            rec['mask'] = getattr(s._impl.display.mode.memorymap, '_plane_mask', None)
                            rec['points'] = self.points_of(s, i, ref, ap, addr)
                    elif e is None and kind == 'bsave':
                        n = op[3]
                        if bytewise:
                            data = [mem._get_memory(a) for a in range(addr, addr + n)]
                        else:
                            r = s.execute('BSAVE "S%d",%s,%d' % (k, offs, n))
                            e = self.basic_error(r)
                            data = []
                            if e is None:
                                raw = open(os.path.join(d, 'S%d.BAS' % k), 'rb').read()
                                if raw[:1] != b'\xfd' or struct.unpack('<HHH', raw[1:7]) != (seg, off, n):
                                    e = 0
                                data = list(raw[7:7 + n])
                                if len(data) != n:
                                    e = 0
                        rec['res'] = data
                        if e is None:
                            out.extend(report(data))
                    elif e is None and kind in ('bload', 'bloadgen'):
                        data = op[3] if kind == 'bload' else gen_bytes(op[3], op[4])
                        hoff, given = hdr_of(op)
                        if bytewise:
                            for j, b in enumerate(data):
                                mem._set_memory(addr + j, b)
                        else:
                            self.write_bload(d, 'L%d' % k, seg, hoff, data)
                            r = s.execute('BLOAD "L%d"%s' % (k, '' if given is None else ',' + offs))
                            e = self.basic_error(r)
                        rec['snap'] = self.snapshot(s, i)
                recs.append(rec)
                if e is not None:
                    err = e
                    out.extend([-1, e])
                    break
            snap = self.snapshot(s, i)
            for p, a, b in (case['probes'] if err is None else []):
                if i['kind'] == 3:
                    ch, at = snap[p][a]
                    out.extend([ch[b], at[b]])
                else:
                    out.append(snap[p][a][b])
            return out, recs, snap, i
        finally:
            if s is not None:
                s.close()
            common.rmtree(d)

    def points_of(self, s, i, ref, ap, addr):
        """the pixels an address of the ACTIVE page covers as POINT reports them: (cell, row with those pixels)"""
        if i['kind'] == 3:
            return None
        cell = ref.cell(addr)
        if cell is None or cell[0] != ap:
            return None
        row = bytearray(i['width'])
        for x in range(cell[2], cell[2] + cell[3]):
            v = s.evaluate('POINT(%d,%d)' % (x, cell[1]))
            if v is None or not 0 <= int(v) <= 255:
                return None
            row[x] = int(v)
        return [list(cell), bytes(row)]

    def decode_pixel(self, s, i, ref, page, x, y):
        """the attribute of pixel (x, y) as video memory encodes it (read byte by byte through Memory), or None
        when its memory is outside the PEEKable range; the EGA read plane register is restored"""
        mem = s._impl.all_memory
        a = ref.addr(page, x, y)
        if not (VIDEO_LO <= a < VIDEO_HI - 1):
            return None
        if i['kind'] == 0:
            bpp = i['bpp']
            k = x % (8 // bpp)
            return (mem._get_memory(a) >> (8 - bpp - k * bpp)) & ((1 << bpp) - 1)
        if i['kind'] == 2:
            sh = 7 - x % 8
            return ((mem._get_memory(a) >> sh) & 1) | (((mem._get_memory(a + 1) >> sh) & 1) << 1)
        mm = s._impl.display.mode.memorymap
        saved = mm._plane
        v = 0
        try:
            for p in i['planes_used']:
                mm.set_plane(p)
                v |= ((mem._get_memory(a) >> (7 - x % 8)) & 1) << p
        finally:
            mm.set_plane(saved)
        return v

    def vmask(self, i):
        """the bits of a pixel that video memory holds"""
        if i['kind'] == 0:
            return (1 << i['bpp']) - 1
        if i['kind'] == 2:
            return 3
        return sum(1 << p for p in i['planes_used'])

    def impl(self, case):
        with core.time_limit(240):
            out, recs, snap, i = self.run_session(case, False)
            self.__dict__.setdefault('_runs', {})[core.sha(case)] = (recs, snap, i)
        return out

    # ------------------------------------------------------------------ model
    def model_term(self, case):
        i = self.info(case)
        ops = []
        for op in case['ops']:
            k = op[0]
            if k == 'plane':
                ops.append('OpPlane %d' % op[1])
            elif k == 'mask':
                ops.append('OpMask %d' % op[1])
            elif k == 'page':
                ops.append('OpPage %d' % op[1])
            elif k == 'pcopy':
                ops.append('OpPcopy %d %d' % (op[1], op[2]))
            elif k == 'pset':
                ops.append('OpPset %d %d %d' % (op[1], op[2], op[3]))
            elif k == 'hline':
                ops.append('OpHline %d %d %d %d' % (op[1], op[2], op[3], op[4]))
            elif k == 'point':
                ops.append('OpPoint %d %d' % (op[1], op[2]))
            elif k == 'bloadf':
                f = bloadf_of(op, case['ops'])
                if f is not None:
                    idx = sum(1 for o in case['ops'][:op[1]] if o[0] == 'bsave')
                    ops.append('OpBloadFile %d %s' % (idx, 'None' if op[2] is None else '(Some %d)' % op[2]))
            else:
                a = op[1] * 16 + op[2]
                if k == 'peek':
                    ops.append('OpPeek %d' % a)
                elif k == 'poke':
                    ops.append('OpPoke %d (%d)' % (a, op[3]))
                elif k == 'bsave':
                    ops.append('OpBsave %d %d %d' % (op[1], op[2], op[3]))
                elif k in ('bload', 'bloadgen'):
                    hoff, given = hdr_of(op)
                    o = 'None' if given is None else '(Some %d)' % given
                    if k == 'bload':
                        ops.append('OpBload %d %d %s %s' % (op[1], hoff, o, core.zl(op[3])))
                    else:
                        ops.append('OpBloadGen %d %d %s %d %d' % (op[1], hoff, o, op[3], op[4]))
        probes = '; '.join('(%d, %d, %d)' % tuple(p) for p in case['probes'])
        return '(run_case (%s %d) %d %d [%s] [%s])' % (
            mode_ident(i['name']), i['mem'], case['seed'], case['range'], '; '.join(ops), probes)

    # ------------------------------------------------------------------ oracle (no Coq model involved)
    def pack(self, i, snap, cell, plane_reg):
        """the byte that the pixels of the cell encode (hardware layout)"""
        page, y, x0, npix, pl = cell
        row = snap[page][y]
        if i['kind'] == 0:
            bpp = i['bpp']
            v = 0
            for k in range(npix):
                v = (v << bpp) | (row[x0 + k] & ((1 << bpp) - 1))
            return v
        if i['kind'] == 1:
            pu = i['planes_used']
            pl = plane_reg % (max(pu) + 1)
            if pl not in pu:
                return 0
        v = 0
        for k in range(8):
            v = (v << 1) | ((row[x0 + k] >> pl) & 1)
        return v

    def oracle(self, case, out):
        runs = self.__dict__.get('_runs', {})
        key = core.sha(case)
        if key not in runs:
            self.impl(case)
        recs_a, snap_a, i = runs[key]
        with core.time_limit(400):
            out_b, recs_b, snap_b, _ = self.run_session(case, True)
        ref = Ref(i)
        if len(recs_a) != len(recs_b):
            return 'block session and bytewise session stop at different operations (%d vs %d)' % (len(recs_a), len(recs_b))
        # current screen for PEEK checks: initial fill, updated after each modifying op of the bytewise session
        plane_reg = 0
        cur = None
        for k, (ra, rb) in enumerate(zip(recs_a, recs_b)):
            op = rb['op']
            kind = op[0]
            if kind == 'plane':
                plane_reg = op[1]
                continue
            if kind == 'mask':
                continue
            if kind in ('pcopy', 'page'):
                if ra.get('snap') != rb.get('snap'):
                    return 'page buffers differ between the two sessions after %s' % (op,)
                continue
            if kind in ('pset', 'hline'):
                # what a graphics statement draws is what video memory encodes
                for got in rb.get('mem', []):
                    if got is not None and got != op[-1] & self.vmask(i):
                        return '%s on page %d: video memory encodes attribute %d there, not %d' % (
                            op, rb['ap'], got, op[-1])
                if ra.get('snap') != rb.get('snap'):
                    return 'page buffers differ between the two sessions after %s' % (op,)
                continue
            if kind == 'point':
                if 'res' in rb and rb.get('mem') is not None and rb['res'] & self.vmask(i) != rb['mem']:
                    return 'POINT(%d,%d) on page %d = %d but video memory encodes %d' % (
                        op[1], op[2], rb['ap'], rb['res'], rb['mem'])
                if ra.get('res') != rb.get('res'):
                    return 'POINT(%d,%d) differs between the two sessions' % (op[1], op[2])
                continue
            if kind == 'bloadf':
                if 'snap' in ra and 'snap' in rb and ra['snap'] != rb['snap']:
                    return 'BLOAD "f"%s of the %d bytes BSAVEd from offset %d differs from POKEs of those bytes at %#x' % (
                        '' if op[2] is None else ',%d' % op[2], case['ops'][op[1]][3], case['ops'][op[1]][2],
                        rb.get('target', 0))
                continue
            addr = op[1] * 16 + op[2]
            if kind == 'poke' and 'after' in rb:
                before, after = rb['before'], rb['after']
                cell = ref.cell(addr)
                # only the covered pixels / the cell change
                for p in range(len(before)):
                    for y in range(len(before[p])):
                        if before[p][y] != after[p][y]:
                            if cell is None:
                                return 'POKE to %#x (backs no screen content) changed page %d row %d' % (addr, p, y)
                            if i['kind'] == 3:
                                okrow = (p, y) == (cell[0], cell[1])
                                b0, b1 = before[p][y], after[p][y]
                                diff = [(t, c) for t in (0, 1) for c in range(len(b0[t])) if b0[t][c] != b1[t][c]]
                                if not okrow or any((c, t) != (cell[2], cell[3]) for t, c in diff):
                                    return 'POKE to %#x changed text cells other than its own: page %d row %d %r' % (
                                        addr, p, y, diff[:4])
                            else:
                                diff = [x for x in range(len(before[p][y])) if before[p][y][x] != after[p][y][x]]
                                if (p, y) != (cell[0], cell[1]) or any(not cell[2] <= x < cell[2] + cell[3] for x in diff):
                                    return 'POKE to %#x changed pixels outside the ones it covers: page %d y %d x %r' % (
                                        addr, p, y, diff[:6])
                                if cell[4] is not None:
                                    # Tandy: only the plane of the address parity
                                    other = 1 - cell[4]
                                    if any(((before[p][y][x] ^ after[p][y][x]) >> other) & 1 for x in diff):
                                        return 'POKE to %#x changed the other colour plane' % addr
                                if i['kind'] == 1:
                                    # EGA: only planes enabled in the write mask (and present in the mode)
                                    keep = 0xff & ~(rb['mask'] & sum(1 << q for q in i['planes_used']))
                                    if any((before[p][y][x] ^ after[p][y][x]) & keep for x in diff):
                                        return 'POKE to %#x changed colour planes outside the write mask %#x' % (
                                            addr, rb['mask'])
                # PEEK returns the byte written on writable planes
                if cell is not None:
                    writable = True
                    if i['kind'] == 1:
                        pu = i['planes_used']
                        pl = rb['plane'] % (max(pu) + 1)
                        writable = pl in pu and (rb['mask'] >> pl) & 1 == 1
                        # each plane of the mode: the byte written if enabled in the mask register, else unchanged
                        for q, got in sorted(rb.get('planes', {}).items()):
                            if (rb['mask'] >> q) & 1:
                                if got != op[3]:
                                    return 'POKE %#x,%d with plane mask %#x: PEEK on colour plane %d returns %d' % (
                                        addr, op[3], rb['mask'], q, got)
                            else:
                                old = self.pack(i, before, cell, q)
                                if got != old:
                                    return 'POKE %#x,%d with plane mask %#x changed colour plane %d (%d -> %d)' % (
                                        addr, op[3], rb['mask'], q, old, got)
                    if writable and rb['readback'] != op[3]:
                        return 'PEEK after POKE %#x,%d returns %d' % (addr, op[3], rb['readback'])
                if rb.get('points'):
                    pc, prow = rb['points']
                    want = self.pack(i, {pc[0]: {pc[1]: prow}}, tuple(pc), rb['plane'] or 0)
                    if rb['readback'] != want:
                        return 'after POKE %#x,%d PEEK returns %d but the pixels POINT reports encode %d' % (
                            addr, op[3], rb['readback'], want)
            if kind == 'peek' and 'res' in rb:
                snap = self._snap_before(recs_b, k, case, i)
                cell = ref.cell(addr)
                if cell is None:
                    want = 0
                elif i['kind'] == 3:
                    chs, ats = snap[cell[0]][cell[1]]
                    want = ats[cell[2]] if cell[3] else chs[cell[2]]
                else:
                    want = self.pack(i, snap, cell, plane_reg)
                if rb['res'] != want:
                    return 'PEEK(%#x) = %d but the screen content it covers encodes %d' % (addr, rb['res'], want)
                if rb.get('points'):
                    pc, prow = rb['points']
                    want = self.pack(i, {pc[0]: {pc[1]: prow}}, tuple(pc), plane_reg)
                    if rb['res'] != want:
                        return 'PEEK(%#x) = %d but the pixels POINT reports on the active page encode %d' % (
                            addr, rb['res'], want)
                if ra.get('res') != rb['res']:
                    return 'PEEK(%#x) differs between the two sessions' % addr
            if kind == 'bsave' and 'res' in ra and 'res' in rb:
                if ra['res'] != rb['res']:
                    bad = [j for j in range(min(len(ra['res']), len(rb['res']))) if ra['res'][j] != rb['res'][j]]
                    return 'BSAVE of %d bytes from %#x differs from PEEKs at %d offsets, first %s' % (
                        op[3], addr, len(bad), bad[:3])
            if kind in ('bload', 'bloadgen') and 'snap' in ra and 'snap' in rb:
                if ra['snap'] != rb['snap']:
                    return 'BLOAD of %d bytes at %#x differs from POKEs of the same bytes' % (
                        len(op[3]) if kind == 'bload' else op[4], addr)
        if snap_a != snap_b:
            return 'final screen differs between block and bytewise session'
        return None

    def _snap_before(self, recs, k, case, i):
        """screen of the bytewise session just before operation k"""
        for j in range(k - 1, -1, -1):
            r = recs[j]
            if 'after' in r:
                return r['after']
            if 'snap' in r:
                return r['snap']
        cache = self.__dict__.setdefault('_init', {})
        key = core.sha([case['ad'], case['opts'], case['scr'], case['w'], case['seed'], case['range']])
        if key not in cache:
            cache.clear()
            if i['kind'] == 3:
                cache[key] = [[(bytes(init_row(case['seed'] + 1, p, r, i['width'], 256)),
                                bytes(init_row(case['seed'] + 2, p, r, i['width'], 256)))
                               for r in range(i['height'])] for p in range(i['npages'])]
            else:
                cache[key] = [[bytes(init_row(case['seed'], p, y, i['width'], case['range']))
                               for y in range(i['height'])] for p in range(i['npages'])]
        return cache[key]

    def nontrivial(self, case, out):
        i = self.info(case)
        ref = Ref(i)
        for op in case['ops']:
            for a in self.op_addrs(op, case['ops']):
                if ref.cell(a) is not None:
                    return -1 not in out[:2]
        return False

    def shrink_candidates(self, case):
        ops = case['ops']
        for k in range(len(ops)):
            c = dict(case)
            c['ops'] = drop_op(ops, k)
            if c['ops']:
                yield c
        for k, op in enumerate(ops):
            if op[0] == 'bsave' and op[3] > 1:
                for n in (op[3] // 2, op[3] - 1):
                    c = dict(case)
                    c['ops'] = ops[:k] + [op[:3] + [n]] + ops[k + 1:]
                    yield c
            if op[0] == 'bloadgen' and op[4] > 1:
                for n in (op[4] // 2, op[4] - 1):
                    c = dict(case)
                    c['ops'] = ops[:k] + [op[:4] + [n]] + ops[k + 1:]
                    yield c


CHECK = C34
