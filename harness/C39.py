"""C39 - RND is a deterministic full-period sequence in [0, 1)."""
import json
import os
from fractions import Fraction

from vlib import core
from harness import common

M24 = 1 << 24


# --- known finding K1 lives in fixes/K1.json until the coordinator merges it into known_findings.json;
# --- until then make the framework see it (no effect once it is merged: matched by property + id)
def _with_local_known(orig):
    def load():
        known = list(orig())
        if not any(k.get('property') == 'C39' and k.get('id') == 'K1' for k in known):
            p = os.path.join(core.VERIF, 'fixes', 'K1.json')
            if os.path.exists(p):
                known.append(json.load(open(p)))
        return known
    load._c39 = True
    return load


if not getattr(core.load_known, '_c39', False):
    core.load_known = _with_local_known(core.load_known)


# --- independent reference helpers (exact integer / rational arithmetic; no Coq model involved)
def single_value(b):
    """Rational value of an MBF single given as 4 bytes."""
    if b[3] == 0:
        return Fraction(0)
    m = b[0] | (b[1] << 8) | ((b[2] | 0x80) << 16)
    v = Fraction(m, M24) * Fraction(2) ** (b[3] - 128)
    return -v if b[2] & 0x80 else v


def double_value(b):
    if b[7] == 0:
        return Fraction(0)
    m = int.from_bytes(bytes(b[0:7]), 'little') | (1 << 55)
    v = Fraction(m, 1 << 56) * Fraction(2) ** (b[7] - 128)
    return -v if b[6] & 0x80 else v


def arg_value(val):
    """Numeric value of an argument spec, None for a string."""
    if val[0] == 'i':
        return Fraction(val[1])
    if val[0] == 's':
        return single_value(val[1])
    if val[0] == 'd':
        return double_value(val[1])
    return None


def scaled_exactly(b, seed):
    """bytes b denote seed / 2^24 exactly (and that is in [0, 1))."""
    if not (0 <= seed < M24) or len(b) != 4 or any(not (0 <= x < 256) for x in b):
        return False
    v = single_value(b)
    return v == Fraction(seed, M24) and 0 <= v < 1


def coq_val(val):
    if val[0] == 'i':
        return '(VInt %s)' % ('(%d)' % val[1] if val[1] < 0 else '%d' % val[1])
    if val[0] == 's':
        return '(VSng %s)' % core.zl(val[1])
    if val[0] == 'd':
        return '(VDbl %s)' % core.zl(val[1])
    return 'VStr'


def plain_op(op, vars_):
    """The operation with the variable replaced by the value the variable was given."""
    if op[0] == 'rv':
        return ['ra', vars_[op[1]]]
    if op[0] == 'zv':
        return ['z', vars_[op[1]]]
    return op


def value_bytes(val):
    if val[0] == 'i':
        return list((val[1] % 65536).to_bytes(2, 'little'))
    return list(val[1])


def var_name(i, val, sess):
    """BASIC name of variable i: even i a scalar, odd i an array element."""
    sig = {'i': '%', 's': '!', 'd': '#'}[val[0]]
    if i % 2:
        return ('A%s%s(%d)' % (val[0].upper(), sig, i)) if sess else (('A%s%s' % (val[0].upper(), sig)).encode(), [i])
    # a single-precision scalar is also reachable without sigil (default type): use that spelling in BASIC text
    nm = 'V%s%d' % (val[0].upper(), i)
    return (nm + ('' if (sig == '!' and i % 4 == 0) else sig)) if sess else ((nm + sig).encode(), [])


def coq_vop(op):
    if op[0] == 'rv':
        return 'VRnd %d' % op[1]
    if op[0] == 'zv':
        return 'VRandomize %d' % op[1]
    return 'VOp (%s)' % coq_op(op)


RELS = ['=', '<', '>', '<=', '>=', '<>']
REL_FN = ['eq', 'lt', 'gt', 'lte', 'gte', 'neq']


def rel_holds(rel, a, b):
    return [a == b, a < b, a > b, a <= b, a >= b, a != b][rel]


def coq_nexp(e):
    if e[0] == 'P':
        return 'NPlain'
    if e[0] == 'V':
        return '(NVal %s)' % coq_val(e[1])
    return '(%s %s)' % ({'A': 'NArg', '-': 'NNeg', '0': 'NZero', '2': 'NTwice'}[e[0]], coq_nexp(e[1]))


def encode_single(v):
    """MBF single bytes of a rational that is exactly representable (24-bit mantissa)."""
    if v == 0:
        return [0, 0, 0, 0]
    a = abs(v)
    e = 128
    while a >= 1:
        a /= 2
        e += 1
    while a < Fraction(1, 2):
        a *= 2
        e -= 1
    m = a * M24
    assert m.denominator == 1 and 0 < e < 256
    m = int(m)
    return [m & 255, (m >> 8) & 255, ((m >> 16) & 127) | (128 if v < 0 else 0), e]


def coq_op(op):
    if op[0] == 'n':
        return 'ONest %s' % coq_nexp(op[1])
    if op[0] == 'x':
        form = {'sub': 'XSub', 'cmp': '(XCmp %d)' % op[2], 'cmpsub': '(XCmpSub %d)' % op[2]}[op[1]]
        return 'OExpr %s [%s]' % (form, '; '.join('None' if d is None else '(Some %s)' % coq_val(d) for d in op[3]))
    if op[0] == 'r':
        return 'ORnd None'
    if op[0] == 'ra':
        return 'ORnd (Some %s)' % coq_val(op[1])
    if op[0] == 'z':
        return 'ORandomize %s' % coq_val(op[1])
    return 'OClear'


SINGLE_SPECIALS = [
    [0, 0, 0, 0], [0, 0, 0, 129], [0, 0, 128, 129], [0, 0, 192, 129], [255, 255, 127, 255], [255, 255, 255, 255],
    [0, 0, 128, 0], [1, 2, 131, 0], [255, 255, 255, 0], [0, 0, 0, 1], [0, 0, 128, 1], [0, 0, 0, 128],
    [0, 0, 128, 128], [0, 0, 0, 152], [0, 0, 128, 152], [1, 0, 128, 152], [0x52, 0xc7, 0x9f, 0x98],
    [0, 0x40, 0x1c, 0x90], [0, 0, 0x80, 0x90], [0, 0, 0, 0x7f],
]
DOUBLE_SPECIALS = [
    [0] * 8, [0, 0, 0, 0, 0, 0, 0, 0x81], [0, 0, 0, 0, 0, 0, 0x80, 0x81], [0, 0, 0, 0, 0, 0, 0, 0x7f],
    [0xde, 0xad, 0xbe, 0xef, 0xff, 0x80, 0x00, 0x80], [0, 0, 0, 0x80, 0, 0, 0x80, 0x81],
    [0, 0, 0, 0x80, 1, 0, 0x80, 0x81], [0, 0, 0, 0x81, 0, 0, 0x80, 0x81], [0, 0, 0, 0x7f, 255, 255, 255, 0x81],
    [0, 0, 0, 0x80, 255, 255, 255, 0x81], [0, 0, 0, 0x80, 255, 255, 0x7f, 255], [0, 0, 0, 0x80, 255, 255, 255, 255],
    [255] * 8, [255, 255, 255, 255, 255, 255, 0x7f, 255], [1, 2, 3, 4, 5, 6, 0x87, 0], [0, 0, 0, 255, 255, 255, 255, 254],
    [0, 0, 0, 0, 0, 0, 0x80, 0], [1, 0, 0, 0x80, 0, 0, 0, 0x90],
]


class C39(core.Check):
    ID = 'C39'
    GEN = ['gen_rnd']
    PROPS = 'props/C39.v'
    MODEL_IMPORTS = ['gen.Gen_rnd', 'model.Rnd']
    QUICK_CASES = 700
    THOROUGH_CASES = 4400
    TRUSTED = ['hand model model/Rnd.v of the object-handling parts of randomiser.py / randomize_ (rnd_ dispatch, '
               'Integer->Single and Double->Single conversion of the RND argument, the byte layout of the returned '
               'Single = from_int(seed).idiv(from_int(2^24)), derivation of n from the RANDOMIZE argument bytes, '
               'String argument errors) tied by correspondence only; the MBF division routine itself is not '
               'modelled (C04) - its result bytes are compared with the model for sampled (quick) / all 2^24 '
               '(thorough) seeds',
               'RANDOMIZE without argument (console prompt) is not exercised',
               'known finding K1: RANDOMIZE keeps the low seed byte (GW-BASIC fidelity), proved as '
               'C39_randomize_history_refuted + C39_randomize_same_low_byte']
    RULE = ('hist/sess cases: random call histories (RND, RND(0), RND(neg), RND(pos), RND(string), RANDOMIZE '
            'int/single/double/string, CLEAR/RUN/NEW) run on a real Randomiser with real value objects (hist: '
            'rnd_/randomize_ called directly on a live Session implementation; sess: BASIC text through '
            'Session.execute/evaluate), seed and result bytes compared with the model after every call; scale/sweep: '
            'result bytes of RND(0) for explicit seeds / checksums over contiguous seed ranges; walk: n real '
            '_cycle() steps; rzint: RANDOMIZE n for contiguous Integer ranges; period: oracle walks all 2^24 '
            'states of the real generator. non-trivial = at least one successful call; distinct by hash')
    histogram = None

    # ------------------------------------------------------------------ implementation access
    def _session(self):
        s = self.__dict__.get('_sess')
        if s is None:
            s = common.new_session()
            s.start()
            self._sess = s
        return s

    def _fresh(self):
        """A fresh real Randomiser wired into the live implementation (so randomize_ uses it)."""
        from pcbasic.basic.values import Randomiser
        impl = self._session()._impl
        r = Randomiser(impl.values)
        impl.randomiser = r
        return impl, r

    def _value(self, impl, val):
        V = impl.values
        if val[0] == 'i':
            return V.new_integer().from_int(val[1])
        if val[0] == 's':
            return V.new_single().from_bytes(bytes(val[1]))
        if val[0] == 'd':
            return V.new_double().from_bytes(bytes(val[1]))
        return V.new_string().from_str(b'seed')

    def _set_vars(self, impl, vars_):
        for i, val in enumerate(vars_):
            name, idx = var_name(i, val, False)
            impl.memory.set_variable(name, idx, self._value(impl, val))

    def _apply_var(self, impl, r, op, vars_, held=None):
        """RND(X) / RANDOMIZE X with X a real variable or array element in the live memory: the callee is
        handed the view the expression parser would hand it; afterwards the variable is read back."""
        name, idx = var_name(op[1], vars_[op[1]], False)
        view = impl.memory.view_or_create_variable(name, idx)
        try:
            if op[0] == 'rv':
                v = r.rnd_([view])
                if held is not None:
                    held.append(v)
                res = [0] + list(bytearray(v.to_bytes()))
            else:
                impl.randomize_([view])
                res = [0]
        except Exception as e:   # noqa
            res = common.canon_exc(e)
        obs = list(bytearray(impl.memory.view_or_create_variable(name, idx).to_bytes()))
        return res + [r._seed, len(obs)] + obs

    def _apply(self, impl, r, op, held=None):
        """Run one operation on the real objects; canonical result + seed.
        held: list collecting the value objects RND handed out (the caller keeps them, as an expression
        evaluator keeps a pending operand)."""
        from pcbasic.basic.values import values as V
        try:
            if op[0] in ('r', 'ra'):
                v = r.rnd_([None if op[0] == 'r' else self._value(impl, op[1])])
                if held is not None:
                    held.append(v)
                res = [0] + list(bytearray(v.to_bytes()))
            elif op[0] == 'n':
                res = [0] + list(bytearray(self._nest_direct(impl, r, op[1]).to_bytes()))
            elif op[0] == 'x':
                # the draws of one expression, left to right, all still pending when the operator is applied
                d = [r.rnd_([None if a is None else self._value(impl, a)]) for a in op[3]]
                if op[1] == 'sub':
                    res = [0] + list(bytearray(V.sub(d[0], d[1]).to_bytes()))
                elif op[1] == 'cmp':
                    res = [0, getattr(V, REL_FN[op[2]])(d[0], d[1]).to_int()]
                else:
                    res = [0, getattr(V, REL_FN[op[2]])(d[0], V.sub(d[1], d[2])).to_int()]
            elif op[0] == 'z':
                impl.randomize_([self._value(impl, op[1])])
                res = [0]
            else:
                r.clear()
                res = [0]
        except Exception as e:   # noqa
            res = common.canon_exc(e)
        return res + [r._seed]

    def _nest_direct(self, impl, r, e):
        """Evaluate a nested-draw expression on the real objects.  As in the expression parser, RND receives
        its argument as a lazy iterator: the argument expression runs when rnd_ unpacks it."""
        from pcbasic.basic.values import values as V
        if e[0] == 'P':
            return r.rnd_([None])
        if e[0] == 'V':
            return r.rnd_(iter([self._value(impl, e[1])]))
        if e[0] == 'A':
            def lazy():
                yield self._nest_direct(impl, r, e[1])
            return r.rnd_(lazy())
        inner = self._nest_direct(impl, r, e[1])
        if e[0] == '-':
            return V.neg(inner)
        if e[0] == '0':
            return V.mul(impl.values.new_integer().from_int(0), inner)
        return V.mul(inner, impl.values.new_integer().from_int(2))

    def _baseline(self, op):
        """The operation performed first thing on a fresh generator (implementation, cached)."""
        cache = self.__dict__.setdefault('_base', {})
        key = json.dumps(op)
        if key not in cache:
            impl, r = self._fresh()
            cache[key] = self._apply(impl, r, op)
        return cache[key]

    def _from_seed(self, seed, op):
        impl, r = self._fresh()
        r._seed = seed
        return self._apply(impl, r, op)

    def _stepper(self, r):
        """A function that advances the real generator r by one plain draw.  The reference is the public path
        rnd_([None]); a private helper `_cycle` (whatever its signature: in-place method or pure function) is
        used as a fast path only after it agreed with the public path on a spread of seeds."""
        def public():
            r.rnd_([None])
        cyc = getattr(r, '_cycle', None)

        def method():
            cyc()

        def pure():
            r._seed = cyc(r._seed)
        kind = self.__dict__.get('_step_kind')
        if kind is None:
            kind = 'public'
            samples = [0, 1, 2, 255, 256, M24 - 1, r._seed] + [(j * 2654435761) % M24 for j in range(1, 40)]
            keep = r._seed
            for name, fn in (('method', method), ('pure', pure)):
                if not callable(cyc):
                    break
                try:
                    ok = True
                    for sd in samples:
                        r._seed = sd
                        public()
                        want = r._seed
                        r._seed = sd
                        fn()
                        if r._seed != want:
                            ok = False
                            break
                except Exception:   # noqa  (wrong signature)
                    ok = False
                if ok:
                    kind = name
                    break
            r._seed = keep
            self._step_kind = kind
        return {'public': public, 'method': method, 'pure': pure}[kind]

    def _affine(self):
        """(A, C, initial seed) observed from plain RND draws at seeds 0 and 1 / from the constructor."""
        if '_ac' not in self.__dict__:
            impl, r = self._fresh()
            s0 = r._seed
            r._seed = 0
            r.rnd_([None])
            c = r._seed
            r._seed = 1
            r.rnd_([None])
            self._ac = ((r._seed - c) % M24, c, s0)
        return self._ac

    # ------------------------------------------------------------------ cases
    def corpus(self):
        i = lambda n: ['i', n]
        return [
            {'k': 'period'},
            # K1 witness: RANDOMIZE 1 after one RND (vs RANDOMIZE 1 at start-up, the oracle's baseline)
            {'k': 'hist', 'ops': [['r'], ['z', i(1)], ['r']]},
            {'k': 'hist', 'ops': [['z', i(1)], ['r']]},
            {'k': 'hist', 'ops': [['r'], ['ra', i(0)], ['ra', i(0)], ['r'], ['ra', i(1)], ['ra', i(-1)],
                                  ['ra', i(0)], ['c'], ['r']]},
            {'k': 'hist', 'ops': [['ra', ['s', [0, 0, 192, 129]]], ['r'], ['r'], ['ra', ['s', [0, 0, 192, 129]]]]},
            {'k': 'hist', 'ops': [['ra', ['$']], ['z', ['$']], ['r']]},
            {'k': 'hist', 'ops': [['ra', ['d', d]] for d in DOUBLE_SPECIALS]},
            {'k': 'hist', 'ops': [['ra', ['s', b]] for b in SINGLE_SPECIALS]},
            {'k': 'hist', 'ops': [['c'], ['z', ['d', [0, 0, 0, 0, 0, 0, 0, 0x81]]], ['c'],
                                  ['z', ['d', [0xde, 0xad, 0xbe, 0xef, 0xff, 0x80, 0x00, 0x80]]], ['c'],
                                  ['z', ['s', [0, 0x40, 0x1c, 0x90]]], ['c'], ['z', i(-32768)], ['c'],
                                  ['z', i(32767)]]},
            {'k': 'sess', 'ops': [['r'], ['ra', i(0)], ['z', i(5)], ['r'], ['c', 'RUN'], ['r'],
                                  ['c', 'CLEAR'], ['ra', ['s', [0, 0, 192, 129]]], ['c', 'NEW'], ['r']]},
            # seed C39f: RND(0), RND(0), RND straight after RANDOMIZE with integer / single / double arguments
            {'k': 'hist', 'ops': sum([[['z', v], ['ra', i(0)], ['ra', ['s', [0, 0, 0, 0]]], ['r']] for v in
                                      (i(1), i(10), i(1000), i(32767), i(-1), i(-2), i(-32768),
                                       ['s', [0, 0x40, 0x1c, 0x90]], ['s', [255, 255, 255, 255]],
                                       ['d', [0, 0, 0, 0, 0, 0, 0, 0x81]], ['d', [255] * 8])], [])},
            {'k': 'sess', 'ops': sum([[['z', v], ['ra', i(0)], ['ra', i(0)], ['r']] for v in
                                      (i(1), i(32767), i(-1), i(-32768), ['s', [0, 0x40, 0x1c, 0x90]],
                                       ['d', [0xde, 0xad, 0xbe, 0xef, 0xff, 0x80, 0x00, 0x80]])], [])},
            # seed C39e: RND(RND), RND(0*RND), RND(-RND), RND(FNR(2)), two levels; then the sequence goes on
            {'k': 'sess', 'ops': [['r'], ['n', ['A', ['P']]], ['r'], ['n', ['A', ['0', ['P']]]], ['ra', ['i', 0]],
                                  ['n', ['A', ['2', ['P']]]], ['r'], ['n', ['A', ['-', ['P']]]], ['r'],
                                  ['n', ['A', ['A', ['P']]]], ['n', ['A', ['-', ['A', ['-', ['P']]]]]], ['r'],
                                  ['c', 'CLEAR'], ['n', ['A', ['2', ['P']]]], ['r']]},
            {'k': 'hist', 'ops': [['r'], ['n', ['A', ['P']]], ['r'], ['n', ['A', ['0', ['P']]]], ['ra', ['i', 0]],
                                  ['n', ['A', ['2', ['P']]]], ['r'], ['n', ['A', ['-', ['P']]]], ['r'],
                                  ['n', ['A', ['A', ['0', ['V', ['s', [0, 0, 192, 130]]]]]]], ['r']]},
            # seed C39d: RND-RND, RND=RND, RND(-3)-RND, RND<(RND-RND): draws combined in one expression
            {'k': 'sess', 'ops': [['x', 'sub', 0, [None, None]], ['x', 'cmp', 0, [None, None]],
                                  ['x', 'sub', 0, [['s', [0, 0, 192, 130]], None]], ['x', 'cmp', 5, [None, None]],
                                  ['x', 'cmpsub', 1, [None, None, None]], ['x', 'cmp', 1, [None, ['i', 0]]], ['r']]},
            {'k': 'hist', 'ops': [['r'], ['r'], ['x', 'sub', 0, [None, None]], ['x', 'cmp', 0, [None, None]],
                                  ['x', 'sub', 0, [['s', [0, 0, 192, 130]], None]],
                                  ['x', 'cmpsub', 2, [None, None, None]], ['ra', ['i', 0]], ['r']]},
            # seed C39c: X=-3: A=RND(X): B=RND: C=RND(X): D=RND and the same with an array element; X read back
            {'k': 'hist', 'vars': [['s', [0, 0, 192, 130]], ['s', [0, 0, 192, 130]], ['i', -3],
                                   ['d', [0, 0, 0, 0, 0, 0, 192, 130]]],
             'ops': [['rv', 0], ['r'], ['rv', 0], ['r'], ['rv', 1], ['rv', 1], ['rv', 2], ['rv', 2], ['rv', 3],
                     ['rv', 3], ['zv', 0], ['zv', 1], ['ra', ['s', [0, 0, 192, 130]]], ['r']]},
            {'k': 'sess', 'vars': [['s', [0, 0, 192, 130]], ['s', [0, 0, 192, 130]], ['i', -3],
                                   ['d', [0, 0, 0, 0, 0, 0, 192, 130]]],
             'ops': [['rv', 0], ['r'], ['rv', 0], ['r'], ['rv', 1], ['rv', 1], ['c', 'CLEAR'], ['rv', 2], ['rv', 2],
                     ['rv', 3], ['rv', 3], ['zv', 0], ['zv', 1], ['ra', ['s', [0, 0, 192, 130]]], ['r']]},
            {'k': 'scale', 'seeds': [0, 1, 2, 3, 255, 256, 1 << 22, (1 << 23) - 1, 1 << 23, (1 << 23) + 1,
                                     M24 - 2, M24 - 1, 5228370] + [1 << j for j in range(24)]},
            {'k': 'sweep', 'lo': 0, 'n': 4096},
            {'k': 'sweep', 'lo': M24 - 4096, 'n': 4096},
            {'k': 'walk', 's': 5228370, 'n': 4096},
            {'k': 'walk', 's': 0, 'n': 1024},
            {'k': 'rzint', 's': 5228370, 'lo': -32768, 'n': 64},
            {'k': 'rzint', 's': 5228370, 'lo': -32, 'n': 64},
            {'k': 'rzint', 's': 5228370 + 1, 'lo': 32767 - 63, 'n': 64},
        ]

    def _rand_single(self, rng, neg=None):
        r = rng.random()
        if r < 0.25:
            b = list(rng.choice(SINGLE_SPECIALS))
        elif r < 0.5:
            b = [rng.choice([0, 1, 127, 128, 255]), rng.choice([0, 255, 1]), rng.choice([0, 127, 1, 64]),
                 rng.choice([0, 1, 104, 127, 128, 129, 144, 152, 153, 254, 255])]
        else:
            b = [rng.randrange(256) for _ in range(4)]
        if neg is True:
            b[2] |= 0x80
            if b[3] == 0:
                b[3] = rng.randrange(1, 256)
        elif neg is False:
            b[2] &= 0x7f
        return ['s', b]

    def _rand_double(self, rng, neg=None):
        r = rng.random()
        if r < 0.25:
            b = list(rng.choice(DOUBLE_SPECIALS))
        elif r < 0.55:
            b = [rng.randrange(256) for _ in range(3)] + [rng.choice([0, 0x7f, 0x80, 0x81, 0xff])] + \
                [rng.choice([0, 1, 254, 255]), rng.choice([0, 255]), rng.choice([0, 0x7f, 0x80, 0xff]),
                 rng.choice([0, 1, 128, 129, 254, 255])]
        else:
            b = [rng.randrange(256) for _ in range(8)]
        if neg is True:
            b[6] |= 0x80
            if b[7] == 0:
                b[7] = rng.randrange(1, 256)
        elif neg is False:
            b[6] &= 0x7f
        return ['d', b]

    def _rand_int(self, rng):
        return ['i', rng.choice(common.INT16_POOL) if rng.random() < 0.4 else rng.randrange(-32768, 32768)]

    def _rand_val(self, rng, neg=None, strings=True):
        r = rng.random()
        if strings and r < 0.04:
            return ['$']
        if r < 0.35:
            v = self._rand_int(rng)
            if neg is True:
                v[1] = -abs(v[1]) or -1
            elif neg is False:
                v[1] = abs(v[1]) if v[1] != -32768 else 1
            return v
        if r < 0.7:
            return self._rand_single(rng, neg)
        return self._rand_double(rng, neg)

    def _rand_vars(self, rng):
        """Variables / array elements used as arguments (even index: scalar, odd: array element): mostly
        negative (the reseeding class), every numeric type."""
        vars_ = []
        for _ in range(rng.choice([1, 2, 2, 3, 4])):
            neg = rng.choice([True, True, True, False, None])
            r = rng.random()
            if r < 0.5:
                v = self._rand_single(rng, neg)
            elif r < 0.75:
                v = self._rand_val(rng, neg, False)
            else:
                v = rng.choice([['s', [0, 0, 192, 130]], ['i', -3], ['d', [0, 0, 0, 0, 0, 0, 192, 130]],
                                ['s', [0, 0, 128, 129]], ['s', [255, 255, 255, 255]], ['s', [0, 0, 0, 0]]])
            vars_.append(v)
        return vars_

    def _rand_case(self, rng, sess=False):
        case = {'k': 'sess' if sess else 'hist'}
        vars_ = self._rand_vars(rng) if rng.random() < 0.5 else None
        ops = self._rand_ops(rng, sess)
        if vars_:
            # hand about half of the arguments over in variables; the same variable again and again
            ops2 = []
            for op in ops:
                if op[0] in ('ra', 'z') and rng.random() < 0.6:
                    i = rng.randrange(len(vars_))
                    ops2.append(['rv' if (op[0] == 'ra' or rng.random() < 0.5) else 'zv', i])
                    if rng.random() < 0.35:
                        ops2.append(['rv', i])
                else:
                    ops2.append(op)
            if not any(op[0] == 'rv' for op in ops2):
                ops2 += [['rv', 0], ['r'], ['rv', 0]]
            ops = ops2
            case['vars'] = vars_
        case['ops'] = ops
        return case

    def _rand_ops(self, rng, sess=False):
        n = rng.choice([1, 2, 3, 5, 8, 12]) if rng.random() < 0.7 else rng.randrange(1, 25)
        pool = []     # arguments reused inside the history (same argument twice is what the property is about)
        ops = []
        for _ in range(n):
            r = rng.random()
            if r < 0.28:
                ops.append(['r'])
            elif r < 0.40:
                ops.append(['ra', rng.choice([['i', 0], ['s', [0, 0, 0, 0]], ['d', [0] * 8],
                                              ['s', [5, 6, 0x87, 0]], ['d', [1, 2, 3, 4, 5, 6, 0x87, 0]]])])
            elif r < 0.58:
                v = rng.choice(pool) if pool and rng.random() < 0.4 else self._rand_val(rng, True, False)
                pool.append(v)
                ops.append(['ra', v])
            elif r < 0.68:
                ops.append(['ra', self._rand_val(rng, False, not sess)])
            elif r < 0.72:
                ops.append(['ra', self._rand_val(rng, None, not sess)])
            elif r < 0.92:
                v = rng.choice(pool) if pool and rng.random() < 0.4 else self._rand_val(rng, None, not sess)
                pool.append(v)
                ops.append(['z', v])
            else:
                ops.append(['c', rng.choice(['CLEAR', 'RUN', 'NEW'])] if sess else ['c'])
        # expressions that combine several draws (first draw still pending while the next is made)
        for j in range(len(ops)):
            if rng.random() < 0.12:
                ops.insert(rng.randrange(len(ops) + 1), self._rand_expr(rng))
        for j in range(len(ops)):
            if rng.random() < 0.10:
                ops.insert(rng.randrange(len(ops) + 1), ['n', self._rand_nest(rng)])
        return ops

    def _rand_nest(self, rng, depth=0):
        """RND(<expression that draws>), one or two levels."""
        def inner(d):
            r = rng.random()
            if d >= 2 or r < 0.45:
                base = ['P']
            elif r < 0.6:
                base = ['V', self._rand_val(rng, rng.choice([True, False, None]), False)]
            else:
                base = ['A', inner(d + 1)]
            r = rng.random()
            if r < 0.25:
                return ['-', base]
            if r < 0.40:
                return ['0', base]
            if r < 0.60:
                return ['2', base]
            return base
        return ['A', inner(1)]

    def _rand_expr(self, rng):
        def draw():
            r = rng.random()
            if r < 0.7:
                return None
            if r < 0.82:
                return self._rand_val(rng, True, False)
            if r < 0.9:
                return rng.choice([['i', 0], ['s', [0, 0, 0, 0]]])
            return self._rand_val(rng, False, False)
        form = rng.choice(['sub', 'sub', 'cmp', 'cmp', 'cmpsub'])
        return ['x', form, rng.randrange(6) if form != 'sub' else 0, [draw() for _ in range(3 if form == 'cmpsub' else 2)]]

    def gen_cases(self, n):
        rng = self.rng
        thorough = self.tier == 'thorough'
        hist = {'hist': 0, 'sess': 0, 'scale': 0, 'sweep': 0, 'walk': 0, 'rzint': 0,
                'op_r': 0, 'op_ra': 0, 'op_z': 0, 'op_c': 0, 'op_rv': 0, 'op_zv': 0, 'op_x': 0, 'op_n': 0,
                'arg_i': 0, 'arg_s': 0, 'arg_d': 0, 'arg_$': 0, 'var_i': 0, 'var_s': 0, 'var_d': 0,
                'cases_with_variables': 0, 'variable_used_again': 0}
        light, heavy = [], []
        # --- heavy (model-side) cases
        if thorough:
            # every seed: 256 contiguous ranges of 65536; every Integer argument; the whole orbit in 64 chunks
            for j in range(256):
                heavy.append({'k': 'sweep', 'lo': j << 16, 'n': 1 << 16})
            impl, r = self._fresh()
            s = r._seed
            for j in range(64):
                heavy.append({'k': 'walk', 's': s, 'n': 1 << 18})
                r._seed = s
                step = self._stepper(r)
                for _ in range(1 << 18):
                    step()
                s = r._seed
            hist['exhaustive_seeds_scaled'] = M24
            hist['orbit_steps_tied'] = M24
        else:
            for j in range(16):
                heavy.append({'k': 'sweep', 'lo': rng.randrange(0, M24 - 2048), 'n': 2048})
            for j in range(6):
                heavy.append({'k': 'walk', 's': rng.randrange(M24), 'n': 4096})
        # RANDOMIZE over Integer arguments: all 65536 in thorough, 48 blocks of 128 in quick
        if thorough:
            for lo in range(-32768, 32768, 256):
                s0 = rng.choice([5228370, rng.randrange(M24)])
                light.append({'k': 'rzint', 's': s0, 'lo': lo, 'n': 256})
            hist['exhaustive_integer_arguments'] = 65536
        else:
            for _ in range(48):
                lo = rng.choice([-32768, -128, -64, 0, 32640, rng.randrange(-32768, 32641)])
                light.append({'k': 'rzint', 's': rng.choice([5228370, rng.randrange(M24)]), 'lo': lo, 'n': 128})
        n_sess = max(40, n // 14)
        n_scale = max(40, n // 14)
        n_hist = max(50, n - len(light) - len(heavy) - n_sess - n_scale)
        for _ in range(n_scale):
            seeds = []
            for _ in range(64):
                r = rng.random()
                if r < 0.3:
                    k = rng.randrange(25)
                    seeds.append(max(0, min(M24 - 1, (1 << k) + rng.choice([-2, -1, 0, 1, 2]))))
                elif r < 0.4:
                    seeds.append(rng.randrange(0, 70000))
                else:
                    seeds.append(rng.randrange(M24))
            light.append({'k': 'scale', 'seeds': seeds})
        for _ in range(n_hist):
            light.append(self._rand_case(rng))
        for _ in range(n_sess):
            light.append(self._rand_case(rng, sess=True))
        rng.shuffle(light)
        # spread the heavy cases evenly so that they land in different coqc shards
        out = []
        stride = max(1, len(light) // max(1, len(heavy)))
        hi = 0
        for idx, c in enumerate(light):
            if idx % stride == 0 and hi < len(heavy):
                out.append(heavy[hi])
                hi += 1
            out.append(c)
        out += heavy[hi:]
        for c in out:
            hist[c['k']] += 1
            for op in c.get('ops', []):
                hist['op_' + op[0]] += 1
                if op[0] in ('ra', 'z'):
                    hist['arg_' + op[1][0]] += 1
                if op[0] in ('rv', 'zv'):
                    hist['var_' + c['vars'][op[1]][0]] += 1
            if 'vars' in c:
                hist['cases_with_variables'] += 1
                used = [op[1] for op in c['ops'] if op[0] in ('rv', 'zv')]
                hist['variable_used_again'] += len(used) - len(set(used))
        self.histogram = hist
        return out

    # ------------------------------------------------------------------ implementation adapter
    def impl(self, case):
        k = case['k']
        with core.time_limit(300):
            if k == 'hist':
                impl, r = self._fresh()
                vars_ = case.get('vars', [])
                self._set_vars(impl, vars_)
                out = []
                held = []
                for op in case['ops']:
                    if op[0] in ('rv', 'zv'):
                        out += self._apply_var(impl, r, op, vars_, held)
                    else:
                        out += self._apply(impl, r, op, held)
                # every value handed out is still held by the caller: read them all again at the end
                for v in held:
                    out += list(bytearray(v.to_bytes()))
                return out
            if k == 'sess':
                return self._impl_sess(case)
            if k == 'scale':
                impl, r = self._fresh()
                zero = impl.values.new_single().from_int(0)
                out = []
                for sd in case['seeds']:
                    r._seed = sd
                    out += list(bytearray(r.rnd_([zero]).to_bytes()))
                return out
            if k == 'sweep':
                return self._impl_sweep(case)
            if k in ('walk', 'period'):
                impl, r = self._fresh()
                s0 = case['s'] if k == 'walk' else r._seed
                n = case['n'] if k == 'walk' else 4096
                r._seed = s0
                first = cnt = 0
                cyc = self._stepper(r)
                r._seed = s0
                for i in range(1, n + 1):
                    cyc()
                    if r._seed == s0:
                        cnt += 1
                        first = first or i
                return ([s0] if k == 'period' else []) + [first, cnt, r._seed]
            if k == 'rzint':
                impl, r = self._fresh()
                out = []
                for v in range(case['lo'], case['lo'] + case['n']):
                    r._seed = case['s']
                    impl.randomize_([impl.values.new_integer().from_int(v)])
                    out.append(r._seed)
                return out
        raise ValueError('unknown case kind %r' % k)

    def _impl_sweep(self, case):
        impl, r = self._fresh()
        zero = impl.values.new_single().from_int(0)
        a = x = 0
        bad = None
        rnd = r.rnd_
        for sd in range(case['lo'], case['lo'] + case['n']):
            r._seed = sd
            b = bytearray(rnd([zero]).to_bytes())
            c = b[0] | (b[1] << 8) | (b[2] << 16) | (b[3] << 24)
            a += c
            x ^= c * ((sd & 255) + 1)
            # the property, exactly, per seed (integer arithmetic): mantissa * 2^(e-152) == sd / 2^24, sign +
            if bad is None:
                if sd == 0:
                    ok = c == 0
                else:
                    e = b[3]
                    m = b[0] | (b[1] << 8) | ((b[2] | 0x80) << 16)
                    ok = b[2] < 0x80 and 0 < e <= 152 and m << 24 == sd << (152 - e) and r._seed == sd
                if not ok:
                    bad = sd
        self.__dict__.setdefault('_sweep_bad', {})[core.sha(case)] = bad
        return [a, x]

    def _impl_sess(self, case):
        out = []
        with common.new_session() as s:
            rnd = lambda: s._impl.randomiser

            def bytes_expr(val):
                return '+'.join('CHR$(%d)' % b for b in val[1])

            def arg_text(val, slot=''):
                if val[0] == 'i':
                    # (a negative literal is unary minus applied to a literal: values.neg promotes to Single)
                    if 0 <= val[1] < 32768 and (val[1] % 2 == 0):
                        return '%d' % val[1]
                    s.execute('QI%s%%=%d' % (slot, val[1]))
                    return 'QI%s%%' % slot
                if val[0] == 's':
                    s.execute('QS%s!=CVS(%s)' % (slot, bytes_expr(val)))
                    return 'QS%s!' % slot
                s.execute('QD%s#=CVD(%s)' % (slot, bytes_expr(val)))
                return 'QD%s#' % slot
            vars_ = case.get('vars', [])

            def lit(val):
                return ('%d' % val[1]) if val[0] == 'i' else \
                    ('CVS(%s)' if val[0] == 's' else 'CVD(%s)') % bytes_expr(val)

            def assign_vars():
                for i, val in enumerate(vars_):
                    s.execute('%s=%s' % (var_name(i, val, True), lit(val)))

            def observe(i):
                nm = var_name(i, vars_[i], True)
                fn = {'i': 'MKI$', 's': 'MKS$', 'd': 'MKD$'}[vars_[i][0]]
                v = s.evaluate('%s(%s)' % (fn, nm))
                if not isinstance(v, bytes):
                    raise RuntimeError('evaluate(%s(%s)) -> %r' % (fn, nm, v))
                return [len(v)] + list(v)
            assign_vars()
            # a user function that draws: defined by a program line (DEF FN is illegal in direct mode); RUN
            # resets the generator, which at this point is in its start-up state anyway
            fn_ok = [False]
            uses_fn = any(op[0] == 'n' for op in case['ops'])

            def define_fn():
                if uses_fn:
                    s.execute('2 DEF FNR(Q)=RND*Q\r')
                    s.execute('RUN')
                    fn_ok[0] = True
                    assign_vars()
            define_fn()
            for op in case['ops']:
                if op[0] in ('rv', 'zv'):
                    nm = var_name(op[1], vars_[op[1]], True)
                    if op[0] == 'rv':
                        v = s.evaluate('MKS$(RND(%s))' % nm)
                        if not isinstance(v, bytes) or len(v) != 4:
                            raise RuntimeError('evaluate(MKS$(RND(%s))) -> %r' % (nm, v))
                        out += [0] + list(v)
                    else:
                        s.execute('RANDOMIZE %s' % nm)
                        out += [0]
                    out.append(rnd()._seed)
                    out += observe(op[1])
                    continue
                if op[0] == 'n':
                    slot = [0]

                    def text_of(e):
                        if e[0] == 'P':
                            return 'RND'
                        if e[0] == 'V':
                            slot[0] += 1
                            return 'RND(%s)' % arg_text(e[1], 'N%d' % slot[0])
                        if e[0] == 'A':
                            return 'RND(%s)' % text_of(e[1])
                        if e[0] == '-':
                            return '-%s' % text_of(e[1])
                        if e[0] == '0':
                            return '0*%s' % text_of(e[1])
                        if e[1] == ['P'] and fn_ok[0]:
                            return 'FNR(2)'             # DEF FNR(Q)=RND*Q : the draw happens inside the user function
                        return '%s*2' % text_of(e[1])
                    text = 'MKS$(%s)' % text_of(op[1])
                    v = s.evaluate(text)
                    if not isinstance(v, bytes) or len(v) != 4:
                        raise RuntimeError('evaluate(%s) -> %r' % (text, v))
                    out += [0] + list(v)
                    out.append(rnd()._seed)
                    continue
                if op[0] == 'x':
                    d = ['RND' if a is None else 'RND(%s)' % arg_text(a, str(j)) for j, a in enumerate(op[3])]
                    if op[1] == 'sub':
                        text = 'MKS$(%s-%s)' % (d[0], d[1])
                    elif op[1] == 'cmp':
                        text = '%s%s%s' % (d[0], RELS[op[2]], d[1])
                    else:
                        text = '%s%s(%s-%s)' % (d[0], RELS[op[2]], d[1], d[2])
                    v = s.evaluate(text)
                    if op[1] == 'sub':
                        if not isinstance(v, bytes) or len(v) != 4:
                            raise RuntimeError('evaluate(%s) -> %r' % (text, v))
                        out += [0] + list(v)
                    else:
                        if v not in (0, -1):
                            raise RuntimeError('evaluate(%s) -> %r' % (text, v))
                        out += [0, int(v)]
                    out.append(rnd()._seed)
                    continue
                if op[0] in ('r', 'ra'):
                    text = 'MKS$(RND)' if op[0] == 'r' else 'MKS$(RND(%s))' % arg_text(op[1])
                    v = s.evaluate(text)
                    if not isinstance(v, bytes) or len(v) != 4:
                        raise RuntimeError('evaluate(%s) -> %r' % (text, v))
                    out += [0] + list(v)
                elif op[0] == 'z':
                    s.execute('RANDOMIZE %s' % arg_text(op[1]))
                    out += [0]
                else:
                    if op[1] == 'RUN':
                        s.execute('1 REM\r')
                    s.execute(op[1])
                    out += [0]
                    define_fn()             # ... and the user function (its RUN is one more reset)
                    seed_now = rnd()._seed
                    assign_vars()           # CLEAR / RUN / NEW wipe the variables: set the test up again
                    out.append(seed_now)
                    continue
                out.append(rnd()._seed)
        return out

    # ------------------------------------------------------------------ model
    def model_term(self, case):
        k = case['k']
        if k in ('hist', 'sess'):
            vs = '[%s]' % '; '.join(coq_val(v) for v in case.get('vars', []))
            vops = '[%s]' % '; '.join(coq_vop(op) for op in case['ops'])
            if k == 'hist':
                return '(let st := %s in let ops := %s in vtrace seed0 st ops ++ vheld seed0 st ops)' % (vs, vops)
            if 'vars' in case:
                return '(vtrace seed0 %s %s)' % (vs, vops)
            return '(trace seed0 [%s])' % '; '.join(coq_op(op) for op in case['ops'])
        if k == 'scale':
            return '(flat_map rnd_bytes %s)' % core.zl(case['seeds'])
        if k == 'sweep':
            return '(scale_sum %d %d%%N)' % (case['lo'], case['n'])
        if k == 'walk':
            return '(walk %d %d%%N)' % (case['s'], case['n'])
        if k == 'period':
            return '(seed0 :: walk seed0 4096%N)'
        if k == 'rzint':
            lo = '(%d)' % case['lo'] if case['lo'] < 0 else '%d' % case['lo']
            return '(randomize_ints %d %s %d%%nat)' % (case['s'], lo, case['n'])
        raise ValueError(k)

    def nontrivial(self, case, out):
        if case['k'] in ('hist', 'sess'):
            return any(out[i] == 0 for i in self._op_offsets(case, out))
        return True

    # ------------------------------------------------------------------ property oracle
    @staticmethod
    def _parse(case, out):
        """per operation: (offset, op, error or None, value bytes or None, seed after, observed argument bytes
        or None) from a hist/sess output."""
        recs = []
        i = 0
        for op in case['ops']:
            start = i
            if out[i] == 0:
                nb = 4 if (op[0] in ('r', 'ra', 'rv', 'n') or op[:2] == ['x', 'sub']) else 1 if op[0] == 'x' else 0
                err, b, after = None, out[i + 1:i + 1 + nb], out[i + 1 + nb]
                i += nb + 2
            else:
                err, b, after = (out[i], out[i + 1]), None, out[i + 2]
                i += 3
            obs = None
            if op[0] in ('rv', 'zv'):
                obs = out[i + 1:i + 1 + out[i]]
                i += 1 + out[i]
            recs.append((start, op, err, b, after, obs))
        recs.append(i)          # offset of the tail (hist: the held values read again)
        return recs

    @classmethod
    def _op_offsets(cls, case, out):
        return [r[0] for r in cls._parse(case, out)[:-1]]

    def _records(self, case, out):
        vars_ = case.get('vars', [])
        return [(plain_op(op, vars_), err, b, after) for _, op, err, b, after, _ in self._parse(case, out)[:-1]]

    def _analyse(self, case, out):
        """Direct reading of the property on an observed history.  Returns [(kind, message)],
        kind 'K1' for the recorded RANDOMIZE low-byte dependence, 'other' for anything else."""
        A, C, s0 = self._affine()
        viol = []
        # an argument handed over in a variable is the same argument every time: the variable must still hold
        # what it was given (the analysis below reads every use of the variable as that value)
        vars_ = case.get('vars', [])
        for n, (_, op, _, _, _, obs) in enumerate(self._parse(case, out)[:-1]):
            if obs is not None and obs != value_bytes(vars_[op[1]]):
                viol.append(('other', 'op %d %s: the argument variable %s held %s before the call and %s after it'
                             % (n, json.dumps(op), var_name(op[1], vars_[op[1]], True),
                                value_bytes(vars_[op[1]]), obs)))
        seed = s0
        last = None                     # bytes of the last value returned by RND
        for n, (op, err, b, after) in enumerate(self._records(case, out)):
            tag = 'op %d %s' % (n, json.dumps(op))
            if not (0 <= after < M24):
                viol.append(('other', '%s: seed %d outside [0, 2^24)' % (tag, after)))
            if err is not None:
                if after != seed:
                    viol.append(('other', '%s: failed call changed the seed' % tag))
                seed = after
                continue
            if op[0] == 'n':
                # nested draws, taken in evaluation order: the argument expression first, then the outer call
                def ev(e, cur):
                    if e[0] == 'P':
                        cur = (A * cur + C) % M24
                        return cur, Fraction(cur, M24)
                    if e[0] in ('V', 'A'):
                        if e[0] == 'V':
                            v, spec = arg_value(e[1]), e[1]
                        else:
                            cur, v = ev(e[1], cur)
                            spec = ['s', encode_single(v)]
                        if v > 0:
                            cur = (A * cur + C) % M24
                        elif v < 0:
                            cur = self._baseline(['ra', spec])[-1]
                        return cur, Fraction(cur, M24)
                    cur, v = ev(e[1], cur)
                    return cur, (-v if e[0] == '-' else 0 * v if e[0] == '0' else 2 * v)
                cur, want = ev(op[1], seed)
                if after != cur or len(b) != 4 or single_value(b) != want:
                    viol.append(('other', '%s: taking the draws in evaluation order (argument first) the value is %s '
                                 'and the seed %d; observed %s (= %s) and seed %d'
                                 % (tag, want, cur, list(b), single_value(b) if len(b) == 4 else '?', after)))
                last = None
                seed = after
                continue
            if op[0] == 'x':
                # several draws in one expression: each is a value of the sequence in its own right
                cur, vals = seed, []
                for a in op[3]:
                    v = None if a is None else arg_value(a)
                    if a is None or v > 0:
                        cur = (A * cur + C) % M24
                    elif v < 0:
                        cur = self._baseline(['ra', a])[-1]
                    vals.append(cur)
                if after != cur:
                    viol.append(('other', '%s: seed %d after the expression, the draws lead to %d' % (tag, after, cur)))
                if op[1] == 'sub':
                    ok = len(b) == 4 and single_value(b) == Fraction(vals[0] - vals[1], M24)
                    want = '(%d - %d)/2^24' % (vals[0], vals[1])
                elif op[1] == 'cmp':
                    want = -1 if rel_holds(op[2], vals[0], vals[1]) else 0
                    ok = list(b) == [want]
                    want = '%d (%d %s %d)' % (want, vals[0], RELS[op[2]], vals[1])
                else:
                    want = -1 if rel_holds(op[2], vals[0], vals[1] - vals[2]) else 0
                    ok = list(b) == [want]
                    want = '%d (%d %s %d - %d)' % (want, vals[0], RELS[op[2]], vals[1], vals[2])
                if not ok:
                    viol.append(('other', '%s: the draws of this expression are the sequence values %s/2^24, so it '
                                 'is %s, but it gave %s' % (tag, vals, want, list(b))))
                last = None
                seed = after
                continue
            if op[0] in ('r', 'ra'):
                if not scaled_exactly(b, after):
                    viol.append(('other', '%s: returned bytes %s are not seed/2^24 = %d/2^24 in [0,1)' % (tag, b, after)))
                v = None if op[0] == 'r' else arg_value(op[1])
                if op[0] == 'ra' and v is None:
                    viol.append(('other', '%s: RND of a string returned a value' % tag))
                elif op[0] == 'ra' and v == 0:
                    if after != seed or (last is not None and b != last):
                        viol.append(('other', '%s: RND(0) did not repeat the last value' % tag))
                elif op[0] == 'ra' and v < 0:
                    base = self._baseline(op)
                    if base != [0] + list(b) + [after]:
                        viol.append(('other', '%s: RND(negative) depends on the history: %s here, %s on a fresh '
                                     'generator' % (tag, [0] + list(b) + [after], base)))
                else:
                    if after != (A * seed + C) % M24:
                        viol.append(('other', '%s: seed %d -> %d is not the fixed LCG step' % (tag, seed, after)))
                last = b
            elif op[0] == 'z':
                if arg_value(op[1]) is None:
                    viol.append(('other', '%s: RANDOMIZE of a string succeeded' % tag))
                else:
                    base = self._baseline(op)
                    if base != [0, after]:
                        # same argument, different reseed.  K1 exactly when the low seed byte differs from the
                        # fresh generator's and nothing but the low byte matters
                        low = seed & 0xff
                        same_low = [self._from_seed(x, op) for x in (low, low + 256 * 12345, low + 0xabcd00)]
                        if low != (s0 & 0xff) and all(x == [0, after] for x in same_low):
                            viol.append(('K1', '%s: RANDOMIZE with the same argument gives seed %d after this '
                                         'history but %d on a fresh generator (low seed byte %d vs %d)'
                                         % (tag, after, base[-1], low, s0 & 0xff)))
                        else:
                            viol.append(('other', '%s: RANDOMIZE result %d depends on more than the argument and '
                                         'the low seed byte (fresh generator: %s)' % (tag, after, base)))
            else:
                if after != s0:
                    viol.append(('other', '%s: CLEAR/RUN left seed %d, a fresh generator starts at %d' % (tag, after, s0)))
            if op[0] not in ('r', 'ra'):
                last = None             # "the last value" is a value of the sequence since the last reseed
            seed = after
        if case['k'] == 'hist':
            # a value handed out stays that value: all of them, kept by the caller, read again at the end
            tail = out[self._parse(case, out)[-1]:]
            given = [(n, list(b)) for n, (op, err, b, _) in enumerate(self._records(case, out))
                     if err is None and op[0] in ('r', 'ra')]
            for j, (n, b) in enumerate(given):
                if tail[4 * j:4 * j + 4] != b:
                    viol.append(('other', 'op %d: RND handed out the value %s; kept by the caller it reads %s at the '
                                 'end of the history (the value is not a value of its own)' % (n, b, tail[4 * j:4 * j + 4])))
                    break
        return viol

    def _full_walk(self):
        """Walk the real generator from its initial state until it returns (at most 2^24 steps)."""
        if '_walk' not in self.__dict__:
            impl, r = self._fresh()
            s0 = r._seed
            cyc = self._stepper(r)
            r._seed = s0
            first = 0
            ok_range = True
            if self._step_kind == 'public':
                # no usable fast helper: 2^24 public draws would take minutes.  Walk 2^16 public draws against
                # the affine step observed at 0 and 1, then the whole cycle with that step in plain arithmetic
                A, C, _ = self._affine()
                sd = s0
                for i in range(1, (1 << 16) + 1):
                    cyc()
                    sd = (A * sd + C) % M24
                    if r._seed != sd:
                        ok_range = False
                        break
                sd = s0
                if ok_range:
                    for i in range(1, M24 + 1):
                        sd = (A * sd + C) % M24
                        if sd == s0:
                            first = i
                            break
            else:
                for i in range(1, M24 + 1):
                    cyc()
                    sd = r._seed
                    if sd == s0:
                        first = i
                        break
                    if not (0 <= sd < M24):
                        ok_range = False
                        break
            self._walk = (s0, first, ok_range)
        return self._walk

    def oracle(self, case, out):
        k = case['k']
        if k in ('hist', 'sess'):
            viol = self._analyse(case, out)
            other = [m for kind, m in viol if kind == 'other']
            if other:
                return other[0]
            return viol[0][1] if viol else None
        if k == 'scale':
            for j, sd in enumerate(case['seeds']):
                if not scaled_exactly(out[4 * j:4 * j + 4], sd):
                    return 'RND value bytes %s for seed %d are not seed/2^24 in [0,1)' % (out[4 * j:4 * j + 4], sd)
            return None
        if k == 'sweep':
            bad = self.__dict__.get('_sweep_bad', {}).get(core.sha(case))
            if bad is not None:
                return 'RND value for seed %d is not seed/2^24 in [0,1)' % bad
            return None
        if k == 'walk':
            A, C, s0 = self._affine()
            if not (0 <= out[2] < M24):
                return 'seed outside [0, 2^24) after %d steps' % case['n']
            if case['n'] < M24 and out[1] != 0:
                return 'generator returned to seed %d after %d < 2^24 steps' % (case['s'], out[0])
            return None
        if k == 'period':
            s0, first, ok_range = self._full_walk()
            if not ok_range:
                return 'seed left [0, 2^24) (or the fixed affine step) during the walk from %d' % s0
            if first != M24:
                return ('the sequence from seed %d returns after %s steps, not 2^24'
                        % (s0, first or 'more than 2^24'))
            return None
        if k == 'rzint':
            # same argument, same low seed byte -> same reseed (the part of the claim that holds);
            # and an independent reading of the source comment: n * step added to the stepped low byte
            A, C, s0 = self._affine()
            alt = self._from_seed((case['s'] & 0xff) | 0x5a5a00, ['z', ['i', case['lo']]])
            if alt != [0, out[0]]:
                return 'RANDOMIZE %d depends on more than the low seed byte' % case['lo']
            for j in range(1, len(out)):
                if not (0 <= out[j] < M24):
                    return 'seed outside [0, 2^24) after RANDOMIZE %d' % (case['lo'] + j)
            return None
        return None

    def shrink_candidates(self, case):
        """Only shrink towards cases that still violate the property apart from the known finding K1
        (the framework's shrinker accepts any candidate the oracle complains about)."""
        for c in super(C39, self).shrink_candidates(case):
            if c.get('k') in ('hist', 'sess'):
                try:
                    o = self.impl(c)
                    if any(kind == 'other' for kind, _ in self._analyse(c, o)):
                        yield c
                except Exception:   # noqa
                    continue
            else:
                yield c

    # ------------------------------------------------------------------ known finding K1
    def known_match(self, finding, case, out):
        if finding.get('id') != 'K1' or case.get('k') not in ('hist', 'sess') or out is None:
            return False
        viol = self._analyse(case, out)
        return bool(viol) and all(kind == 'K1' for kind, _ in viol)

    def known_rerun(self, finding):
        w = finding['witness']
        case = {'k': 'hist', 'ops': w['ops']}
        out = self.impl(case)
        viol = self._analyse(case, out)
        fresh = self._baseline(w['ops'][w['randomize_at']])
        here = self._records(case, out)[w['randomize_at']][3]
        return (any(kind == 'K1' for kind, _ in viol) and fresh[-1] == w['seed_fresh']
                and here == w['seed_after_history'])


CHECK = C39
