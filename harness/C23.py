"""C23 - RUN, CLEAR and NEW reset state; CHAIN keeps exactly the COMMON variables.

A case is a generated BASIC program P1 that builds a session state (variables of all types, arrays, strings
in program code / string space / FIELD buffers, garbage, DEFtype, OPTION BASE, DEF FN, ON ERROR, events,
open files, RND draws, DATA pointer, nested GOSUB / FOR / WHILE, optionally inside an error handler) and
then executes ONE of CLEAR / NEW / RUN / CHAIN [MERGE] - as a program statement or as a direct command
after STOP.  The statement callback is wrapped: the session state is read (through `s._impl`) immediately
before and after the call.  Correspondence: model(pre-state, arguments) == post-state, exactly.
Oracle (no model): the session is then probed through BASIC direct statements and compared with an
independent Python reading of the property (everything initial after a reset; exactly the COMMON variables
with their printed values after CHAIN).
"""
import json
import os
import re

from vlib import core
from harness import common

TAG = re.compile(r'<([^>]*)>(.*?)\|', re.S)

SIG = {'%': 37, '!': 33, '#': 35, '$': 36}
NUMTYPES = '%!#'


def bl(b):
    return list(bytearray(b))


def zll(names):
    return '[' + ';'.join(core.zl(n) for n in names) + ']'


# ----------------------------------------------------------------------------------------------------
# snapshots of the real session

def snapshot(impl):
    m = impl.memory
    sc, ar, st, it, ev = m.scalars, m.arrays, m.strings, impl.interpreter, impl.basic_events
    var_start = m.var_start()
    d = {
        'total': m.total_memory, 'stack': m.stack_size, 'code_start': m.code_start,
        'prog': impl.program.size(), 'allow': bool(m._allow_collect),
        'sc_vars': [[bl(n), bl(v)] for n, v in sc._vars.items()],
        'sc_mem': [bl(n) for n in sc._var_memory], 'sc_cur': sc.current,
        'ar_dims': [[bl(n), list(v)] for n, v in ar._dims.items()],
        'ar_bufs': [[bl(n), bl(v)] for n, v in ar._buffers.items()],
        'ar_mem': [bl(n) for n in ar._array_memory], 'ar_cur': ar.current,
        'base': ar._base, 'by_dim': bool(ar._base_set_by_dim),
        'strs': [[a, bl(v)] for a, v in st._strings.items()], 'ss_cur': st.current,
        'deftype': [bl(c)[0] for c in m.deftype],
        'functions': [bl(n) for n in impl.parser.user_functions._fn_dict],
        'gosub': len(it.gosub_stack), 'for': len(it.for_stack), 'while': len(it.while_stack),
        'on_error': it.on_error, 'err_handle': bool(it.error_handle_mode),
        'err_resume': it.error_resume is not None, 'err_num': it.error_num, 'err_pos': it.error_pos,
        'stop_pos': it.stop_pos, 'data_pos': it.data_pos, 'run_mode': bool(it.run_mode), 'tron': bool(it.tron),
        'seed': impl.randomiser._seed,
        'ev_enabled': [i for i, h in enumerate(ev.all) if h in ev.enabled],
        'ev_gosub': [i for i, h in enumerate(ev.all) if h.gosub is not None],
        'ev_stopped': [i for i, h in enumerate(ev.all) if h.stopped],
        'ev_suspend': bool(ev.suspend_all),
        'files': sorted(impl.files.files.keys()), 'stick': bool(impl.stick.is_on),
        'def_seg': impl.all_memory.segment,
        'math_raise': bool(impl.values.error_handler._do_raise),
    }
    # what view() gives for the pointers below var_start (program code, FIELD buffers)
    foreign = {}
    ptrs = []
    for n, v in sc._vars.items():
        if n[-1:] == b'$' and len(v) == 3:
            ptrs.append((v[0], v[1] + 256 * v[2]))
    for n, v in ar._buffers.items():
        if n[-1:] == b'$':
            for i in range(0, len(v) - 2, 3):
                ptrs.append((v[i], v[i + 1] + 256 * v[i + 2]))
    for ln, ad in ptrs:
        if ln > 0 and ad < var_start and (ad, ln) not in foreign:
            try:
                foreign[(ad, ln)] = bl(st.view(ln, ad).tobytes())
            except Exception:
                pass
    d['foreign'] = [[a, l, b] for (a, l), b in foreign.items()]
    return d


def opt(x):
    return -1 if x is None else x


def coq_opt(x):
    return 'None' if x is None else '(Some %s)' % zlit(x)


def zlit(x):
    return '(%d)' % x if x < 0 else '%d' % x


def coq_bool(b):
    return 'true' if b else 'false'


def coq_state(d):
    """the snapshot as a Coq `state` (field order of mkState in model/ClearChain.v)."""
    f = [
        zlit(d['total']), zlit(d['stack']), zlit(d['code_start']), zlit(d['prog']), coq_bool(d['allow']),
        '[' + ';'.join('(%s,%s)' % (core.zl(n), core.zl(v)) for n, v in d['sc_vars']) + ']',
        zll(d['sc_mem']), zlit(d['sc_cur']),
        '[' + ';'.join('(%s,%s)' % (core.zl(n), core.zl(v)) for n, v in d['ar_dims']) + ']',
        '[' + ';'.join('(%s,%s)' % (core.zl(n), core.zl(v)) for n, v in d['ar_bufs']) + ']',
        zll(d['ar_mem']), zlit(d['ar_cur']), coq_opt(d['base']), coq_bool(d['by_dim']),
        '[' + ';'.join('(%s,%s)' % (zlit(a), core.zl(v)) for a, v in d['strs']) + ']', zlit(d['ss_cur']),
        '[' + ';'.join('((%s,%s),%s)' % (zlit(a), zlit(l), core.zl(v)) for a, l, v in d['foreign']) + ']',
        core.zl(d['deftype']), zll(d['functions']),
        core.zl(list(range(d['gosub']))), core.zl(list(range(d['for']))), core.zl(list(range(d['while']))),
        coq_opt(d['on_error']), coq_bool(d['err_handle']), coq_bool(d['err_resume']),
        zlit(d['err_num']), zlit(d['err_pos']), coq_opt(d['stop_pos']), zlit(d['data_pos']),
        coq_bool(d['run_mode']), coq_bool(d['tron']), zlit(d['seed']),
        core.zl(d['ev_enabled']), core.zl(d['ev_gosub']), core.zl(d['ev_stopped']), coq_bool(d['ev_suspend']),
        core.zl(d['files']), coq_bool(d['stick']), zlit(d['def_seg']), coq_bool(d['math_raise']),
    ]
    return '(mkState %s)' % ' '.join(f)


def enc_state(names, d, foreign):
    """mirror of enc_state in model/ClearChain.v, reading a snapshot of the real session."""
    var_start = d['code_start'] + d['prog']
    strs = {}
    for a, v in d['strs']:
        strs.setdefault(a, v)
    fmap = {(a, l): b for a, l, b in foreign}

    def deref(v):
        if len(v) != 3:
            return [-2]
        l, a = v[0], v[1] + 256 * v[2]
        if l == 0:
            b = []
        elif a >= var_start:
            b = strs.get(a)
        else:
            b = fmap.get((a, l))
        if b is None:
            return [l, -1]
        return [l, len(b)] + b

    out = [d['total'], d['stack'], d['prog'], int(d['allow']),
           len(d['sc_vars']), len(d['sc_mem']), d['sc_cur'],
           len(d['ar_dims']), len(d['ar_bufs']), len(d['ar_mem']), d['ar_cur'],
           opt(d['base']), int(d['by_dim']), len(d['strs']), d['ss_cur']]
    out += d['deftype']
    out += [len(d['functions']), d['gosub'], d['for'], d['while'], opt(d['on_error']), int(d['err_handle']),
            int(d['err_resume']), d['err_num'], d['err_pos'], opt(d['stop_pos']), d['data_pos'],
            int(d['run_mode']), int(d['tron']), d['seed'], len(d['ev_enabled']), len(d['ev_gosub']),
            len(d['ev_stopped']), int(d['ev_suspend']), int(d['stick']), d['def_seg'], int(d['math_raise'])]
    out += [len(d['files'])] + d['files']
    sv = {bytes(n): v for n, v in d['sc_vars']}
    for n in names:
        v = sv.get(bytes(n))
        if v is None:
            out += [0]
        else:
            out += [1, len(v)] + v
            if n and n[-1] == 36 and n[0] < 128:
                out += deref(v)
    dims = {bytes(n): v for n, v in d['ar_dims']}
    bufs = {bytes(n): v for n, v in d['ar_bufs']}
    for n in names:
        dd, b = dims.get(bytes(n)), bufs.get(bytes(n))
        if dd is None and b is None:
            out += [0]
        elif dd is None or b is None:
            out += [-1]
        else:
            out += [1, len(dd)] + dd + [len(b)] + b
            if n and n[-1] == 36:
                for i in range(0, len(b) - 2, 3):
                    out += deref(b[i:i + 3])
    return out


# ----------------------------------------------------------------------------------------------------
# program generation

LETTERS = 'ABCDEFGHKLMNPQRSTUVW'
ALNUM = 'abcdefghijklmnopqrstuvwxyzABCDEFGHIJKLMNOPQRSTUVWXYZ0123456789 '


def rand_text(rng, n):
    return ''.join(rng.choice(ALNUM) for _ in range(n)).replace('  ', ' x')


def rand_strlen(rng):
    r = rng.random()
    if r < 0.1:
        return 0
    if r < 0.6:
        return rng.randrange(1, 12)
    if r < 0.85:
        return rng.randrange(12, 80)
    return rng.choice([200, 254, 255, rng.randrange(80, 256)])


def num_literal(rng, t):
    if t == '%':
        return str(rng.choice(common.INT16_POOL))
    if t == '!':
        return rng.choice(['1.5', '-2.25', '3.141593', '1E+10', '-1.5E-20', '16777216', '0', '.1', '123456'])
    return rng.choice(['1.5#', '-2.25#', '3.141592653589793#', '1D+100', '-1.5D-30', '.1#', '0#', '123456789012#'])


def string_expr(rng, kind, n):
    """(expression text) of a string value of length n; kind: lit (pointer into program code),
    cat (string space), rep (string space, STRING$)"""
    if n == 0:
        return '""'
    if kind == 'lit':
        return '"%s"' % rand_text(rng, n)
    if kind == 'rep' or n > 120:
        k = rng.randrange(1, min(n, 8) + 1) if n > 1 else 1
        if k == n:
            return '"%s"+""' % rand_text(rng, n) if n < 100 else 'STRING$(%d,"%s")' % (n, rng.choice('xyzw'))
        return 'STRING$(%d,"%s")+"%s"' % (n - k, rng.choice('xyzw'), rand_text(rng, k))
    k = rng.randrange(0, n + 1)
    return '"%s"+"%s"' % (rand_text(rng, k), rand_text(rng, n - k))


class Builder(object):
    """builds P1 and the bookkeeping the oracle needs (its own reading of what was defined)."""

    def __init__(self, rng):
        self.rng = rng
        self.lines = []           # [num, text]
        self.num = 10
        self.scalars = {}         # full name -> 'num' | 'str'
        self.arrays = {}          # full name -> dims
        self.deftype = {}         # letter -> sigil
        self.base = None
        self.fns = []
        self.trap = False
        self.data = None
        self.file2 = False

    def add(self, text, num=None):
        if num is None:
            num = self.num
            self.num += 10
        self.lines.append([num, text])
        return num

    def elements(self, dims):
        lo = self.base or 0
        idx = [[]]
        for d in dims:
            idx = [i + [k] for i in idx for k in range(lo, d + 1)]
        return idx


def gen_build(rng, b, opts):
    """state-building part of P1"""
    if opts.get('mem') is not None:
        b.add('CLEAR ,%d%s' % (opts['mem'], (',%d' % opts['stack0']) if opts.get('stack0') else ''))
    if rng.random() < 0.45:
        b.base = rng.choice([0, 1])
        b.add('OPTION BASE %d' % b.base)
    # DEFtype on letter ranges (only here, so the oracle knows the table at the time of the command)
    for _ in range(rng.choice([0, 0, 1, 2])):
        t = rng.choice(['INT', 'SNG', 'DBL', 'STR'])
        lo = rng.choice('ABCKSZ')
        hi = rng.choice([lo, chr(min(ord(lo) + rng.randrange(0, 8), 90))])
        b.add('DEF%s %s%s' % (t, lo, '' if hi == lo else '-' + hi))
        for c in range(ord(lo), ord(hi) + 1):
            b.deftype[chr(c)] = {'INT': '%', 'SNG': '!', 'DBL': '#', 'STR': '$'}[t]
    if rng.random() < 0.5:
        b.fns.append('FNA!')
        b.add('DEF FNA!(X!)=X!*2')
    if rng.random() < opts.get('p_strfn', 0.12):
        b.fns.append('FNS$')
        b.add('DEF FNS$(X$)=X$+"!"')
    if rng.random() < 0.5:
        b.trap = True
        b.add('ON ERROR GOTO 9000')
    if rng.random() < 0.3:
        b.add(rng.choice(['ON TIMER(60) GOSUB 9500:TIMER ON', 'ON KEY(2) GOSUB 9500:KEY(2) ON',
                          'KEY(3) ON:KEY(3) STOP', 'PEN ON', 'STRIG ON', 'ON PEN GOSUB 9500:PEN ON']))
    if rng.random() < 0.25:
        b.add('DEF SEG=%d' % rng.choice([0, 64, 4096, 47104, 65535]))
    if rng.random() < 0.3:
        b.add('OPEN "O",2,"OUT.TXT"')
        b.file2 = True
    field = rng.random() < 0.3
    if field:
        b.add('OPEN "R",1,"FLD.DAT",16:FIELD 1,5 AS F1$,7 AS F2$:LSET F1$="hello":LSET F2$="fld"')
        b.scalars['F1$'] = 'str'
        b.scalars['F2$'] = 'str'
    if opts.get('mergedel'):
        # string values that are bare program literals (pointers into program code) early in the program
        b.add('L1$="%s"' % rand_text(rng, rng.randrange(1, 40)))
        b.scalars['L1$'] = 'str'
        b.add('DIM LA$(2)')
        b.arrays['LA$'] = [2]
        if b.base is None:
            b.base = 0
        b.add('LA$(%d)="%s"' % (b.base, rand_text(rng, rng.randrange(1, 30))))
    # scalars
    nsc = rng.randrange(0, 7)
    for _ in range(nsc):
        name = rng.choice(LETTERS) + rng.choice(['', '', '1', 'X', 'LONGNAME', '2B'])
        t = rng.choice('%!#$$')
        full = name + t
        if t == '$':
            kind = rng.choice(['lit', 'lit', 'lit', 'cat'] if opts.get('mergedel') else ['lit', 'cat', 'cat', 'rep'])
            n = min(rand_strlen(rng), opts.get('maxlen', 255))
            if kind == 'lit':
                n = min(n, 100)
            reps = rng.choice([1, 1, 1, 2, 4]) if kind != 'lit' else 1
            for _ in range(reps):   # re-assignment leaves garbage in string space
                b.add('%s=%s' % (full, string_expr(rng, kind, n)))
            b.scalars[full] = 'str'
        else:
            b.add('%s=%s' % (full, num_literal(rng, t)))
            b.scalars[full] = 'num'
    # arrays
    for _ in range(rng.randrange(0, 4)):
        name = rng.choice(LETTERS) + rng.choice(['', 'A', '3'])
        t = rng.choice('%!#$$')
        full = name + t
        if full in b.arrays:
            continue
        lo = b.base or 0
        dims = [rng.randrange(lo, 5)] if rng.random() < 0.7 else [rng.randrange(lo, 4), rng.randrange(lo, 3)]
        if rng.random() < 0.25 and len(dims) == 1:
            dims = [10]
            # implicit dimensioning by first use
        else:
            b.add('DIM %s(%s)' % (full, ','.join(map(str, dims))))
        b.arrays[full] = dims
        if b.base is None:
            b.base = 0
        els = b.elements(dims)
        rng.shuffle(els)
        for ix in els[:rng.randrange(0, min(len(els), 5) + 1)]:
            ref = '%s(%s)' % (full, ','.join(map(str, ix)))
            if t == '$':
                kind = rng.choice(['lit', 'lit', 'cat'] if opts.get('mergedel') else ['lit', 'cat', 'rep'])
                n = min(rand_strlen(rng), opts.get('maxlen', 255), 100 if kind == 'lit' else 255)
                b.add('%s=%s' % (ref, string_expr(rng, kind, n)))
            else:
                b.add('%s=%s' % (ref, num_literal(rng, t)))
        if dims == [10] and not any(l[1].startswith(full + '(') for l in b.lines):
            b.add('%s(%d)=%s' % (full, rng.randrange(lo, 11), '"q"' if t == '$' else '1'))
    if rng.random() < 0.15 and b.arrays:
        # the same program literal referenced by several elements
        full = [a for a in b.arrays if a.endswith('$')]
        if full:
            a = full[0]
            d = b.arrays[a]
            if len(d) == 1:
                b.add('FOR I9%%=%d TO %d:%s(I9%%)="shared":NEXT' % (b.base or 0, d[0], a))
                b.scalars['I9%'] = 'num'
    if opts.get('mergedel'):
        # ... in the middle and late in the program
        b.add('LA$(2)="%s"' % rand_text(rng, rng.randrange(1, 30)))
        b.add('L2$="%s"' % rand_text(rng, rng.randrange(1, 60)))
        b.scalars['L2$'] = 'str'
    if rng.random() < 0.5:
        b.add('Z1!=RND:Z1!=RND' if rng.random() < 0.7 else 'RANDOMIZE 7:Z1!=RND')
        b.scalars['Z1!'] = 'num'
    if rng.random() < 0.5:
        b.add('READ Q1%,Q2%')
        b.scalars['Q1%'] = 'num'
        b.scalars['Q2%'] = 'num'
    b.data = '11,22,33'


def common_decls(rng, b, extra_names):
    """COMMON statements: (text, parsed declarations [(name as written, kind)])"""
    pool_s = list(b.scalars) + extra_names
    pool_a = list(b.arrays)
    decls = []
    stmts = []
    for _ in range(rng.choice([0, 1, 1, 2])):
        items = []
        for _ in range(rng.randrange(1, 4)):
            r = rng.random()
            if r < 0.55 and pool_s:
                n = rng.choice(pool_s)
                # the sigil may be left out when DEFtype supplies it
                if b.deftype.get(n[0], '!') == n[-1] and rng.random() < 0.5:
                    n = n[:-1]
                items.append(n)
                decls.append([n, 0])
            elif r < 0.9 and pool_a:
                n = rng.choice(pool_a)
                if b.deftype.get(n[0], '!') == n[-1] and rng.random() < 0.5:
                    n = n[:-1]
                br = rng.choice(['()', '()', '(1)', '[1]'])
                items.append(n + br)
                decls.append([n, 2 if br == '[1]' else 1])
            else:
                n = rng.choice(['NOSUCH%', 'NOSUCH$', 'NX'])
                k = rng.choice([0, 1])
                items.append(n + ('()' if k else ''))
                decls.append([n, k])
        stmts.append('COMMON ' + ','.join(items))
    return stmts, decls


def gen_case(rng, kind=None, opts=None):
    opts = dict(opts or {})
    b = Builder(rng)
    gen_build(rng, b, opts)
    cmd = kind or rng.choice(['CLEAR', 'CLEAR', 'CLEAR', 'NEW', 'NEW', 'RUN', 'RUN', 'RUN', 'CHAIN', 'CHAIN', 'CHAIN'])
    where = rng.choice(['prog', 'prog', 'direct'])
    op = {'cmd': cmd}
    stmts, decls = common_decls(rng, b, ['Z9!']) if (cmd == 'CHAIN' or rng.random() < 0.2) else ([], [])
    if opts.get('mergedel'):
        extra = [n for n in sorted(b.scalars) if n.endswith('$') and rng.random() < 0.8]
        extra_a = [n for n in sorted(b.arrays) if n.endswith('$') and rng.random() < 0.8]
        if extra or extra_a:
            stmts.append('COMMON ' + ','.join(extra + [n + '()' for n in extra_a]))
            decls += [[n, 0] for n in extra] + [[n, 1] for n in extra_a]
    for st in stmts:
        b.add(st)
    # phase A: print every variable the program defined
    for n in sorted(b.scalars):
        b.add('LOCATE 1,1:PRINT "<%s>";%s;"|"' % (n, n))
    for n in sorted(b.arrays):
        for ix in b.elements(b.arrays[n]):
            ref = '%s(%s)' % (n, ','.join(map(str, ix)))
            b.add('LOCATE 1,1:PRINT "<%s>";%s;"|"' % (ref, ref))
    # nesting
    nest = rng.choice(['', 'G', 'GF', 'GFW', 'F', 'W', 'GG', 'H', 'HG'])
    if nest.startswith('H') and not b.trap:
        nest = nest[1:]
    b.num = max(b.num, 3000)
    for c in nest:
        if c == 'G':
            target = b.num + 20
            b.add('GOSUB %d' % target)
            b.add('STOP')
            b.num = target
        elif c == 'F':
            b.add('FOR I8%=1 TO 3')
            b.scalars['I8%'] = 'num'
        elif c == 'W':
            b.add('WHILE W8%<5')
            b.scalars['W8%'] = 'num'
        elif c == 'H':
            b.add('ERROR 77')
    handler_op = nest.startswith('H')
    if handler_op:
        b.num = 9000
    # the command
    if cmd == 'CLEAR':
        r = rng.random()
        intexp = mem = stack = None
        if r < 0.45:
            text = 'CLEAR'
        else:
            if rng.random() < 0.3:
                intexp = rng.choice([0, 100, 32767, -1, 5])
            if rng.random() < 0.7:
                mem = rng.choice([0, 65535, 65534, 60000, 40000, 32768, 20000, rng.randrange(8000, 65000)])
            if rng.random() < 0.5:
                stack = rng.choice([0, 1, 256, 512, 1024, 4000, rng.randrange(1, 3000)])
            text = 'CLEAR %s' % ('' if intexp is None else intexp)
            if mem is not None or stack is not None:
                text += ',%s' % ('' if mem is None else mem)
                if stack is not None:
                    text += ',%d' % stack
            if text.strip() == 'CLEAR':
                text = 'CLEAR'
        op.update(text=text.strip(), intexp=intexp, mem=mem, stack=stack)
    elif cmd == 'NEW':
        op.update(text='NEW')
    elif cmd == 'RUN':
        v = rng.choice(['plain', 'line', 'line', 'noline', 'file', 'file_r', 'nofile'])
        if v == 'plain' and where == 'prog':
            v = 'line'
        text = {'plain': 'RUN', 'line': 'RUN 8000', 'noline': 'RUN 8001', 'file': 'RUN "P2"',
                'file_r': 'RUN "P2",R', 'nofile': 'RUN "NOFILE"'}[v]
        op.update(text=text, variant=v)
    else:
        merge = rng.random() < 0.3 or bool(opts.get('mergedel'))
        allv = rng.random() < 0.3
        v = rng.choice(['ok', 'ok', 'ok', 'ok', 'ok', 'ok', 'nofile', 'noline', 'badrange'])
        v = opts.get('variant', v)
        fname = 'P2A' if merge else 'P2'
        jump = None
        text = 'CHAIN %s"%s"' % ('MERGE ' if merge else '', 'NOFILE' if v == 'nofile' else fname)
        if merge or v == 'noline' or rng.random() < 0.3:
            jump = 7001 if v == 'noline' else 7000
        delete = None
        if merge and rng.random() < 0.4 or v == 'badrange' or opts.get('mergedel'):
            # a range of state-building lines: literals assigned before / inside / behind it
            nums = sorted(n for n, _ in b.lines if n < 3000)
            if len(nums) >= 2 and v != 'badrange':
                i = rng.randrange(0, len(nums))
                j = rng.randrange(i, min(len(nums), i + 1 + rng.choice([0, 1, 3, 8, 40])))
                delete = [nums[i], nums[j]]
            else:
                delete = [10, 11 if v == 'badrange' else 20]
        tail = ''
        if jump is not None or allv or delete:
            tail += ',%s' % ('' if jump is None else jump)
        if allv:
            tail += ',ALL'
        if delete:
            tail += ',DELETE %d-%d' % tuple(delete)
        op.update(text=text + tail, merge=merge, all=allv, variant=v, jump=jump, delete=delete, decls=decls)
    if where == 'prog':
        b.add(op['text'])
        b.add('STOP')
        direct = []
    else:
        b.add('STOP')
        direct = [op['text']]
    # FOR / WHILE need their closing statement somewhere below
    for c in reversed(nest):
        if c == 'F':
            b.add('NEXT')
        elif c == 'W':
            b.add('W8%=W8%+1:WEND')
        elif c == 'G':
            b.add('RETURN')
    # fixed lines: probe targets, DATA, handler, event sub
    lines = dict((n, t) for n, t in b.lines)
    lines.setdefault(20, 'REM')
    lines[8000] = 'STOP'
    lines[8500] = 'DATA ' + b.data
    if not handler_op:
        lines[9000] = 'PRINT "TRAP";ERR:STOP'
    lines[9500] = 'RETURN'
    case = {
        'k': 'op', 'p1': sorted([n, t] for n, t in lines.items()), 'direct': direct, 'op': op, 'where': where,
        'scalars': sorted(b.scalars), 'arrays': sorted([n, d] for n, d in b.arrays.items()),
        'deftype': b.deftype, 'base': b.base, 'fns': b.fns, 'trap': b.trap, 'pad': opts.get('pad', 0),
        'file2': b.file2,
    }
    if cmd != 'CHAIN' and b.base != 1 and rng.random() < 0.4:
        case['base_first'] = True
    assert case['p1'], (lines, b.lines)
    return case


P2_LINES = [[10, 'REM second program'], [7000, 'STOP'], [8000, 'STOP'], [8500, 'DATA 77,88']]


def p2_text(pad, ascii_lines_from=0):
    lines = list(P2_LINES)
    k = 0
    while pad > 0:
        n = min(pad, 200)
        lines.append([100 + k, 'REM ' + 'p' * n])
        pad -= n + 6
        k += 1
    return sorted(lines)


def program_text(lines):
    return '\r'.join('%d %s' % (n, t) for n, t in lines)


# ----------------------------------------------------------------------------------------------------

class _FastTime(object):
    """time module for pcbasic.basic.eventcycle in the test harness: sleep(0) (three per executed statement,
    only there to yield the GIL to an interface thread that does not exist here) costs ~0.15 ms on a busy
    machine"""

    def __init__(self, real):
        self._real = real

    def __getattr__(self, name):
        return getattr(self._real, name)

    def sleep(self, t):
        if t > 0:
            self._real.sleep(t)


def fast_events():
    import importlib
    ec = importlib.import_module('pcbasic.basic.eventcycle')
    if not isinstance(ec.time, _FastTime):
        ec.time = _FastTime(ec.time)


class StopAfter(object):
    """interpreter.step hook: break at the first program line reached after the command"""

    def __init__(self, interp):
        self.interp = interp

    def __call__(self, token):
        from pcbasic.basic.base import error
        self.interp.step = lambda token: None
        raise error.Break()


class C23(core.Check):
    ID = 'C23'
    GEN = ['gen_clear']
    PROPS = 'props/C23.v'
    MODEL_IMPORTS = ['gen.Gen_clear', 'model.ClearChain']
    QUICK_CASES = 130
    THOROUGH_CASES = 3000
    TRUSTED = ['table extractor translate/targets/gen_clear.py (AST -> guarded operation lists); meaning of the '
               'table strings (prim_call / prim_assign) and hand model of preserve_commons / gather_commons in '
               'model/ClearChain.v, tied by exact correspondence of the whole post-state; program loading, '
               'tokenised COMMON scanning, sound / graphics / FIELD-buffer resets are not modelled']
    PARTIAL = None
    RULE = ('generated programs build a state (all variable types, arrays, strings in code / string space / FIELD, '
            'garbage, DEFtype, OPTION BASE, DEF FN, ON ERROR, events, files, RND, DATA, GOSUB/FOR/WHILE nesting, '
            'error handler) and run CLEAR/NEW/RUN/CHAIN[MERGE][ALL][DELETE] as statement or direct command, with '
            'memory limits tuned around the exact fit; pre/post session state read around the statement callback; '
            'non-trivial = the command was reached and some variable existed before it; distinct by hash')
    histogram = None

    # ---- running one case
    def run_case(self, case):
        cache = self.__dict__.setdefault('_runs', {})
        key = core.sha(case)
        if key not in cache:
            if len(cache) > 4000:
                cache.clear()
            cache[key] = self._run(case)
        return cache[key]

    def _run(self, case):
        from pcbasic.basic.base import tokens as tk
        fast_events()
        res = {'pre': None, 'post': None, 'exc': None, 'outA': '', 'probes': [], 'host': None, 'rebuilt': False}
        if case['k'] == 'op' and not case.get('p1'):
            return res
        d = common.tmpdir('c23')
        try:
            with open(os.path.join(d, 'P2A.BAS'), 'w', newline='') as f:
                f.write(''.join('%d %s\r\n' % (n, t) for n, t in p2_text(case.get('pad', 0))) + '\x1a')
            s = common.new_session(devices={'C': d}, current_device='C:', peek_values={})
            with s:
                with core.time_limit(60):
                    s.execute(program_text(p2_text(case.get('pad', 0))))
                    s.execute('SAVE "P2"')
                    s.execute('NEW')
                    if case['k'] == 'fresh':
                        res['pre'] = res['post'] = snapshot(s._impl)
                        return res
                    s.execute(program_text(case['p1']))
                    impl = s._impl
                    token = {'CLEAR': tk.CLEAR, 'NEW': tk.NEW, 'RUN': tk.RUN, 'CHAIN': tk.CHAIN}[case['op']['cmd']]
                    orig = impl.parser._callbacks[token]
                    orig_rebuild = impl.strings.rebuild

                    def rebuild(store):
                        res['rebuilt'] = True
                        return orig_rebuild(store)
                    impl.strings.rebuild = rebuild

                    # program loading is not modelled: a load / merge that fails (Out of memory while the
                    # lines are stored under a tight memory limit) takes the case out of the correspondence
                    def guard(fn):
                        def g(*a, **k):
                            try:
                                return fn(*a, **k)
                            except BaseException:
                                if res['pre'] is not None and res['post'] is None:
                                    res['loadfail'] = True
                                raise
                        return g
                    impl.program.merge = guard(impl.program.merge)
                    impl.program.load = guard(impl.program.load)

                    def wrapped(args):
                        if res['pre'] is not None or res.get('argfail'):
                            return orig(args)
                        res['pre'] = snapshot(impl)
                        if case['op']['cmd'] in ('RUN', 'CHAIN'):
                            # the arguments are parsed lazily and a file name in a direct line is a temporary
                            # in string space: the state the command starts from is the one after its last
                            # argument was evaluated (run_ / chain_ touch nothing before that)
                            def tap(it):
                                while True:
                                    try:
                                        a = next(it)
                                    except StopIteration:
                                        return
                                    except BaseException:
                                        # e.g. Out of string space for the file name of a direct command:
                                        # the command proper was not reached
                                        res['argfail'] = True
                                        raise
                                    res['pre'] = snapshot(impl)
                                    yield a
                            args = tap(args)
                        if case['op']['cmd'] == 'CHAIN':
                            try:
                                cs, ca = impl.interpreter.gather_commons()
                                res['cs'], res['ca'] = [bl(x) for x in cs], [bl(x) for x in ca]
                            except Exception:
                                res['cs'] = res['ca'] = None
                        try:
                            orig(args)
                        except BaseException as e:
                            if res.get('argfail'):
                                res['pre'] = None
                                res['reached'] = False
                                raise
                            res['exc'] = common.canon_exc(e)
                            res['post'] = snapshot(impl)
                            raise
                        res['post'] = snapshot(impl)
                        if impl.interpreter.run_mode:
                            impl.interpreter.step = StopAfter(impl.interpreter)
                    impl.parser._callbacks[token] = wrapped
                    try:
                        # start the program without RUN (which is one of the commands under test)
                        res['outA'] = s.execute('GOTO %d' % case['p1'][0][0])
                        for c in case['direct']:
                            if res['pre'] is None:
                                res['outA'] += s.execute(c)
                    except Exception as e:
                        res['host'] = '%s: %s' % (type(e).__name__, e)
                        if res['exc'] is None:
                            res['exc'] = common.canon_exc(e)
                        if res['pre'] is not None and res['post'] is None:
                            res['post'] = snapshot(impl)
                    impl.parser._callbacks[token] = orig
                    impl.interpreter.step = lambda token: None
                    if res['pre'] is not None and res['post'] is not None:
                        res['probes'] = self.probe(s, case, res)
        finally:
            common.rmtree(d)
        return res

    # ---- probing through BASIC (after the snapshots)
    def probe_list(self, case, gcmem=9000):
        """[(key, direct statement)]; LOCATE keeps the cursor off the bottom line (scrolling is slow)"""
        p = []
        p.append(('errerl', 'LOCATE 1,1:PRINT "<E>";ERR;ERL;"|":PRINT "<F>";FRE(0);"|":PRINT "<R>";RND;"|"'))
        arrays = case['arrays']
        if case.get('base_first'):
            # OPTION BASE first, before any array is touched by a probe (the probes dimension and erase arrays,
            # which rewrites the "set by DIM" mark); the array probes are then left out
            p.append(('base', 'LOCATE 1,1:OPTION BASE 1:PRINT "<B>ok|"'))
            p.append(('base2', 'LOCATE 1,1:DIM QR%(1):ERASE QR%:OPTION BASE 0:PRINT "<C>unset|"'))
            arrays = []
        for n, dims in arrays:
            if max(dims) < 10:      # a missing array is dimensioned to 10 by the probe itself
                p.append(('shape:' + n, 'LOCATE 1,1:PRINT "<S>";%s(%s);"|"' % (n, ','.join(str(x + 1) for x in dims))))
        refs = []
        for n, dims in arrays:
            lo = case['base'] or 0
            idx = [[]]
            for x in dims:
                idx = [i + [k] for i in idx for k in range(lo, x + 1)]
            refs += ['%s(%s)' % (n, ','.join(map(str, ix))) for ix in idx]
        refs += case['scalars'] + ['Z9!']
        line = 'LOCATE 1,1'
        for ref in refs:
            item = ':PRINT "<%s>";%s;"|"' % (ref, ref)
            if len(line) + len(item) > 230:
                p.append(('vars', line))
                line = 'LOCATE 1,1'
            line += item
        p.append(('vars', line))
        if case.get('file2'):
            p.append(('file2', 'LOCATE 1,1:PRINT#2,"x":PRINT "<O>open|"'))
        p.append(('data', 'LOCATE 1,1:READ D9%:PRINT "<D>";D9%;"|"'))
        p.append(('deftype', 'LOCATE 1,1:ZZ=1.5:PRINT "<T>";ZZ;"|"'))
        p.append(('fn', 'LOCATE 1,1:PRINT "<N>";FNA!(1);"|"'))
        # OPTION BASE: remove every array first (probing a missing array dimensions it and sets the base)
        for n, dims in arrays:
            p.append(('erase', 'ERASE %s' % n))
        if not case.get('base_first'):
            p.append(('base', 'LOCATE 1,1:DIM QQ%(0):ERASE QQ%:OPTION BASE 1:PRINT "<B>ok|"'))
            # ... and the "set by DIM" mark: the base is explicit now, erasing the last array must not unset it
            p.append(('base2', 'LOCATE 1,1:DIM QR%(1):ERASE QR%:OPTION BASE 0:PRINT "<C>unset|"'))
        # math errors are soft again: message, machine infinity, execution continues (D23e)
        p.append(('math', 'LOCATE 1,1:PRINT 1/0:PRINT "<M>after|"'))
        p.append(('trap', 'LOCATE 1,1:ERROR 200'))
        p.append(('resume', 'LOCATE 1,1:RESUME'))
        p.append(('return', 'LOCATE 1,1:RETURN'))
        p.append(('next', 'LOCATE 1,1:NEXT'))
        p.append(('wend', 'LOCATE 1,1:WEND'))
        p.append(('gc', 'CLEAR ,%d:FOR I9%%=1 TO 400:Q9$="abcdef"+STR$(I9%%):NEXT:LOCATE 1,1:PRINT "<G>ok|"' % gcmem))
        return p

    def probe(self, s, case, res):
        out = []
        post = res['post']
        gcmem = post['code_start'] + post['prog'] + post['stack'] + 2 + 1500
        for key, stmt in self.probe_list(case, gcmem):
            if key == 'gc' and gcmem > post['total']:
                # memory is already smaller than that (near-limit cases): the internal flag is checked anyway
                out.append([key, '<G>ok|'])
                continue
            try:
                with core.time_limit(20):
                    o = s.execute(stmt)
            except Exception as e:
                o = 'HOST %s: %s' % (type(e).__name__, e)
            out.append([key, o])
        return out

    # ---- the framework interface
    def corpus(self):
        def prog(lines, direct, op, scalars=(), arrays=(), **kw):
            fixed = [[8000, 'STOP'], [8500, 'DATA 11,22,33'], [9000, 'PRINT "TRAP";ERR:STOP'], [9500, 'RETURN']]
            have = set(n for n, _ in lines)
            c = {'k': 'op', 'p1': sorted(lines + [x for x in fixed if x[0] not in have]),
                 'direct': direct, 'op': op, 'where': 'direct' if direct else 'prog',
                 'scalars': sorted(scalars), 'arrays': sorted(arrays), 'deftype': {}, 'base': None, 'fns': [],
                 'trap': False, 'pad': 0}
            c.update(kw)
            return c
        clear = {'cmd': 'CLEAR', 'text': 'CLEAR', 'intexp': None, 'mem': None, 'stack': None}
        chain = {'cmd': 'CHAIN', 'merge': False, 'all': False, 'variant': 'ok', 'jump': None, 'delete': None}
        return [
            {'k': 'fresh'},
            # D14: CLEAR inside a subroutine must drop the GOSUB stack (RETURN without GOSUB)
            prog([[10, 'GOSUB 100'], [20, 'PRINT "back":END'], [100, 'CLEAR'], [110, 'STOP']], [], clear),
            prog([[10, 'OPTION BASE 1:A%=5:S$="x"+"y":DIM N%(3):N%(1)=7'], [20, 'FOR I8%=1 TO 2:WHILE 1:GOSUB 100'], [30, 'STOP'], [40, 'WEND:NEXT'],
                  [100, 'ON ERROR GOTO 9000:DEF FNA!(X!)=X!:Z1!=RND:READ Q1%:DEFINT A-C'],
                  [110, 'CLEAR'], [120, 'STOP']], [], clear, scalars=['A%', 'S$', 'I8%', 'Z1!', 'Q1%'],
                 arrays=[['N%', [3]]], fns=['FNA!'], trap=True),
            # D23e: ON ERROR GOTO switches math errors to "raise"; NEW / CLEAR / RUN must switch them back
            prog([[10, 'ON ERROR GOTO 9000:X!=1'], [20, 'STOP']], ['NEW'], {'cmd': 'NEW', 'text': 'NEW'},
                 scalars=['X!'], trap=True),
            prog([[10, 'ON ERROR GOTO 9000:X!=1'], [20, 'CLEAR'], [30, 'STOP']], [], clear, scalars=['X!'], trap=True),
            prog([[10, 'ON ERROR GOTO 9000:X!=1'], [20, 'STOP']], ['RUN 8000'],
                 {'cmd': 'RUN', 'text': 'RUN 8000', 'variant': 'line'}, scalars=['X!'], trap=True),
            # seed C23c: base set implicitly by DIM, then CLEAR; seed C23d: CLEAR / NEW inside an error handler
            prog([[10, 'DIM A%(3):A%(1)=2'], [20, 'CLEAR'], [30, 'STOP']], [], clear, arrays=[['A%', [3]]], base=0,
                 base_first=True),
            prog([[10, 'DIM A%(3):A%(1)=2'], [20, 'STOP']], ['NEW'], {'cmd': 'NEW', 'text': 'NEW'}, arrays=[['A%', [3]]],
                 base=0, base_first=True),
            prog([[10, 'ON ERROR GOTO 9000:X!=1'], [20, 'ERROR 77'], [30, 'STOP'], [9000, 'CLEAR'], [9010, 'STOP']], [],
                 clear, scalars=['X!'], trap=True),
            prog([[10, 'ON ERROR GOTO 9000:X!=1'], [20, 'ERROR 77'], [30, 'STOP'], [9000, 'NEW'], [9010, 'STOP']], [],
                 {'cmd': 'NEW', 'text': 'NEW'}, scalars=['X!'], trap=True),
            # D23a: a failed CHAIN must not leave garbage collection switched off
            prog([[10, 'A$="x"+"y":B=5'], [20, 'CHAIN "NOFILE"'], [30, 'STOP']], [],
                 dict(chain, text='CHAIN "NOFILE"', variant='nofile', decls=[]), scalars=['A$', 'B!']),
            # D23b: CHAIN ALL with a string-valued DEF FN
            prog([[10, 'DEF FNS$(X$)=X$+"!"'], [15, 'A$="keep"+"me":K%=3'], [20, 'CHAIN "P2",,ALL'], [30, 'STOP']], [],
                 dict(chain, text='CHAIN "P2",,ALL', all=True, decls=[]), scalars=['A$', 'K%'], fns=['FNS$']),
            # D23c: more COMMON string bytes (copies of one program literal) than memory
            prog([[10, 'DIM W$(400):FOR I9%=0 TO 400:W$(I9%)="' + 'x' * 200 + '":NEXT'], [15, 'COMMON W$()'],
                  [20, 'CHAIN "P2"'], [30, 'STOP']], [],
                 dict(chain, text='CHAIN "P2"', decls=[['W$', 1]]), scalars=['I9%']),
            # COMMON strings of every storage class, arrays, a name completed by DEFtype
            prog([[10, 'DEFSTR S:OPTION BASE 1:DIM R$(2),N%(2,1)'],
                  [20, 'S="lit":T$="a"+"b":T$="cd"+"ef":R$(1)="one":R$(2)=T$+"!":N%(2,1)=9:X#=1.5#:U$=""'],
                  [30, 'COMMON S,R$(),N%(),X#,NOSUCH%,U$'], [40, 'PRINT "<S$>";S$;"|"'], [50, 'GOSUB 100'], [60, 'STOP'],
                  [100, 'FOR I8%=1 TO 2:CHAIN "P2",7000'], [110, 'STOP'], [120, 'NEXT']], [],
                 dict(chain, text='CHAIN "P2",7000', jump=7000,
                      decls=[['S', 0], ['R$', 1], ['N%', 1], ['X#', 0], ['NOSUCH%', 0], ['U$', 0]]),
                 scalars=['S$', 'T$', 'X#', 'U$', 'I8%'], arrays=[['N%', [2, 1]], ['R$', [2]]],
                 deftype={'S': '$'}, base=1),
            # D23d: the COMMON variables fit exactly under the second program
            json.load(open(os.path.join(core.VERIF, 'corpus', 'C23-exactfit.json'))),
            prog([[10, 'A%=1:B$="q"+"r"'], [20, 'STOP']], ['RUN'], {'cmd': 'RUN', 'text': 'RUN', 'variant': 'plain'},
                 scalars=['A%', 'B$']),
            prog([[10, 'A%=1:B$="q"+"r":GOSUB 30'], [20, 'STOP'], [30, 'NEW'], [40, 'STOP']], [],
                 {'cmd': 'NEW', 'text': 'NEW'}, scalars=['A%', 'B$']),
        ]

    def gen_cases(self, n):
        rng = self.rng
        hist = {}
        out = []
        for i in range(n):
            r = i % 10
            if r < 5:
                c = gen_case(rng)
            elif r < 7:
                # CHAIN MERGE ...,DELETE a-b with COMMON / ALL strings that are still bare program literals
                c = gen_case(rng, kind='CHAIN', opts={'mergedel': True, 'variant': 'ok'})
                hist['mergedel'] = hist.get('mergedel', 0) + 1
            else:
                c = self.near_limit_case(rng)
            out.append(c)
            k = c['op']['cmd'] + ('/' + c['op'].get('variant', '') if c['op'].get('variant') else '')
            hist[k] = hist.get(k, 0) + 1
            if c.get('near'):
                hist['near:' + c['near']] = hist.get('near:' + c['near'], 0) + 1
                r = self.run_case(c)
                o = 'not reached' if r['pre'] is None else ('done' if r['exc'] is None else 'error %s' % r['exc'][1])
                hist['near outcome: ' + o] = hist.get('near outcome: ' + o, 0) + 1
        self.histogram = hist
        return out

    def near_limit_case(self, rng):
        """a CHAIN with the memory size (CLEAR ,n at the start of the first program) tuned around the exact fit
        of the COMMON variables under the second program ('fit'), or so that the first program has almost no
        free memory left when it chains ('orig'); the sizes are measured on preliminary runs"""
        import random
        seed = rng.randrange(1 << 30)
        mode = rng.choice(['fit', 'fit', 'fit', 'orig'])
        opts = {'variant': 'ok', 'p_strfn': 0.0, 'pad': 0, 'mem': 32767}

        def free(d):
            return d['ss_cur'] - (d['code_start'] + d['prog'] + d['sc_cur'] + d['ar_cur'])

        def used(pre, post):
            migrated = pre['total'] - pre['stack'] - 2 - post['ss_cur']
            return post['code_start'] + post['prog'] + post['sc_cur'] + post['ar_cur'] + migrated + pre['stack'] + 2

        c0 = gen_case(random.Random(seed), kind='CHAIN', opts=opts)
        r0 = self.run_case(c0)
        if not r0['pre'] or not r0['post'] or r0['exc']:
            return c0
        pre, post = r0['pre'], r0['post']
        if mode == 'fit':
            need_old = pre['total'] - free(pre)
            pad = max(0, need_old - used(pre, post) + rng.choice([10, 40, 300]))
            opts = dict(opts, pad=pad)
            c1 = gen_case(random.Random(seed), kind='CHAIN', opts=opts)
            r1 = self.run_case(c1)
            if not r1['pre'] or not r1['post'] or r1['exc']:
                return c1
            target = used(r1['pre'], r1['post']) + rng.choice([-3, -1, 0, 0, 0, 1, 1, 2, 3, 10, 40])
        else:
            target = pre['total'] - free(pre) + rng.choice([0, 1, 2, 5, 20, 60, 130])
        opts = dict(opts, mem=max(6000, min(32767, target)))
        c = gen_case(random.Random(seed), kind='CHAIN', opts=opts)
        c['near'] = mode
        return c

    def names(self, res):
        ns = set()
        for k in ('pre', 'post'):
            for n, _ in res[k]['sc_vars']:
                ns.add(bytes(n))
            for n, _ in res[k]['ar_dims']:
                ns.add(bytes(n))
        ns = sorted(ns)
        # keep the literals small: huge arrays (D23c witness) are left out of the encoding
        big = set()
        for k in ('pre', 'post'):
            for n, v in res[k]['ar_bufs']:
                if len(v) > 600:
                    big.add(bytes(n))
        return [bl(n) for n in ns if n not in big]

    def impl(self, case):
        res = self.run_case(case)
        if case['k'] == 'fresh':
            return [0] + enc_state([], res['post'], [])
        if res['pre'] is None or res['post'] is None or res.get('loadfail'):
            return [9]                       # the command was not reached (e.g. out of memory while building)
        names = self.names(res)
        body = enc_state(names, res['post'], res['pre']['foreign'])
        if res['exc'] is None:
            return [0] + body
        return res['exc'] + body

    def model_term(self, case):
        res = self.run_case(case)
        if case['k'] == 'fresh':
            p = res['post']
            return ('(0 :: enc_state [] (init_state %d %d %d %d))'
                    % (p['total'], p['stack'], p['code_start'], p['prog']))
        if res['pre'] is None or res['post'] is None or res.get('loadfail'):
            return '[9]'
        names = zll(self.names(res))
        st = coq_state(res['pre'])
        op = case['op']
        cmd = op['cmd']
        if cmd == 'CLEAR':
            def u16(x):
                return None if x is None else x % 65536
            term = 'cmd_clear %s %s %s' % (coq_opt(op['intexp']), coq_opt(u16(op['mem'])), coq_opt(u16(op['stack'])))
        elif cmd == 'NEW':
            term = 'cmd_new'
        elif cmd == 'RUN':
            v = op['variant']
            jump = {'line': 8000, 'noline': 8001}.get(v)
            file = 'None'
            if v in ('file', 'file_r', 'nofile'):
                file = '(Some (%s, %s, %d))' % (coq_bool(v == 'nofile'), coq_bool(v == 'file_r'), res['post']['prog'])
            term = 'cmd_run %s %s %s' % (coq_opt(jump), coq_bool(v == 'noline'), file)
        else:
            decls = '[' + ';'.join('(%s,%d)' % (core.zl(bl(n.encode())), k) for n, k in op['decls']) + ']'
            cs = res.get('cs') or []
            ca = res.get('ca') or []
            term = ('cmd_chain (mkChain %s %s %s %s %s %s false %s %d %s %s %s)' % (
                coq_bool(op['merge']), coq_bool(op['all']), coq_opt(op['jump']), coq_bool(op['variant'] == 'noline'),
                coq_bool(bool(op['delete'])), coq_bool(op['variant'] == 'badrange'),
                coq_bool(op['variant'] == 'nofile'), res['post']['prog'], decls, zll(cs), zll(ca)))
        return '(enc_out %s (%s %s))' % (names, term, st)

    def nontrivial(self, case, out):
        if case['k'] != 'op':
            return False
        res = self.run_case(case)
        return bool(res['pre']) and (len(res['pre']['sc_vars']) + len(res['pre']['ar_dims']) > 0)

    def describe(self, case):
        return case

    def shrink_candidates(self, case):
        """smaller variants: drop single state-building statements (scalar / element assignments and the
        PRINTs of phase A); everything else of a case depends on each other"""
        if case.get('k') != 'op':
            return
        removable = [i for i, (n, t) in enumerate(case['p1'])
                     if n < 3000 and (t.startswith('LOCATE 1,1:PRINT') or re.match(r'^[A-Z0-9]+[%!#$](\([0-9,]*\))?=', t))]
        for i in removable:
            d = dict(case)
            d['p1'] = case['p1'][:i] + case['p1'][i + 1:]
            yield d

    # ---- the property, read directly on the BASIC-level observations
    def oracle(self, case, out):
        if case['k'] != 'op':
            return None
        res = self.run_case(case)
        if res['host']:
            return 'host exception escaped: %s' % res['host']
        if res['pre'] is None or res['post'] is None:
            return None
        # the hypotheses of the CHAIN theorems (wf, bufs_ok) on the real state the command starts from
        pre = res['pre']
        names = [bytes(bytearray(n)) for n, _ in pre['sc_vars']]
        anames = [bytes(bytearray(n)) for n, _ in pre['ar_dims']]
        if len(set(names)) != len(names) or len(set(anames)) != len(anames):
            return 'duplicate names in a variable dictionary before %s' % case['op']['text']
        bufs = dict((bytes(bytearray(n)), b) for n, b in pre['ar_bufs'])
        for n, dd in pre['ar_dims']:
            size = {37: 2, 33: 4, 35: 8, 36: 3}[n[-1]]
            base = pre['base']
            count = 1
            for x in dd:
                count *= (x + 1 - (base or 0))
            if (not dd or base is None or min(dd) < base or base < 0
                    or len(bufs.get(bytes(bytearray(n)), [])) != count * size):
                return 'array %r breaks the allocation invariant before %s' % (bytes(bytearray(n)), case['op']['text'])
        if not res['post']['allow']:
            return 'garbage collection left switched off after %s' % case['op']['text']
        for k, v in res['probes']:
            if v.startswith('HOST'):
                return 'host exception in probe %s: %s' % (k, v)
        # with the memory limit tuned to the last byte the probes themselves run out of memory: inconclusive
        tight = [k for k, v in res['probes'] if k != 'gc' and ('Out of memory' in v or 'Out of string space' in v)]
        if tight:
            return None
        probes = dict((k, v) for k, v in res['probes'])
        op = case['op']
        cmd = op['cmd']
        if res['exc'] is not None:
            # the command raised: the property says nothing about the variables; garbage collection must work
            if '<G>ok|' not in probes.get('gc', ''):
                return 'string garbage is no longer collected after the failed %s: %r' % (op['text'], probes.get('gc'))
            return None
        before = dict((k, v) for k, v in TAG.findall(res['outA']))
        # no string variable may be left pointing at nothing
        post = res['post']
        vs = post['code_start'] + post['prog']
        live = set(a for a, _ in post['strs'])
        ptrs = [(bytes(bytearray(n)), v) for n, v in post['sc_vars'] if n[-1] == 36 and n[0] < 128 and len(v) == 3]
        for n, b in post['ar_bufs']:
            if n[-1] == 36:
                ptrs += [(bytes(bytearray(n)), b[i:i + 3]) for i in range(0, len(b) - 2, 3)]
        for n, v in ptrs:
            if v[0] > 0 and v[1] + 256 * v[2] >= vs and v[1] + 256 * v[2] not in live:
                return 'string variable %r points at a detached string after %s' % (n, op['text'])

        def default(name):
            return '' if name.split('(')[0].endswith('$') else ' 0 '

        # which variables must survive (independent reading of COMMON / ALL)
        keep_s, keep_a = set(), set()
        if cmd == 'CHAIN':
            if op['all']:
                keep_s, keep_a = set(case['scalars']), set(n for n, _ in case['arrays'])
            else:
                for n, k in op['decls']:
                    full = n if n[-1] in '%!#$' else n + case['deftype'].get(n[0], '!')
                    if k == 0:
                        keep_s.add(full)
                    elif k == 1:
                        keep_a.add(full)
        dims = dict((n, d) for n, d in case['arrays'])
        after = {}
        for k, v in res['probes']:
            if k == 'vars':
                after.update(dict(TAG.findall(v)))
        refs = [n for n in case['scalars']] + ['Z9!']
        for n, dd in ([] if case.get('base_first') else case['arrays']):
            idx = [[]]
            for x in dd:
                idx = [i + [j] for i in idx for j in range(case['base'] or 0, x + 1)]
            refs += ['%s(%s)' % (n, ','.join(map(str, ix))) for ix in idx]
        for ref in refs:
            name = ref.split('(')[0]
            kept = (name in keep_a) if '(' in ref else (name in keep_s)
            got = after.get(ref)
            if kept and ref in before:
                if got != before[ref]:
                    return 'COMMON variable %s was %r before CHAIN and is %r after' % (ref, before[ref], got)
            elif not kept:
                if got != default(ref):
                    return 'variable %s survived %s: %r' % (ref, op['text'], got)
        for k, v in res['probes']:
            if k.startswith('shape:'):
                name = k[6:]
                if name in keep_a:
                    if 'Subscript out of range' not in v:
                        return 'COMMON array %s lost its dimensions %s: %r' % (name, dims[name], v)
                elif 'Subscript out of range' in v:
                    return 'array %s survived %s' % (name, op['text'])
        if dict(TAG.findall(probes['errerl'])).get('E') != ' 0  0 ':
            return 'ERR / ERL survived %s: %r' % (op['text'], probes['errerl'])
        if cmd != 'CHAIN':
            # free memory as in a fresh session with this program and memory size: no variable, no string
            post = res['post']
            want = post['total'] - post['stack'] - 2 - post['code_start'] - post['prog']
            got = dict(TAG.findall(probes['errerl'])).get('F')
            if got is None or int(float(got)) != want:
                return 'FRE(0) after %s is %r, a fresh session has %d' % (op['text'], got, want)
        if dict(TAG.findall(probes['errerl'])).get('R') != ' .1213501 ':
            return 'random number sequence not reset by %s: %r' % (op['text'], probes['errerl'])
        first_data = {'CLEAR': ' 11 ', 'NEW': None, 'RUN': ' 11 ', 'CHAIN': ' 77 '}[cmd]
        if cmd == 'RUN' and op['variant'] in ('file', 'file_r'):
            first_data = ' 77 '
        got = dict(TAG.findall(probes['data'])).get('D')
        if first_data is None:
            if 'Out of DATA' not in probes['data']:
                return 'DATA after NEW: %r' % probes['data']
        elif got != first_data:
            return 'DATA pointer not reset by %s: %r' % (op['text'], probes['data'])
        # open files: CHAIN leaves them open, RUN closes them unless ,R
        if case.get('file2') and 'file2' in probes:
            still = '<O>open|' in probes['file2']
            if cmd == 'CHAIN' and not still:
                return 'file #2 was closed by %s: %r' % (op['text'], probes['file2'])
            if cmd == 'RUN' and still != (op['variant'] == 'file_r'):
                return 'file #2 after %s: %r' % (op['text'], probes['file2'])
        # DEFtype: cleared, except over CHAIN MERGE
        t = '!'
        if cmd == 'CHAIN' and op['merge']:
            t = case['deftype'].get('Z', '!')
        want = {'!': ' 1.5 ', '#': ' 1.5 ', '%': ' 2 '}.get(t)
        got = dict(TAG.findall(probes['deftype'])).get('T')
        if want is None:
            if 'Type mismatch' not in probes['deftype']:
                return 'DEFSTR lost over CHAIN MERGE: %r' % probes['deftype']
        elif got != want:
            return 'DEFtype after %s: %r (expected %r)' % (op['text'], probes['deftype'], want)
        # OPTION BASE: cleared, except over CHAIN with COMMON declarations / ALL
        base_kept = cmd == 'CHAIN' and (op['all'] or len([1 for n, k in op['decls'] if k in (0, 1)]) > 0)
        if not base_kept:
            if '<B>ok|' not in probes['base']:
                return 'OPTION BASE survived %s: %r' % (op['text'], probes['base'])
        elif case['base'] == 1 and 'Subscript out of range' not in probes['base']:
            return 'OPTION BASE 1 lost over CHAIN with COMMON: %r' % probes['base']
        # DEF FN: cleared, except over CHAIN ALL
        if not (cmd == 'CHAIN' and op['all']):
            if 'Undefined user function' not in probes['fn']:
                return 'DEF FN survived %s: %r' % (op['text'], probes['fn'])
        if not base_kept and 'Duplicate Definition' not in probes['base2']:
            return ('OPTION BASE 1 was unset by ERASE after %s (a stale "set by DIM" mark survived): %r'
                    % (op['text'], probes['base2']))
        if '<M>after|' not in probes['math'] or 'Division by zero' not in probes['math']:
            return ('math errors still stop execution after %s (error handler left in raising mode): %r'
                    % (op['text'], probes['math']))
        if 'RESUME without error' not in probes['resume']:
            return 'RESUME state survived %s: RESUME gave %r' % (op['text'], probes['resume'][:80])
        if 'Unprintable error' not in probes['trap'] or 'TRAP' in probes['trap']:
            return 'ON ERROR trap survived %s: %r' % (op['text'], probes['trap'])
        if 'RETURN without GOSUB' not in probes['return']:
            return 'subroutine stack survived %s: RETURN gave %r' % (op['text'], probes['return'][:80])
        if 'NEXT without FOR' not in probes['next']:
            return 'FOR stack survived %s: NEXT gave %r' % (op['text'], probes['next'][:80])
        if 'WEND without WHILE' not in probes['wend']:
            return 'WHILE stack survived %s: WEND gave %r' % (op['text'], probes['wend'][:80])
        if '<G>ok|' not in probes.get('gc', ''):
            return 'string garbage is no longer collected after %s: %r' % (op['text'], probes.get('gc'))
        return None


CHECK = C23
