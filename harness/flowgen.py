"""Generators of abstract programs for the C19 / C21 checks (see harness/flowlib.py for the representation).
All randomness comes from the rng that is passed in."""
import copy

from harness import flowlib as F

V = lambda i: ['v', i]
LOOPVARS = [4, 5, 6]          # I% J% K% by nesting depth
DATAVARS = [0, 1, 2, 3]       # A% B% C% D%
EDGE = [32767, 32766, -32768, -32767, 255, 256, 0, 1, -1, 2, 3]
ERRCODES = [1, 3, 4, 5, 6, 7, 8, 9, 11, 13, 19, 20, 26, 29, 30, 50, 77, 78, 100, 200, 255]


def small(rng):
    return rng.choice([0, 1, 2, 3, 4, 5, -1, -2, 10])


def atom(rng, vars_=None):
    r = rng.random()
    if r < 0.45:
        return V(rng.choice(vars_ or DATAVARS + LOOPVARS))
    if r < 0.9:
        return small(rng)
    return rng.choice(EDGE)


def expr(rng, depth=1, vars_=None):
    if depth <= 0 or rng.random() < 0.4:
        return atom(rng, vars_)
    op = rng.choice(['+', '+', '-', '-', '<', '=', '>', '<=', '<>', '>='])
    return [op, expr(rng, depth - 1, vars_), expr(rng, depth - 1, vars_)]


def cond(rng):
    return [rng.choice(F.CMPS), atom(rng), atom(rng)]


# ---------------------------------------------------------------------------------------------------------
# structured programs

class StructGen(object):
    def __init__(self, rng, nsubs=None, allow_zero_step=True):
        self.rng = rng
        self.line = 0
        self.nsubs = rng.choice([0, 0, 1, 2, 3]) if nsubs is None else nsubs
        self.sub_lines = [1000 + 100 * i for i in range(self.nsubs)]
        self.allow_zero_step = allow_zero_step

    def fresh(self):
        self.line += 10
        return self.line

    def for_bounds(self):
        rng = self.rng
        r = rng.random()
        if r < 0.05 and self.allow_zero_step:
            step = 0
        elif r < 0.6:
            step = 1
        elif r < 0.8:
            step = rng.choice([-1, -1, -2, -3])
        elif r < 0.95:
            step = rng.choice([2, 3, 5, 7])
        else:
            step = rng.choice([32767, -32768, 16384, -16384, 1000])
        start = rng.choice([1, 1, 0, 2, -3, 5, 10]) if rng.random() < 0.75 else rng.choice(
            [32767, 32766, 32760, -32768, -32767, -32760, 255])
        trips = rng.choice([0, 0, 1, 2, 2, 3, 3, 4])
        sg = 1 if step >= 0 else -1
        if step == 0:
            stop = start + rng.choice([-2, -1, -1, 0, 1, 3])
        elif trips == 0:
            stop = start - sg * rng.choice([1, 2, 3])
        else:
            stop = start + (trips - 1) * step + sg * rng.randrange(0, abs(step))
        if not -32768 <= stop <= 32767:
            stop = 32767 if stop > 0 else -32768
        return start, stop, step

    def call(self, level):
        """a GOSUB to a subroutine with a higher index than the caller (level = own index, -1 for main)"""
        rng = self.rng
        cands = self.sub_lines[level + 1:]
        if not cands:
            return ['print', small(rng)]
        if rng.random() < 0.6:
            return ['gosub', rng.choice(cands)]
        tg = [rng.choice(cands) for _ in range(rng.choice([1, 2, 3]))]
        sel = rng.choice([0, 1, 1, 2, 2, 3, 4, 255]) if rng.random() < 0.8 else rng.choice([-1, 256, 300, 32767, V(0)])
        return ['ongosub', sel, tg]

    def stmt(self, depth, inline, level, loopdepth):
        rng = self.rng
        r = rng.random()
        if depth <= 0:
            r = r * 0.5
        if r < 0.3:
            return ['print', expr(rng, 1)]
        if r < 0.5:
            return ['let', rng.choice(DATAVARS), expr(rng, 1)]
        if r < 0.72 and loopdepth < 3:
            a, b, s = self.for_bounds()
            v = LOOPVARS[loopdepth]
            body = self.block(depth - 1, inline, level, loopdepth + 1, lo=0)
            if rng.random() < 0.25:
                a = expr(rng, 1, DATAVARS) if rng.random() < 0.5 else a
            pre = []
            if rng.random() < 0.35:
                # the end (and sometimes the step or the start) is a VARIABLE that the body changes, itself or
                # through a subroutine: the loop must keep the values it read at FOR
                w = rng.choice(DATAVARS)
                pre.append(['let', w, b])
                b = V(w)
                change = [['let', w, rng.choice([['-', V(w), 1], ['+', V(w), 1], ['-', V(w), 2], small(rng),
                                                 ['+', V(w), V(v)]])]]
                if rng.random() < 0.3:
                    change.append(self.call(level))
                if rng.random() < 0.3 and s != 0:
                    w2 = rng.choice([x for x in DATAVARS if x != w])
                    pre.append(['let', w2, s])
                    s = V(w2)
                    change.append(['let', w2, rng.choice([['+', V(w2), 1], ['-', 0, V(w2)], 0, 1])])
                if rng.random() < 0.2 and isinstance(a, int):
                    w3 = rng.choice([x for x in DATAVARS if x != w])
                    if not (isinstance(s, list) and s[1] == w3):
                        pre.append(['let', w3, a])
                        a = V(w3)
                        change.append(['let', w3, ['+', V(w3), 5]])
                k = rng.randrange(0, len(body) + 1)
                body = body[:k] + change + body[k:]
            loop = ['for', v, a, b, s, 1 if rng.random() < 0.6 else 0, body]
            if pre:
                return ['seq', pre + [loop]]
            return loop
        if r < 0.82:
            v = rng.choice(DATAVARS)
            n = rng.choice([0, 1, 2, 3])
            body = self.block(depth - 1, inline, level, loopdepth, lo=0) + [['let', v, ['+', V(v), 1]]]
            return ['while', ['<', V(v), n], body]
        if r < 0.92 and not inline:
            th = self.block(depth - 1, True, level, loopdepth, lo=0, hi=3)
            el = self.block(depth - 1, True, level, loopdepth, lo=0, hi=2)
            return ['if', cond(rng), th, el, self.fresh()]
        return self.call(level)

    def block(self, depth, inline, level, loopdepth, lo=1, hi=4):
        rng = self.rng
        out = []
        for _ in range(rng.randrange(lo, hi + 1)):
            if not inline and out and out[-1][0] not in ('line', 'if') and rng.random() < 0.35:
                out.append(['line', self.fresh()])
            st = self.stmt(depth, inline, level, loopdepth)
            if st[0] == 'seq':
                out += st[1]
            else:
                out.append(st)
        return out

    def program(self):
        rng = self.rng
        main = [['line', self.fresh()]] + self.block(3, False, -1, 0, lo=1, hi=5)
        subs = []
        for i, n in enumerate(self.sub_lines):
            self.line = n
            body = self.block(2, False, i, 0, lo=1, hi=3)
            if body and body[0][0] == 'line':
                body = body[1:]
            subs.append([n, body])
        return {'main': main, 'subs': subs}


def gen_struct(rng, tries=40, allow_long=False):
    """-> case {'k': 'struct', 'sp', 'prog', 'direct': None} accepted by the reference filter"""
    for _ in range(tries):
        sp = StructGen(rng).program()
        prog = F.compile_prog(sp)
        if not F.valid_layout(prog):
            continue
        out, steps = F.ref_struct(sp)
        if out[0] == 2:
            continue
        if steps <= F.SHORT or (allow_long and out == [3]):
            return {'k': 'struct', 'sp': sp, 'prog': prog, 'direct': None}
    return {'k': 'struct', 'sp': {'main': [['line', 10], ['print', 1]], 'subs': []},
            'prog': [['L', 10], ['P', 1], ['END']], 'direct': None}


# ---------------------------------------------------------------------------------------------------------
# unstructured programs: mutations of structured ones, and statement soup

def lines_of(prog):
    return [s[1] for s in prog if s[0] == 'L']


def mutate(rng, prog, zero_step=True):
    prog = copy.deepcopy(prog)
    lines = lines_of(prog)
    idx = [i for i, s in enumerate(prog) if s[0] != 'L']
    if not idx:
        return prog
    i = rng.choice(idx)
    tgt = rng.choice(lines + [rng.choice(lines) + 5])
    m = rng.randrange(14)
    if m == 0:
        prog[i] = ['G', tgt]
    elif m == 1:
        prog.insert(i, ['IF', cond(rng), tgt])
    elif m == 2:
        ks = [j for j in idx if prog[j][0] in ('N', 'D', 'R', 'F', 'W')]
        if ks:
            del prog[rng.choice(ks)]
    elif m == 3:
        ks = [j for j in idx if prog[j][0] == 'N']
        if ks:
            j = rng.choice(ks)
            prog[j] = ['N', [rng.choice(LOOPVARS)] if rng.random() < 0.7 else []]
    elif m == 4:
        # NEXT J : NEXT I  ->  NEXT J, I
        ks = [j for j in idx if prog[j][0] == 'N' and j + 1 < len(prog) and prog[j + 1][0] == 'N'
              and prog[j][1] and prog[j + 1][1]]
        if ks:
            j = rng.choice(ks)
            prog[j] = ['N', prog[j][1] + prog[j + 1][1]]
            del prog[j + 1]
    elif m == 5:
        prog.insert(i, rng.choice([['R', None], ['N', []], ['D'], ['N', [rng.choice(LOOPVARS)]], ['R', tgt]]))
    elif m == 6:
        j = rng.choice(idx)
        prog[i], prog[j] = prog[j], prog[i]
    elif m == 7:
        ks = [j for j in idx if prog[j][0] == 'GS']
        if ks:
            prog[rng.choice(ks)] = ['GS', tgt]
        else:
            prog.insert(i, ['GS', tgt])
    elif m == 8:
        n = rng.choice([1, 2, 3])
        sel = rng.choice([0, 1, 2, 3, 4, 255, 256, -1, V(rng.choice(DATAVARS))])
        prog.insert(i, ['ON', sel, rng.choice([0, 1]), [rng.choice(lines + [tgt]) for _ in range(n)]])
    elif m == 9:
        prog.insert(i, ['EL', None if rng.random() < 0.7 else tgt])
    elif m == 10:
        prog.insert(i, ['IF', cond(rng), None])
    elif m == 11:
        prog.insert(i, ['END'])
    elif m == 12:
        a, b, s = StructGen(rng, allow_zero_step=zero_step).for_bounds()
        prog.insert(i, ['F', rng.choice(LOOPVARS), a, b, s])
    else:
        prog.insert(i, ['W', cond(rng)])
    return prog


def soup_stmt(rng, lines):
    tgt = rng.choice(lines + [rng.choice(lines) + 5]) if lines else 10
    r = rng.randrange(16)
    if r < 3:
        return ['P', expr(rng, 1)]
    if r < 5:
        return ['=', rng.choice(DATAVARS + LOOPVARS), expr(rng, 1)]
    if r == 5:
        a, b, s = StructGen(rng).for_bounds()
        return ['F', rng.choice(LOOPVARS), a, b, s]
    if r == 6:
        return ['N', rng.choice([[], [4], [5], [6], [5, 4], [6, 5, 4], [4, 5]])]
    if r == 7:
        return ['W', cond(rng)]
    if r == 8:
        return ['D']
    if r == 9:
        return ['GS', tgt]
    if r == 10:
        return ['R', None if rng.random() < 0.8 else tgt]
    if r == 11:
        return ['G', tgt]
    if r == 12:
        return ['IF', cond(rng), None if rng.random() < 0.6 else tgt]
    if r == 13:
        return ['EL', None if rng.random() < 0.7 else tgt]
    if r == 14:
        return ['ON', atom(rng), rng.choice([0, 1]), [rng.choice(lines or [10]) for _ in range(rng.choice([1, 2, 3]))]]
    return ['END']


def gen_soup(rng, with_traps=False):
    nlines = rng.randrange(2, 7)
    lines = [10 * (i + 1) for i in range(nlines)]
    prog = []
    for n in lines:
        prog.append(['L', n])
        for _ in range(rng.randrange(1, 5)):
            s = soup_stmt(rng, lines)
            if with_traps and rng.random() < 0.3:
                s = trap_stmt(rng, lines)
            prog.append(s)
    return prog


def accept(rng, prog, direct, long_rate):
    """keep a flat case if the reference run is short, or (rarely) clearly endless; never if unmodelled"""
    if not F.valid_layout(prog):
        return False
    kind, out, steps = F.ref_flat(prog, direct)
    if kind == 'unmodelled':
        return False
    if kind == 'long':
        return rng.random() < long_rate
    return steps <= F.SHORT


def gen_exit(rng):
    """two nested loops (FOR or WHILE each), the inner one left early by a jump, and the loop closers /
    openers visited again after the loops are done: what matters is which stack records are dropped"""
    outer_for = rng.random() < 0.6
    inner_for = rng.random() < 0.6
    n, m = rng.choice([1, 2, 2, 3]), rng.choice([2, 3, 3, 4])
    k = rng.randrange(1, m + 1)
    l10 = []
    if outer_for:
        l10.append(['F', 4, 1, n, 1])
    else:
        l10 += [['=', 0, 0], ['W', ['<', V(0), n]]]
    l20 = []
    if inner_for:
        l20.append(['F', 5, 1, m, 1])
        test = ['=', V(5), k]
    else:
        l20 += [['=', 1, 0], ['W', ['<', V(1), m]], ['=', 1, ['+', V(1), 1]]]
        test = ['=', V(1), k]
    if rng.random() < 0.5:
        l20.append(['P', V(5) if inner_for else V(1)])
    exit_to = rng.choice([40, 40, 40, 50, 60, 30])
    l20.append(['IF', test, exit_to])
    l30 = [['N', rng.choice([[5], []])] if inner_for else ['D']]
    l40 = [['P', V(4) if outer_for else V(0)]]
    if not outer_for:
        l40.append(['=', 0, ['+', V(0), 1]])
    if outer_for and inner_for and rng.random() < 0.2:
        l30 = [['N', [5, 4]]]
        l40.append(['P', 7])
    else:
        l40.append(['N', rng.choice([[4], []])] if outer_for else ['D'])
    back = rng.choice([40, 40, 30, 20, 10])
    l50 = [['=', 2, ['+', V(2), 1]], ['IF', ['<', V(2), rng.choice([2, 3])], back]]
    l60 = [['P', 99]]
    prog = []
    for num, sl in ((10, l10), (20, l20), (30, l30), (40, l40), (50, l50), (60, l60)):
        prog.append(['L', num])
        prog += sl
    return prog


def gen_abandon(rng):
    """a FOR loop that is abandoned from inside its body (RETURN from the subroutine it is in, or GOTO out of it
    inside a WHILE) and then executed again with another end / step: a stale record for the same NEXT stays
    on the FOR stack, and NEXT must use the most recent one"""
    ends = rng.sample([1, 2, 3, 4, 5, 6], 3)
    steps = [1, 1, 1] if rng.random() < 0.5 else [rng.choice([1, 2, 3]) for _ in range(3)]
    named = rng.choice([[4], []])
    quit_on = rng.choice([0, 0, 1])             # which execution of the loop is abandoned (by count in C%)
    at = rng.choice([1, 1, 2])                  # at which counter value
    body = [['P', V(4)]]
    if rng.random() < 0.4:
        body.append(['P', ['+', V(0), V(4)]])
    if rng.random() < 0.6:
        # subroutine called several times
        calls = []
        for e, st in zip(ends, steps):
            calls += [['=', 0, e], ['=', 3, st], ['GS', 500]]
            if rng.random() < 0.3:
                calls.append(['P', 77])
        prog = [['L', 10]] + calls + [['END']]
        prog += [['L', 500], ['F', 4, 1, V(0), V(3)]] + body
        prog += [['IF', ['=', V(2), quit_on], None], ['IF', ['=', V(4), at], None],
                 ['=', 2, ['+', V(2), 1]], ['R', None]]
        prog += [['L', 510], ['N', named], ['=', 2, ['+', V(2), 1]], ['R', None]]
        return prog
    # loop inside a WHILE, left by GOTO to the WEND
    prog = [['L', 10], ['=', 1, 0], ['W', ['<', V(1), 3]], ['=', 1, ['+', V(1), 1]]]
    prog += [['=', 0, ['+', ends[0], V(1)]] if rng.random() < 0.5 else ['=', 0, ['-', 6, V(1)]],
             ['=', 3, rng.choice([1, 1, 2])]]
    prog += [['L', 20], ['F', 4, 1, V(0), V(3)]] + body + [['IF', ['=', V(1), quit_on + 1], 40]]
    prog += [['L', 30], ['N', named], ['P', 55]]
    prog += [['L', 40], ['D'], ['P', 99]]
    return prog


def remap_lines(prog, m):
    """the same program with line numbers renamed by m (all definitions and all jump targets)"""
    f = lambda n: m.get(n, n)
    out = []
    for s in prog:
        k = s[0]
        if k in ('L', 'GS', 'G'):
            out.append([k, f(s[1])])
        elif k == 'R':
            out.append([k, None if s[1] is None else f(s[1])])
        elif k == 'IF':
            out.append([k, s[1], None if s[2] is None else f(s[2])])
        elif k == 'EL':
            out.append([k, None if s[1] is None else f(s[1])])
        elif k == 'ON':
            out.append([k, s[1], s[2], [f(n) for n in s[3]]])
        else:
            out.append(s)
    return out


def boundary_lines(rng, prog):
    """give the first line the number 0 and / or the last line the number 65529 (the boundary line numbers),
    in the definitions and in every jump that names them; programs with ON ERROR / RESUME n / RESTORE n are left
    alone (0 means something else there)"""
    if any(s[0] in ('OEG', 'RES', 'RS') for s in prog):
        return prog
    ls = lines_of(prog)
    if len(ls) < 2 or 0 in ls or 65529 in ls:
        return prog
    m = {}
    r = rng.random()
    if r < 0.7:
        m[min(ls)] = 0
    if r > 0.4:
        m[max(ls)] = 65529
    return remap_lines(prog, m)


def gen_jump0(rng):
    """line 0 and line 65529 as the target of every form of jump"""
    lo, hi = rng.choice([(0, 65529), (0, 65529), (0, 500), (5, 65529)])
    form = rng.randrange(8)
    t = rng.choice([lo, lo, hi])
    yes, no = rng.choice([1, -1, ['=', V(0), V(0)]]), rng.choice([0, ['<', V(0), V(0)]])
    if form == 0:
        j = [['IF', yes, t], ['P', 11]]
    elif form == 1:
        j = [['IF', no, 30], ['EL', t], ['P', 12]]
    elif form == 2:
        j = [['IF', no, t], ['P', 13]]
    elif form == 3:
        j = [['G', t]]
    elif form == 4:
        j = [['GS', t], ['P', 14]]
    elif form == 5:
        j = [['ON', rng.choice([1, 2]), rng.choice([0, 1]), [t, hi if t == lo else lo]], ['P', 15]]
    elif form == 6:
        j = [['IF', yes, None], ['IF', yes, t], ['P', 16], ['EL', 30]]
    else:
        j = [['IF', no, None], ['P', 17], ['EL', t]]
    prog = [['L', lo], ['=', 2, ['+', V(2), 1]], ['P', V(2)], ['IF', ['>', V(2), 2], 40 if rng.random() < 0.7 else hi]]
    if rng.random() < 0.4:
        prog.append(['R', None])
    prog += [['L', 10]] + j + [['L', 20], ['P', 20], ['L', 30], ['P', 30], ['L', 40], ['P', 40]]
    if rng.random() < 0.5:
        prog.append(['END'])
    prog += [['L', hi], ['P', 99]]
    if rng.random() < 0.4:
        prog.append(['R', None])
    return prog


def gen_flat(rng, long_rate=0.02):
    for _ in range(60):
        r = rng.random()
        if r < 0.6:
            prog = gen_struct(rng)['prog']
            for _ in range(rng.choice([1, 1, 2, 3])):
                prog = mutate(rng, prog)
        elif r < 0.72:
            prog = gen_exit(rng)
            if rng.random() < 0.3:
                prog = mutate(rng, prog)
        elif r < 0.84:
            prog = gen_abandon(rng)
            if rng.random() < 0.2:
                prog = mutate(rng, prog)
        elif r < 0.92:
            prog = gen_jump0(rng)
        else:
            prog = gen_soup(rng)
        if rng.random() < 0.25:
            prog = boundary_lines(rng, prog)
        if accept(rng, prog, None, long_rate):
            return {'k': 'flat', 'prog': prog, 'direct': None}
    return {'k': 'flat', 'prog': [['L', 10], ['N', []]], 'direct': None}


# ---------------------------------------------------------------------------------------------------------
# error trapping programs

def fault(rng, lines):
    """a statement that raises (or may raise) an error"""
    r = rng.randrange(15)
    bad = rng.choice(lines) + 5 if lines else 5
    if r == 14:
        return read_stmt(rng)
    if r < 4:
        c = rng.choice(ERRCODES) if rng.random() < 0.8 else rng.choice([0, 256, 300, -1, 40000])
        return ['ERR', c]
    if r == 4:
        return ['=', rng.choice(DATAVARS), ['+', 32767, rng.choice([1, V(rng.choice(DATAVARS))])]]
    if r == 5:
        return ['P', ['\\', rng.choice([1, 7, -7, V(0)]), V(rng.choice(DATAVARS))]]
    if r == 6:
        return ['G', bad]
    if r == 7:
        return ['GS', bad]
    if r == 8:
        return ['R', None]
    if r == 9:
        return ['N', rng.choice([[], [4]])]
    if r == 10:
        return ['D']
    if r == 11:
        return ['RES', rng.choice(['S', 'N'])]
    if r == 12:
        return ['ON', rng.choice([256, -1, 300, 40000]), rng.choice([0, 1]), [rng.choice(lines or [10])]]
    return ['F', 4, rng.choice([32767, 32766]), 32767, rng.choice([1, 2])]


DATA_POOL = [0, 1, 2, 3, 7, -1, -5, 255, 32767, -32768, 32768, 99999, -40000, 65536, 10]


def data_stmt(rng):
    return ['DT', [rng.choice(DATA_POOL) for _ in range(rng.choice([1, 2, 2, 3, 4]))]]


def read_stmt(rng):
    return ['RD', [rng.choice(DATAVARS) for _ in range(rng.choice([1, 1, 2, 3]))]]


def trap_stmt(rng, lines):
    r = rng.random()
    if r < 0.5:
        return fault(rng, lines)
    if r < 0.7:
        return ['OEG', rng.choice(lines + [0, 0, rng.choice(lines) + 5])]
    if r < 0.85:
        return ['RES', rng.choice(['S', 'N', 'N', rng.choice(lines), rng.choice(lines) + 5])]
    return ['P', rng.choice(['ERR', 'ERL', ['+', 'ERR', 'ERL']])]


def handler_body(rng, lines, resume_targets):
    """the statements of an error handler"""
    out = []
    if rng.random() < 0.85:
        out.append(['P', 'ERR'])
    if rng.random() < 0.85:
        out.append(['P', 'ERL'])
    # a fuse against endless RESUME loops, and a repair of the usual causes
    if rng.random() < 0.8:
        out.append(['=', 7, ['+', V(7), 1]])
        out.append(['IF', ['>', V(7), rng.choice([2, 3, 4])], None])
        out.append(rng.choice([['END'], ['END'], ['OEG', 0], ['ERR', rng.choice(ERRCODES)]]))
        out.append(['EL', None])
    if rng.random() < 0.5:
        v = rng.choice(DATAVARS)
        out.append(['=', v, rng.choice([1, 1, 2, 0])])
    r = rng.random()
    if r < 0.3:
        out.append(['RES', 'N'])
    elif r < 0.5:
        out.append(['RES', 'S'])
    elif r < 0.65:
        out.append(['RES', rng.choice(resume_targets)])
    elif r < 0.7:
        out.append(['RES', rng.choice(resume_targets) + 5])
    elif r < 0.77:
        out.append(['ERR', rng.choice(ERRCODES)])
    elif r < 0.84:
        out.append(['OEG', 0])
    elif r < 0.88:
        out.append(['END'])
    elif r < 0.92:
        out.append(['G', rng.choice(resume_targets)])
    elif r < 0.95:
        out.append(fault(rng, lines))
    # else: nothing - runs into the end of the program (No RESUME) or the next line
    return out


def gen_trap_prog(rng):
    """program: [10 ON ERROR GOTO h] body lines with faults ... END, subroutines with faults, handler(s)"""
    nbody = rng.randrange(1, 5)
    body_lines = [20 + 10 * i for i in range(nbody)]
    sub_lines = [500 + 100 * i for i in range(rng.choice([0, 0, 1, 2]))]
    h_lines = [900] if rng.random() < 0.85 else [900, 950]
    lines = [10] + body_lines + [400] + sub_lines + h_lines     # (450, 460: DATA lines, when present)
    prog = [['L', 10]]
    r = rng.random()
    if r < 0.85:
        prog.append(['OEG', h_lines[0]])
    elif r < 0.9:
        prog.append(['OEG', 0])
    else:
        prog.append(['P', 0])
    if rng.random() < 0.3:
        prog.append(['=', rng.choice(DATAVARS), small(rng)])

    with_data = rng.random() < 0.45

    def filler():
        r = rng.random()
        if with_data and r < 0.3:
            rr = rng.random()
            if rr < 0.7:
                return read_stmt(rng)
            if rr < 0.85:
                return ['RS', rng.choice([None, None, rng.choice(lines), 450, rng.choice(lines) + 5])]
            return data_stmt(rng)
        if r < 0.4:
            return ['P', expr(rng, 1, DATAVARS)]
        if r < 0.6:
            return ['=', rng.choice(DATAVARS), small(rng)]
        if r < 0.7 and sub_lines:
            return ['GS', rng.choice(sub_lines)]
        if r < 0.75 and len(h_lines) > 1:
            return ['OEG', h_lines[1]]
        if r < 0.8:
            return ['P', rng.choice(['ERR', 'ERL'])]
        return ['P', small(rng)]

    def line_body(n_max):
        out = []
        shape = rng.random()
        n = rng.randrange(1, n_max + 1)
        if shape < 0.25:
            # IF on the line: faults inside its branches or its condition
            c = cond(rng) if rng.random() < 0.8 else ['\\', 1, V(rng.choice(DATAVARS))]
            out.append(['IF', c, None])
            for _ in range(rng.randrange(0, 3)):
                out.append(fault(rng, lines) if rng.random() < 0.5 else filler())
            out.append(['EL', None])
            for _ in range(rng.randrange(0, 3)):
                out.append(fault(rng, lines) if rng.random() < 0.5 else filler())
            return out
        if shape < 0.4:
            # a loop around a fault
            a, b, s = StructGen(rng, allow_zero_step=False).for_bounds()
            out.append(['F', 4, a, b, s])
            out.append(fault(rng, lines) if rng.random() < 0.7 else filler())
            out.append(filler())
            out.append(['N', rng.choice([[], [4]])])
            return out
        for _ in range(n):
            out.append(fault(rng, lines) if rng.random() < 0.45 else filler())
        return out

    for n in body_lines:
        prog.append(['L', n])
        prog += line_body(4)
    prog += [['L', 400], ['P', 400]]
    if rng.random() < 0.9:
        prog.append(['END'])
    if with_data:
        # the DATA live on lines of their own, away from the READ statements
        prog += [['L', 450], data_stmt(rng)]
        if rng.random() < 0.4:
            prog += [data_stmt(rng)]
        if rng.random() < 0.4:
            prog += [['L', 460], data_stmt(rng)]
    for n in sub_lines:
        prog.append(['L', n])
        prog += line_body(3)
        if rng.random() < 0.9:
            prog.append(['R', None])
    targets = body_lines + [400]
    for h in h_lines:
        prog.append(['L', h])
        prog += handler_body(rng, lines, targets)
        if rng.random() < 0.2:
            prog += [['L', h + 10], rng.choice([['RES', 'N'], ['P', 1], ['END']])]
    return prog, lines, h_lines, sub_lines


def gen_direct(rng, lines, h_lines, sub_lines):
    out = []
    if rng.random() < 0.7:
        out.append(['OEG', rng.choice(h_lines)])
    for _ in range(rng.randrange(1, 4)):
        r = rng.random()
        if r < 0.45:
            out.append(fault(rng, lines))
        elif r < 0.6 and sub_lines:
            out.append(['GS', rng.choice(sub_lines)])
        elif r < 0.7:
            out.append(['G', rng.choice(lines)])
        elif r < 0.8:
            out += [['F', 4, 1, rng.choice([2, 3]), 1], ['P', V(4)], ['N', []]]
        else:
            out.append(['P', rng.choice([small(rng), 'ERR', 'ERL'])])
    return out


def gen_trap(rng, long_rate=0.02):
    for _ in range(80):
        prog, lines, h_lines, sub_lines = gen_trap_prog(rng)
        direct = None
        r = rng.random()
        if r < 0.2:
            direct = gen_direct(rng, lines, h_lines, sub_lines)
        elif r < 0.3:
            prog = mutate(rng, prog, zero_step=False)
        if accept(rng, prog, direct, long_rate):
            return {'k': 'flat', 'prog': prog, 'direct': direct}
    return {'k': 'flat', 'prog': [['L', 10], ['RES', 'S']], 'direct': None}


def accept_session(rng, prog, cmds):
    if not F.valid_layout(prog):
        return False
    kinds, out, steps = F.ref_session(prog, cmds)
    if 'unmodelled' in kinds or 'long' in kinds:
        return False
    return steps <= F.SHORT


def gen_trap_session(rng):
    """a handler program and several commands typed one after the other WITHOUT clearing in between: what a
    stop leaves behind (handler line, error registers, stacks, variables) is what the next command starts
    with.  Handlers that end the program themselves (fault, ON ERROR GOTO 0, no RESUME, END) are frequent."""
    for _ in range(80):
        prog, lines, h_lines, sub_lines = gen_trap_prog(rng)
        if rng.random() < 0.6:
            # make the first handler stop the program on its first visit(s)
            h = h_lines[0]
            i = next(k for k, x in enumerate(prog) if x == ['L', h])
            stopper = rng.choice([['ERR', rng.choice(ERRCODES)], ['ERR', rng.choice(ERRCODES)], ['OEG', 0],
                                  ['=', 0, ['+', 32767, 1]], ['END'], ['G', 400]])
            guard = [['IF', ['=', V(6), 0], None], ['=', 6, 1], stopper,
                     ['L', h + 5]] if rng.random() < 0.7 else [stopper, ['L', h + 5]]
            prog = prog[:i + 1] + guard + prog[i + 1:]
        cmds = [None if rng.random() < 0.75 else gen_direct(rng, lines, h_lines, sub_lines)]
        for _ in range(rng.choice([1, 1, 2, 3])):
            r = rng.random()
            if r < 0.35:
                cmds.append([['G', rng.choice([10, 10, 20, rng.choice(lines)])]])
            elif r < 0.55:
                cmds.append([fault(rng, lines)] + ([['P', rng.choice([7, 'ERR', 'ERL'])]] if rng.random() < 0.6 else []))
            elif r < 0.65:
                cmds.append([['P', 'ERR'], ['P', 'ERL']])
            elif r < 0.75:
                cmds.append([['RES', rng.choice(['N', 'S', rng.choice(lines)])]])
            elif r < 0.85 and sub_lines:
                cmds.append([['GS', rng.choice(sub_lines)], ['P', 8]])
            elif r < 0.93:
                cmds.append(gen_direct(rng, lines, h_lines, sub_lines))
            else:
                cmds.append(None)
        if rng.random() < 0.25:
            # a division before ON ERROR GOTO is reached, and RUN again: soft both times (RUN resets the switch)
            prog = [prog[0], ['P', ['\\', rng.choice([1, -7, 5]), V(rng.choice(DATAVARS))]]] + prog[1:]
            cmds.append(None)
        if accept_session(rng, prog, cmds):
            return {'k': 'flat', 'prog': prog, 'cmds': cmds}
    return {'k': 'flat', 'prog': [['L', 10], ['RES', 'S']], 'cmds': [None, [['P', 'ERR']]]}


# ---------------------------------------------------------------------------------------------------------
# FOR with a single-precision counter

import struct


def f32(x):
    return struct.unpack('<f', struct.pack('<f', x))[0]


SINGLE_POOL = [0.0, 1.0, 2.0, 3.0, 10.0, 0.1, 0.2, 0.25, 0.5, 0.7, 1.5, 1e-8, 1e-3, 0.3, 100.0, 255.0,
               16777214.0, 16777215.0, 16777216.0, 16777218.0, 16777220.0, 33554432.0, 8388608.0,
               1e38, 1.7e38, 1.70141173e38, 8.5e37, 1e37, 3e-39, 1e-38, 32767.0, 32768.0, 65536.0]


def single_passes(a, b, s, cap):
    """approximate number of passes in float32 arithmetic; None = the counter is stuck / more than cap"""
    c = f32(a)
    n = 0
    up = s >= 0
    if (c > b) if up else (c < b):
        return 0
    while n <= cap:
        n += 1
        try:
            c2 = f32(c + s)
        except OverflowError:
            return n
        if c2 in (float('inf'), float('-inf')):
            return n
        if (c2 > b) if up else (c2 < b):
            return n
        if c2 == c:
            return None
        c = c2
    return None


def gen_single(rng):
    for _ in range(200):
        r = rng.random()
        if r < 0.35:
            a = rng.choice(SINGLE_POOL) * rng.choice([1, 1, 1, -1])
            s = rng.choice(SINGLE_POOL) * rng.choice([1, 1, -1])
            trips = rng.choice([0, 1, 2, 3, 5, 10, 20])
            b = a + s * (trips - rng.random())
        elif r < 0.6:
            a, b, s = [rng.choice(SINGLE_POOL) * rng.choice([1, 1, -1]) for _ in range(3)]
        elif r < 0.8:
            # random mantissas, moderate magnitudes
            a = f32(rng.uniform(-100, 100))
            s = f32(rng.uniform(-3, 3))
            b = a + s * rng.uniform(-2, 30)
        else:
            # near 2^24 and near the largest number
            base = rng.choice([16777216.0, 16777216.0, 1.7e38, -1.7e38, 8388608.0])
            a = f32(base * rng.choice([1, 0.99999994, 0.9999999, 0.5]))
            s = f32(rng.choice([1.0, 2.0, 0.5, 3.0, 1e31, 1e37, 1e38, -1e38, -1.0]))
            b = f32(base * rng.choice([1, 1.0000001, 0.9999999, 1.000001]))
        try:
            a, b, s = f32(a), f32(b), f32(s)
            case = {'k': 'single', 'a': F.mbf_bytes(a), 'b': F.mbf_bytes(b), 's': F.mbf_bytes(s),
                    'susp': 1 if rng.random() < 0.25 else 0}
        except (ValueError, OverflowError):
            continue
        n = single_passes(a, b, s, 5000)
        if (n is None and rng.random() < 0.2) or (n is not None and n <= 100):
            return case
    return {'k': 'single', 'a': F.mbf_bytes(1.0), 'b': F.mbf_bytes(3.0), 's': F.mbf_bytes(1.0), 'susp': 0}
