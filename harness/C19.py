"""C19 - Structured control flow follows its reference semantics."""
from harness import flowlib as F
from harness import flowgen as G
from harness.flowlib import FlowCheck

V = G.V
L = lambda n: ['L', n]


def flat(prog, direct=None):
    return {'k': 'flat', 'prog': prog, 'direct': direct}


def struct(sp):
    return {'k': 'struct', 'sp': sp, 'prog': F.compile_prog(sp), 'direct': None}


class C19(FlowCheck):
    ID = 'C19'
    PROPS = 'props/C19.v'
    GEN = ['gen_flow', 'gen_mbf']
    MODEL_IMPORTS = ['lib.MBFPrims', 'gen.Gen_mbf', 'gen.Gen_flow', 'model.Flow', 'model.FlowRef', 'model.FlowSingle']
    QUICK_CASES = 700
    THOROUGH_CASES = 7000
    TRUSTED = ['hand model model/Flow.v of interpreter.py (parse loop, jumps, FOR/NEXT, WHILE/WEND, GOSUB/RETURN, '
               'IF, ON) over integer variables and integer expressions, tied by correspondence on generated '
               'programs; error numbers, the two FOR direction tests and the ON/ERROR ranges are regenerated '
               'from the source (gen_flow); tokeniser/expression parser are not modelled (programs are typed '
               'in as text)']
    PARTIAL = ('single-precision FOR counters are a separate loop model (FlowSingle), their general termination '
               'condition is stated but not proved; GOTO/early exits, '
               'NEXT variable lists and ON...GOTO are outside the structured language of the refinement '
               'theorem (they are covered by the step theorems and by correspondence)')
    RULE = ('structured programs (nested FOR/WHILE/IF, GOSUB, ON GOSUB; steps +/-/0; bounds at the 16-bit limits) '
            'laid out as text, mutations of them (GOTO, early exits, dropped/renamed/merged NEXT, stray '
            'RETURN/WEND, computed jumps) and statement soup, RUN in a real Session with a statement limit; '
            'output trace and final message compared with the Coq machine (and with the reference semantics '
            'exec_prog for structured cases) and with independent Python reference interpreters (oracle). '
            'non-trivial = some output or an error message')

    def corpus(self):
        mb = F.mbf_bytes

        def single(a, b, s, susp=0):
            return {'k': 'single', 'a': mb(G.f32(a)), 'b': mb(G.f32(b)), 's': mb(G.f32(s)), 'susp': susp}
        return [
            # single-precision counters: accumulated rounding, stuck counters, overflow (D19c)
            single(0, 1, .1), single(1, 2, 1e-8), single(16777215.0, 16777218.0, 1), single(1, 3, 1),
            single(1.5, 3.2, .5), single(3, 1, 1), single(3, 1, -.5), single(1e38, 1.7e38, 1e38),
            single(1e38, 1.7e38, 1e38, 1), single(-1e38, -1.7e38, -1e38), single(5, 1, 0), single(1, 5, 0),
            single(1.7e38, 1, 1e38), single(0, 0, 0), single(1, 1, 1),
            # D17: zero step
            flat([L(10), ['F', 4, 5, 1, 0], ['P', V(4)], ['N', []], L(20), ['P', 7]]),
            flat([L(10), ['F', 4, 1, 5, 0], ['P', V(4)], ['N', []], L(20), ['P', 7]]),
            struct({'main': [['line', 10], ['for', 4, 5, 1, 0, 1, [['print', V(4)]]], ['line', 20], ['print', 7]],
                    'subs': []}),
            # the end / step of a FOR are read once: N%=6:FOR I%=1 TO N%:PRINT I%:N%=N%-1:NEXT prints 1..6
            flat([L(10), ['=', 7, 6], ['F', 4, 1, V(7), 1], ['P', V(4)], ['=', 7, ['-', V(7), 1]], ['N', []]]),
            flat([L(10), ['=', 0, 4], ['=', 1, 1], ['F', 4, 1, V(0), V(1)], ['P', V(4)], ['=', 0, 1], ['=', 1, 3],
                  ['N', [4]]]),
            struct({'main': [['line', 10], ['let', 0, 3], ['for', 4, 1, V(0), 1, 1, [['print', V(4)], ['gosub', 1000]]]],
                    'subs': [[1000, [['let', 0, ['-', V(0), 2]]]]]}),
            # abandoned loops: a stale record for the same NEXT stays on the stack; NEXT uses the most recent one
            flat([L(10), ['=', 0, 5], ['GS', 500], ['=', 0, 3], ['GS', 500], ['END'],
                  L(500), ['F', 4, 1, V(0), 1], ['P', V(4)], ['IF', ['=', V(2), 0], None], ['=', 2, 1], ['R', None],
                  L(510), ['N', []], ['R', None]]),
            flat([L(10), ['W', ['<', V(1), 3]], ['=', 1, ['+', V(1), 1]], ['=', 0, ['-', 5, V(1)]],
                  L(20), ['F', 4, 1, V(0), 1], ['P', V(4)], ['IF', ['=', V(1), 1], 40],
                  L(30), ['N', [4]], L(40), ['D']]),
            # boundary line numbers as jump targets: IF c THEN 0 / ELSE 0 / GOTO 0 / GOSUB 0 / ON..0, and 65529
            flat([L(0), ['=', 2, ['+', V(2), 1]], ['P', V(2)], ['IF', ['>', V(2), 2], 65529], L(10), ['IF', 1, 0],
                  ['P', 11], L(65529), ['P', 99]]),
            flat([L(0), ['=', 2, ['+', V(2), 1]], ['P', V(2)], ['IF', ['>', V(2), 2], 65529], L(10), ['IF', 0, 65529],
                  ['EL', 0], ['P', 12], L(65529), ['P', 99]]),
            flat([L(0), ['P', 1], ['R', None], L(10), ['GS', 0], ['ON', 1, 1, [0]], ['ON', 2, 0, [0, 65529]], ['P', 5],
                  L(65529), ['P', 99]]),
            # D19a: zero-trip inner loop closed by NEXT J, I
            flat([L(10), ['F', 4, 1, 2, 1], ['F', 5, 2, 1, 1], ['P', 9], ['N', [5, 4]], L(20), ['P', 4]]),
            # D19b: counter leaves the 16-bit range downwards / upwards
            flat([L(10), ['F', 4, -32767, -32768, -1], ['P', V(4)], ['N', []], L(20), ['P', 7]]),
            flat([L(10), ['F', 4, 32766, 32767, 1], ['P', V(4)], ['N', [4]], L(20), ['P', 7]]),
            flat([L(10), ['F', 4, -32760, -32768, -5], ['P', V(4)], ['N', [4]]]),
            # boundaries
            flat([L(10), ['F', 4, 1, 3, 1], L(20), ['F', 5, 1, 2, 1], ['P', ['+', V(4), V(5)]], ['N', [5, 4]],
                  L(30), ['P', 99]]),
            flat([L(10), ['F', 4, 1, 2, 1], ['P', 1], L(20), ['W', 1], ['N', []], ['D']]),
            flat([L(10), ['N', []]]), flat([L(10), ['D']]), flat([L(10), ['R', None]]),
            flat([L(10), ['F', 4, 1, 2, 1], ['P', 1]]), flat([L(10), ['W', 0], ['P', 1], L(20), ['P', 2]]),
            flat([L(10), ['F', 4, 1, 2, 1], ['P', 1], L(20), ['N', [5]]]),
            flat([L(10), ['=', 0, 2], ['ON', V(0), 1, [100, 200]], ['P', 1], ['END'], L(100), ['P', 100],
                  ['R', None], L(200), ['P', 200], ['R', None]]),
            flat([L(10), ['ON', 256, 0, [10]]]), flat([L(10), ['ON', -1, 0, [10]]]),
            flat([L(10), ['ON', 0, 0, [15]], ['ON', 2, 0, [15]], ['ON', 1, 0, [15]]]),
            flat([L(10), ['GS', 100], ['P', 1], L(20), ['R', None], L(100), ['R', 30]]),
            flat([L(10), ['IF', 1, None], ['IF', 0, None], ['P', 1], ['EL', None], ['P', 2], ['EL', None], ['P', 3]]),
            flat([L(10), ['IF', 0, None], ['IF', 0, None], ['P', 1], ['EL', None], ['P', 2], ['EL', None], ['P', 3]]),
            flat([L(10), ['IF', 0, 30], ['EL', 20], ['P', 5], L(15), ['P', 15], L(20), ['P', 2], L(30), ['P', 3]]),
            flat([L(10), ['W', ['<', V(0), 3]], ['=', 0, ['+', V(0), 1]], ['P', V(0)], L(20), ['D'], ['P', 9]]),
            flat([L(100), ['P', 1], ['R', None]], [['GS', 100], ['P', 7]]),
            flat([L(100), ['P', 1]], [['F', 4, 1, 3, 1], ['P', V(4)], ['N', []]]),
        ]

    def gen_cases(self, n):
        rng = self.rng
        out = []
        for i in range(n):
            r = i % 20
            if r < 3:
                out.append(G.gen_single(rng))
            elif r < 10:
                out.append(G.gen_struct(rng, allow_long=(r == 3 and i % 100 == 3)))
            elif r < 19:
                out.append(G.gen_flat(rng))
            else:
                out.append(G.gen_trap(rng))
        self.count(out)
        return out


CHECK = C19
