"""Shared implementation-side helpers of the graphics checks C30 / C31: a pool of real Sessions per video
adapter, pixel snapshots of ALL pages, recording of the write requests reaching GraphicsViewPort.__setitem__ and
of the top-level calls of the regenerated request generators, Coq literals."""
import logging

from vlib import core
from harness import common

QUICK_VIDEOS = ['cga', 'ega']
THOROUGH_VIDEOS = ['cga', 'ega', 'vga', 'tandy', 'pcjr', 'hercules', 'olivetti', 'ega_mono']
SCREENS = {
    'cga': [1, 2], 'ega': [1, 2, 7, 8, 9], 'vga': [1, 2, 7, 8, 9], 'tandy': [1, 2, 3, 4, 5, 6],
    'pcjr': [1, 2, 3, 4, 5, 6], 'hercules': [3], 'olivetti': [1, 2, 3], 'ega_mono': [10],
}

_POOL = {}


def session(video):
    logging.disable(logging.CRITICAL)
    s = _POOL.get(video)
    if s is None:
        s = common.new_session(video=video)
        s.start()
        _POOL[video] = s
    return s


def drop_session(video):
    s = _POOL.pop(video, None)
    if s is not None:
        try:
            s.close()
        except Exception:
            pass


def reset(s, screen):
    """CLEAR, leave and re-enter the mode (clears every page, unsets VIEW and WINDOW)."""
    err = 0
    for st in ['CLEAR', 'SCREEN 0,,0,0', 'WIDTH 80'] + (['SCREEN %d' % screen] if screen else []):
        s._impl.interpreter.error_num = 0
        out = s.execute(st)
        if s._impl.interpreter.error_num:
            err = '%s: error %d %r' % (st, s._impl.interpreter.error_num, out)
            break
    s._impl.interpreter.error_num = 0
    return err


def snapshot(s):
    """Pixel buffers of all pages of the display (not only of what Graphics thinks the pages are)."""
    return [bytes(p._pixels.to_bytes()) for p in s._impl.display.pages]


def diff_cells(before, after, width):
    """[(y, x, new)] of one page, row-major."""
    cells = []
    if before == after:
        return cells
    n = len(before)
    for off in range(0, n, width):
        rb, ra = before[off:off + width], after[off:off + width]
        if rb != ra:
            y = off // width
            for x in range(width):
                if rb[x] != ra[x]:
                    cells.append((y, x, ra[x]))
    return cells


def diff_summary(cells):
    """Same function as model/Raster.v diff_summary."""
    if not cells:
        return [0]
    ys = [c[0] for c in cells]
    xs = [c[1] for c in cells]
    c1 = sum(y * 1009 + x * 31 + v + 1 for (y, x, v) in cells)
    c2 = sum((y + 1) * (x + 7 * v + 3) for (y, x, v) in cells)
    return [len(cells), min(ys), max(ys), min(xs), max(xs), c1, c2]


class Recorder(object):
    """Records (a) every request reaching graph_view.__setitem__ and (b) the top-level calls of _draw_line,
    _draw_box, _draw_box_filled (arguments = inputs of the regenerated generators) while active."""

    def __init__(self, s):
        self.s = s
        self.g = s._impl.display.graphics
        self.reqs = []
        self.calls = []
        self.depth = 0
        self.err = 0
        self.after = None
        self.installed = False

    def install(self):
        g = self.g
        rec = self
        self.view = g.graph_view
        if self.view is not None:
            base = type(self.view)
            self.base = base

            class RecordingViewPort(base):
                def __setitem__(vself, index, data):
                    rec.reqs.append((index, data if isinstance(data, int) else [list(r) for r in data.to_rows()]))
                    return base.__setitem__(vself, index, data)
            self.view.__class__ = RecordingViewPort
        self.orig = {}
        for name in ('_draw_line', '_draw_box', '_draw_box_filled', '_draw_circle', '_draw_ellipse', '_flood_fill',
                     '_draw'):
            orig = getattr(g, name)
            self.orig[name] = orig

            def wrapper(*a, _orig=orig, _name=name, **kw):
                if rec.depth == 0:
                    rec.calls.append((_name, a, kw))
                rec.depth += 1
                try:
                    return _orig(*a, **kw)
                finally:
                    rec.depth -= 1
            setattr(g, name, wrapper)
        impl = self.s._impl
        self.orig_handle = impl._handle_error

        def handle(e):
            if rec.after is None:
                rec.after = snapshot(rec.s)
                rec.err = e.err
            return rec.orig_handle(e)
        impl._handle_error = handle
        self.installed = True

    def remove(self):
        if not self.installed:
            return
        g = self.g
        for name in self.orig:
            try:
                delattr(g, name)
            except AttributeError:
                pass
        if self.view is not None:
            self.view.__class__ = self.base
        try:
            del self.s._impl._handle_error
        except AttributeError:
            pass
        self.installed = False


def enc_reqs_flat(reqs):
    """Flat int encoding understood by lib/GfxPrims.v decode_reqs."""
    out = []
    for (index, data) in reqs:
        yi, xi = index
        ys, xs = isinstance(yi, slice), isinstance(xi, slice)
        for sl in (yi, xi):
            if isinstance(sl, slice) and (sl.start is None or sl.stop is None or sl.step is not None):
                raise ValueError('open slice in a pixel write: %r' % (index,))
        if not ys and not xs:
            if not isinstance(data, int):
                raise ValueError('matrix written to a single pixel')
            out += [0, int(yi), int(xi), data]
        elif ys and xs:
            if isinstance(data, int):
                out += [1, yi.start, yi.stop, xi.start, xi.stop, data]
            else:
                h = len(data)
                w = len(data[0]) if data else 0
                out += [2, yi.start, yi.stop, xi.start, xi.stop, h, w]
                for r in data:
                    if len(r) != w:
                        raise ValueError('ragged block')
                    out += list(r)
        elif xs:
            if isinstance(data, int):
                out += [3, int(yi), xi.start, xi.stop, data]
            else:
                if len(data) != 1:
                    raise ValueError('interval block with %d rows' % len(data))
                out += [4, int(yi), xi.start, xi.stop, len(data[0])] + list(data[0])
        else:
            raise ValueError('(slice, int) pixel write')
    return out


def z(n):
    n = int(n)
    return '(%d)' % n if n < 0 else '%d' % n


def coq_vp(view):
    """view: (absolute, x0, y0, x1, y1, maxw, maxh)"""
    ab, x0, y0, x1, y1, mw, mh = view
    return '(VP %s %s %s %s %s %s %s)' % ('true' if ab else 'false', z(x0), z(y0), z(x1), z(y1), z(mw), z(mh))


def zl_chunked(l, n=800):
    """A long `list Z` literal as a concatenation of short ones (coqc's parser overflows its stack on long lists)."""
    if len(l) <= n:
        return core.zl(l)
    return '(' + ' ++ '.join(core.zl(l[i:i + n]) for i in range(0, len(l), n)) + ')'


def coq_matrix(rows):
    return '[' + ';'.join(core.zl(list(r)) for r in rows) + ']'


def view_of(g):
    v = g.graph_view
    r = v._rect
    return (bool(v._absolute), int(r[0]), int(r[1]), int(r[2]), int(r[3]), int(v._max_width), int(v._max_height))


def num(v):
    """BASIC source text of a number."""
    if isinstance(v, int):
        return str(v)
    t = repr(float(v))
    if 'e' in t or 'E' in t:
        t = '%.6f' % v
    return t
