"""C16 - A protected program never discloses its text in direct mode.

Three kinds of cases, all against real Sessions with a temp disk mount:
  'd'  a history of direct-mode statements (plain, after `X9=1:`, or with ON ERROR GOTO active so that the
       refusal is trapped by the program's own handler) typed after LOADing the protected file P / its
       unprotected copy Q / another file U;  per statement: result, leak class, flag
  'r'  a program whose lines ARE the statements (run mode), protected and not: per statement executed / ERR /
       flag, and the largest leak
  'i'  an interactive transcript (Session.interact with scripted keys: EDIT prompt, AUTO, syntax-error prompt)
Leak class of an observation (console stream, every file written, LPT1 output): 1 if it contains a 4-byte window
of the listed or tokenised text of the SECRET lines of the program (lines made of random tokens; windows that
also occur in error messages or in the typed statement are not counted), 2 if a file decrypts (C15 cipher) to
such bytes, else 0.
"""
import importlib
import io
import os
import random
import re

from vlib import core
from harness import common

# role -> line number of the direct-mode program
LINE_OF = {1: 5, 10: 10, 11: 20, 12: 30, 13: 40, 2: 100, 3: 110, 4: 120, 14: 9000, 50: 15, 99: 999}
SECRET_ROLES = (1, 2, 3, 4)
FILES = {'P': 'FProt', 'Q': 'FPlain', 'U': 'FPlain', 'N': None}

MUST_FAIL = {'list', 'llist', 'save', 'peekcode', 'peekother', 'peekflag', 'bsavecode', 'bsaveother', 'pokeflag',
             'pokecode', 'pokeother', 'bloadmissing', 'bloadflag', 'bloadcode', 'bloadother', 'storenew',
             'storedel', 'chainmerge', 'read', 'renum'}
HANDLER_OK = ['list', 'llist', 'save', 'peekcode', 'peekother', 'bsavecode', 'bsaveother', 'pokeflag',
              'pokeother', 'bloadmissing', 'bloadflag', 'bloadother', 'chainmerge', 'merge', 'read']
COLON_OK = HANDLER_OK + ['peekflag', 'pokecode', 'bloadcode', 'renum', 'delete', 'new', 'load', 'edit']
RUN_OPS = ['list', 'llist', 'save', 'peekcode', 'peekother', 'peekflag', 'bsavecode', 'bsaveother', 'pokeflag',
           'pokeother', 'pokecode', 'bloadmissing', 'bloadflag', 'bloadother', 'bloadcode', 'read']
FLAG_SENSITIVE = {'list', 'llist', 'peekflag'}     # plus save A/B (checked on the argument)


# FIELD width patterns: (model kind, widths).  The FIELD buffer is 128 bytes; the buffer of file #3 (the highest
# file number of a default session) ends exactly at the start of the program code.
FIELD_PATTERNS = [
    ('FFit', [64, 64]), ('FFit', [128]), ('FFit', [1, 100, 27]),
    ('FOverSmall', [128, 10]), ('FOverSmall', [128, 4, 6]),
    ('FOverAll', [128, 120, 120]), ('FOverAll', [128, 255, 255]), ('FOverAll', [128, 200]),
    ('FOverAll', [64, 64, 250]),
]
FIELD_VARS = ['A9$', 'B9$', 'C9$']


def field_texts(arg, i, token):
    """(setup statement, FIELD statement, read statements, evaluate expression or None, cleanup)"""
    fileno, pat, read = arg
    widths = FIELD_PATTERNS[pat][1]
    names = FIELD_VARS[:len(widths)]
    fld = 'FIELD #%d,%s' % (fileno, ','.join('%d AS %s' % (w, n) for w, n in zip(widths, names)))
    cat = '+'.join(names[1:]) if len(names) > 1 else names[0]
    ev = None
    if read == 0:
        rd = ['PRINT %s' % ';'.join(names)]
    elif read == 1:
        rd = ['FOR I9=1 TO LEN(%s):PRINT CHR$(ASC(MID$(%s,I9,1)));:NEXT' % (n, n) for n in names[1:] or names]
    elif read == 2:
        rd = ['PRINT MID$(%s,1);LEFT$(%s,200);RIGHT$(%s,200)' % (cat, names[-1], names[-1])]
    elif read == 3:
        rd = ['IF INSTR(%s,"%s")>0 THEN PRINT "%s"' % (cat, token, token)]     # a guessing oracle counts
    elif read == 4:
        rd = ['D9$=%s:PRINT D9$' % cat, 'OPEN "R",#1,"G%d",128:FIELD #1,128 AS L9$:LSET L9$=%s:PRINT L9$:CLOSE #1'
              % (i, names[-1])] if fileno != 1 else ['D9$=%s:PRINT D9$' % cat]
    else:
        rd = []
        ev = cat
    return ('CLOSE #%d:OPEN "R",#%d,"F%d",128' % (fileno, fileno, i), fld, rd, ev, 'CLOSE #%d' % fileno)


def tok(rng, n=9):
    return rng.choice('abcdefghijkmnpqrstuvwxyz') + ''.join(rng.choice('abcdefghijkmnpqrstuvwxyz23456789') for _ in range(n - 1))


def windows(b, n=4):
    return set(b[i:i + n] for i in range(len(b) - n + 1))


def marked_windows(b, needles, n=4):
    """the n-byte windows of b that overlap an occurrence of one of the needles (the random payload of a secret
    line: windows made only of keywords such as `REM ` are not specific to the program)"""
    pos = set()
    for nd in needles:
        i = b.find(nd)
        while i >= 0:
            pos.update(range(i, i + len(nd)))
            i = b.find(nd, i + 1)
    return set(b[i:i + n] for i in range(len(b) - n + 1) if any(j in pos for j in range(i, i + n)))


class Secret(object):
    """The generated program of a case, its files and its secret windows."""

    def __init__(self, kind, seed, stx, run_ops=None):
        rng = random.Random('%s-%s' % (kind, seed))
        self.lines = []          # (number, text, role)
        t = [tok(rng) for _ in range(8)]
        target = 7000 + rng.randrange(100, 999)
        number = rng.randrange(10000, 32767)
        self.needles = []
        for x in t:
            self.needles += [x.encode(), x.upper().encode()]
        self.value = t[7]      # the literal that line 10 assigns to V9$
        self.token = t[3]      # in the REM text of line 120 (raw in the tokenised code)
        self.needles += [b'%d' % target, b'%d' % number, bytes([target % 256, target // 256]),
                         bytes([number % 256, number // 256])]
        secret = [
            (100, 'DATA %s,"%s"' % (t[0], t[1]), 2),
            (110, 'IF Q9=%d THEN %d' % (number, target), 3),
            (120, 'S9$="%s":REM %s %s' % (t[2], t[3], t[4]), 4),
        ]
        if kind == 'r':
            n = len(run_ops)
            self.lines.append((10, 'ON ERROR GOTO 9000:DIM E%%(%d),F%%(%d),X%%(%d):DEF SEG' % (n + 1, n + 1, n + 1), 10))
            for i, text in enumerate(run_ops):
                self.lines.append((1000 + 10 * i, 'K%%=%d:X%%(%d)=1:%s' % (i + 1, i + 1, text), 11))
                self.lines.append((1005 + 10 * i, 'DEF SEG:F%%(%d)=PEEK(1450)' % (i + 1), 11))
            self.lines.append((8000, 'END', 10))
            # the secret lines come first (lines 1-3; executing them does nothing visible) so that a fixed
            # 120-byte range from the start of the code covers them and never reaches variable memory
            self.lines += [(i_ + 1, x, r) for i_, (n_, x, r) in enumerate(secret)]
            self.lines.append((9000, 'E%(K%)=ERR:RESUME NEXT', 14))
        else:
            if stx:
                self.lines.append((5, '%s %s' % (t[5], t[6]), 1))
            # (the spacing around the literal differs from the secret line 120 `S9$="..":REM ..`: with the same
            # context a 4-byte window `$="x` collided whenever both tokens began with the same letter)
            # line 10 assigns a string variable from a literal (its VALUE may be seen: variable contents are
            # out of scope; any other program byte seen through it is a disclosure) and ends the run
            self.lines += [(10, 'V9$= "%s" :END' % t[7], 10), (20, 'REM -pokehere', 11), (30, 'REM -scaffold30', 12),
                           (40, 'REM -scaffold40', 13)]
            self.lines += secret
            self.lines.append((9000, 'E%=ERR:RESUME NEXT:COMMON V9$', 14))
        self.lines.sort()
        self.text = ''.join('%d %s\r' % (n, x) for n, x, _ in self.lines)

    def build(self, d):
        """write P, Q, U, MA, ME and the BLOAD images into directory d; compute the secret windows"""
        with common.new_session(devices={'C': d}, current_device='C:') as s:
            s.execute(self.text)
            prog = s._impl.program
            code = bytes(prog.bytecode.getvalue())
            self.cs = s._impl.memory.code_start
            self.ds = s._impl.memory.data_segment
            self.size = len(code)
            w = set()
            nums = sorted(k for k in prog.line_numbers if k != 65536)
            for n, x, role in self.lines:
                if role in SECRET_ROLES:
                    w |= marked_windows(x.encode('latin1'), self.needles)
                    w |= marked_windows(x.upper().encode('latin1'), self.needles)
                    pos = prog.line_numbers[n]
                    nxt = min(p for p in prog.line_numbers.values() if p > pos)
                    w |= marked_windows(code[pos + 5:nxt], self.needles)
            s.execute('SAVE "P",P')
            s.execute('SAVE "Q"')
            s.execute('NEW')
            s.execute('15 END\r')
            s.execute('SAVE "U"')
            s.execute('15 PRINT V9$:END\r')
            s.execute('SAVE "W"')
        self.win = w
        with open(os.path.join(d, 'MA.BAS'), 'wb') as f:
            f.write(b'8 REM -merged\r\n\x1a')
        with open(os.path.join(d, 'ME.BAS'), 'wb') as f:
            f.write(b'\x1a')

        def image(seg, off, data):
            return (b'\xfd' + bytes([seg % 256, seg // 256, off % 256, off // 256, len(data) % 256, len(data) // 256])
                    + data + b'\x1a')
        for name, img in (('BF0', image(self.ds, 1450, b'\0')), ('BF1', image(self.ds, 1450, b'\xfe')),
                          ('BC', image(self.ds, self.cs, b'\0')), ('BO', image(0, 1047, b'\0'))):
            with open(os.path.join(d, name + '.BAS'), 'wb') as f:
                f.write(img)


def benign_windows():
    error = importlib.import_module('pcbasic.basic.base.error')
    w = set()
    for n in range(1, 256):
        try:
            w |= windows(error.BASICError(n).get_message(None))
            w |= windows(error.BASICError(n).get_message(9000))
        except Exception:
            pass
    for x in (b'Ok\xff\r\n', b'Undefined line ', b' in 110\r\n', b'Break in ', b' 254 \r\n', b' 0 \r\n'):
        w |= windows(x)
    return w


def op_text(name, arg, i, sec, run=False):
    """BASIC text of a statement"""
    cs, size = sec.cs, (120 if run else sec.size + 8)
    if name == 'list':
        return ['LIST', 'LIST 1-', 'LIST ,"L%d"' % i, 'LIST -65529'][arg]
    if name == 'llist':
        return 'LLIST'
    if name == 'edit':
        return 'EDIT %d' % LINE_OF[arg]
    if name == 'editprompt':
        return 'RUN'
    if name == 'save':
        return 'SAVE "S%d"%s' % (i, {'A': ',A', 'B': '', 'P': ',P'}[arg])
    if name == 'peekcode':
        return 'DEF SEG:FOR I9=%d TO %d:PRINT CHR$(PEEK(I9));:NEXT' % (cs, cs + size)
    if name == 'peekother':
        return 'DEF SEG=0:Y9=PEEK(1040):DEF SEG'
    if name == 'peekflag':
        return 'DEF SEG:Y9=PEEK(1450)' if run else 'DEF SEG:PRINT PEEK(1450)'
    if name == 'bsavecode':
        return 'DEF SEG:BSAVE "B%d",%d,%d' % (i, cs, size)
    if name == 'bsaveother':
        return 'DEF SEG=0:BSAVE "B%d",1024,32:DEF SEG' % i
    if name == 'pokeflag':
        return 'DEF SEG:POKE 1450,%d' % arg
    if name == 'pokecode':
        return 'DEF SEG:POKE %d,0' % cs
    if name == 'pokeother':
        return 'DEF SEG=0:POKE 1047,0:DEF SEG'
    if name == 'bloadmissing':
        return 'BLOAD "NOFILE"'
    if name == 'bloadflag':
        return 'BLOAD "BF%d"' % (1 if arg else 0)
    if name == 'bloadcode':
        return 'BLOAD "BC"'
    if name == 'bloadother':
        return 'BLOAD "BO"'
    if name == 'storenew':
        return '7 REM -user'
    if name == 'storedel':
        return '%d' % LINE_OF[arg]
    if name == 'merge':
        return 'MERGE "%s"' % ('MA' if arg else 'ME')
    if name == 'chainmerge':
        return 'CHAIN MERGE "%s"' % ('MA' if arg else 'ME')
    if name == 'load':
        return 'LOAD "%s"' % arg
    if name == 'runfile':
        return 'RUN "%s"' % arg
    if name == 'chain':
        return 'CHAIN "%s"' % arg
    if name == 'chainall':
        # CHAIN (no MERGE: allowed on a protected program) with ALL / COMMON and a DELETE range, to a program
        # that prints the preserved string variable
        mode, rg = arg
        return 'CHAIN "W",,%sDELETE %s' % ('ALL,' if mode == 0 else '', ['10-40', '10-10', '20-40', '10-30'][rg])
    if name == 'new':
        return 'NEW'
    if name == 'delete':
        if arg == 'all':
            return 'DELETE -65529'
        if not arg:
            return 'DELETE 7000-7100'
        return 'DELETE %d-%d' % (LINE_OF[min(arg)], LINE_OF[max(arg)])
    if name == 'renum':
        return 'RENUM 9000,9000'
    if name == 'read':
        return 'RESTORE:READ R9$:PRINT R9$'
    if name == 'enterrun':
        return 'RUN'
    raise ValueError(name)


ALL_CODES = [1, 2, 3, 4, 10, 11, 12, 13, 14, 50, 60]


def op_coq(name, arg, stx):
    code = 'secret_code' if stx else 'secret_code_nostx'

    def f(x):
        return {'P': '(FProt %s)' % code, 'Q': '(FPlain %s)' % code, 'U': '(FPlain other_code)', 'N': 'FMissing'}[x]
    b = lambda x: 'true' if x else 'false'
    if name == 'list':
        return 'OList'
    if name == 'llist':
        return 'OLlist'
    if name == 'edit':
        return '(OEdit %d)' % arg
    if name == 'editprompt':
        return 'OEditPrompt'
    if name == 'save':
        return '(OSave S%s)' % arg
    simple = {'peekcode': 'OPeekCode', 'peekother': 'OPeekOther', 'peekflag': 'OPeekFlag', 'bsavecode': 'OBsaveCode',
              'bsaveother': 'OBsaveOther', 'pokecode': 'OPokeCode', 'pokeother': 'OPokeOther',
              'bloadmissing': 'OBloadMissing', 'bloadcode': 'OBloadCode', 'bloadother': 'OBloadOther',
              'storenew': 'OStoreNew', 'new': 'ONew', 'renum': 'ORenum', 'read': 'ORead', 'enterrun': 'OEnterRun'}
    if name in simple:
        return simple[name]
    if name == 'pokeflag':
        return '(OPokeFlag %d)' % arg
    if name == 'bloadflag':
        return '(OBloadFlag %d)' % (254 if arg else 0)
    if name == 'storedel':
        return '(OStoreDel %d)' % arg
    if name == 'merge':
        return '(OMerge %s)' % b(arg)
    if name == 'chainmerge':
        return '(OChainMerge %s)' % b(arg)
    if name == 'load':
        return '(OLoad %s)' % f(arg)
    if name == 'runfile':
        return '(ORunFile %s)' % f(arg)
    if name == 'chain':
        return '(OChain %s)' % f(arg)
    if name == 'chainall':
        return '(OChain (FPlain other_code))'
    if name == 'delete':
        return '(ODelete %s)' % core.zl(ALL_CODES if arg == 'all' else list(arg))
    if name == 'autoline':
        return '(OAutoLine %s)' % b(arg)
    if name == 'field':
        fileno, pat, _ = arg
        return '(OField %s %s)' % (b(fileno == 3), FIELD_PATTERNS[pat][0])
    raise ValueError(name)


class C16(core.Check):
    ID = 'C16'
    GEN = ['gen_guard']
    PROPS = 'props/C16.v'
    MODEL_IMPORTS = ['gen.Gen_guard', 'model.Guard']
    QUICK_CASES = 300
    THOROUGH_CASES = 3000
    TRUSTED = ['guard extractor translate/targets/gen_guard.py (AST patterns, fail-closed) and the hand model '
               'model/Guard.v of the callbacks around the guards, tied by correspondence on direct-mode histories, '
               'program runs and interactive transcripts against real Sessions',
               'scope: program-reading paths only; values of variables / user functions the program itself defined '
               'are variable contents (out of scope); line numbers (TRON, error messages, AUTO star, EDIT echo) are '
               'not counted as program text']
    PARTIAL = None
    RULE = ('direct histories (1-10 statements out of 40 kinds x plain/after-colon/inside-ON-ERROR-handler) after '
            'LOAD of the protected file, its plain copy or another file, with hide_protected on and off; program '
            'runs of the same statements; interactive transcripts; non-trivial = at least one statement reached '
            'a guard decision with a program in memory; distinct by hash of (case, output)')
    histogram = None

    # ---------------------------------------------------------------- cases
    def corpus(self):
        L = ['load', 'P', 0]
        return [
            {'k': 'd', 'hide': 1, 'stx': 0, 'seed': 1, 'ev': [L, ['list', 0, 0], ['llist', 0, 0], ['edit', 4, 0],
                                                               ['save', 'A', 0], ['save', 'B', 0], ['save', 'P', 0]]},
            {'k': 'd', 'hide': 1, 'stx': 0, 'seed': 2, 'ev': [L, ['peekcode', 0, 0], ['bsavecode', 0, 0],
                                                               ['pokeflag', 0, 0], ['bloadflag', 0, 0],
                                                               ['storenew', 0, 0], ['merge', 1, 0], ['merge', 0, 0],
                                                               ['chainmerge', 1, 0]]},
            {'k': 'd', 'hide': 1, 'stx': 1, 'seed': 3, 'ev': [L, ['editprompt', 0, 0], ['edit', 1, 0]]},
            {'k': 'd', 'hide': 1, 'stx': 0, 'seed': 4, 'ev': [L, ['list', 2, 2], ['peekcode', 0, 2], ['save', 'A', 2],
                                                               ['list', 0, 1], ['peekcode', 0, 1]]},
            {'k': 'd', 'hide': 1, 'stx': 0, 'seed': 5, 'ev': [L, ['delete', [12], 0], ['delete', 'all', 0],
                                                               ['list', 0, 0], ['new', 0, 0], ['list', 0, 0],
                                                               ['load', 'U', 0], ['list', 0, 0], L, ['list', 0, 0]]},
            {'k': 'd', 'hide': 0, 'stx': 0, 'seed': 6, 'ev': [L, ['list', 0, 0], ['peekcode', 0, 0], ['save', 'A', 0],
                                                               ['pokeflag', 1, 0], ['list', 0, 0]]},
            {'k': 'd', 'hide': 1, 'stx': 0, 'seed': 7, 'ev': [['load', 'Q', 0], ['list', 0, 0], ['pokeflag', 1, 0],
                                                               ['list', 0, 0], ['peekflag', 0, 0], ['new', 0, 0],
                                                               ['peekflag', 0, 0]]},
            # FIELD on every file number, fitting and overflowing, every kind of read (seeded change C16b)
            {'k': 'd', 'hide': 1, 'stx': 0, 'seed': 15, 'ev': [L] + [['field', [3, 5, r], 0] for r in range(6)]},
            {'k': 'd', 'hide': 1, 'stx': 1, 'seed': 16, 'ev': [L, ['field', [3, 3, 0], 0], ['field', [3, 4, 1], 0],
                                                                ['field', [3, 6, 5], 0], ['field', [3, 8, 2], 0]]},
            {'k': 'd', 'hide': 1, 'stx': 0, 'seed': 17, 'ev': [L, ['field', [1, 5, 0], 0], ['field', [2, 7, 1], 0],
                                                                ['field', [3, 0, 0], 0], ['field', [3, 2, 4], 0]]},
            {'k': 'd', 'hide': 1, 'stx': 0, 'seed': 18, 'ev': [['load', 'Q', 0], ['field', [3, 5, 0], 0],
                                                                ['load', 'U', 0], ['field', [3, 5, 0], 0]]},
            # CHAIN ,,ALL / COMMON with DELETE on a protected program whose variable points at a literal (seed C16f)
            {'k': 'd', 'hide': 1, 'stx': 0, 'seed': 23, 'ev': [L, ['chainall', [0, 0], 0]]},
            {'k': 'd', 'hide': 1, 'stx': 0, 'seed': 24, 'ev': [L, ['chainall', [1, 1], 0]]},
            {'k': 'd', 'hide': 1, 'stx': 0, 'seed': 25, 'ev': [L, ['chainall', [0, 2], 1], L, ['chainall', [0, 3], 0]]},
            # false alarm of the thorough tier (window `$="x` shared by line 10 and the secret line 120)
            {"k": "d", "hide": 0, "stx": 0, "seed": 129432130, "ev": [["load", "Q", 0], ["llist", 0, 1],
                                                                    ["storedel", 13, 0], ["pokeother", 0, 0],
                                                                    ["chain", "N", 0], ["edit", 10, 0]]},
            # witnesses of the fixed defects D16a (READ) and D16b (RENUM)
            {'k': 'd', 'hide': 1, 'stx': 0, 'seed': 8, 'ev': [L, ['read', 0, 0]]},
            {'k': 'd', 'hide': 1, 'stx': 0, 'seed': 9, 'ev': [L, ['renum', 0, 0]]},
            {'k': 'r', 'hide': 1, 'prot': 1, 'seed': 10, 'ops': [['peekcode', 0], ['pokeother', 0], ['bsavecode', 0],
                                                                 ['read', 0], ['list', 0]]},
            {'k': 'r', 'hide': 1, 'prot': 1, 'seed': 11, 'ops': [['peekflag', 0], ['pokeflag', 0], ['peekflag', 0],
                                                                 ['list', 0], ['save', 'A']]},
            {'k': 'r', 'hide': 1, 'prot': 0, 'seed': 12, 'ops': [['save', 'P'], ['save', 'B'], ['list', 0],
                                                                 ['peekcode', 0]]},
            {'k': 'i', 'hide': 1, 'prot': 1, 'stx': 1, 'seed': 13, 'ev': [['edit', 4, 0], ['editprompt', 0, 0],
                                                                           ['autoline', 0, 0], ['storenew', 0, 0],
                                                                           ['list', 0, 0]]},
            # AUTO prompt / typed line smuggling a PEEK line, then RUN (typed and via F2); LIST via F1 (seed C16c)
            {'k': 'i', 'hide': 1, 'prot': 1, 'stx': 0, 'seed': 19, 'fk': 0, 'ev': [['autoline', 0, 0], ['run', 0, 0]]},
            {'k': 'i', 'hide': 1, 'prot': 1, 'stx': 0, 'seed': 20, 'fk': 1, 'ev': [['storenew', 0, 0], ['run', 0, 0],
                                                                                      ['autoline', 1, 0], ['edit', 3, 0]]},
            {'k': 'i', 'hide': 1, 'prot': 0, 'stx': 0, 'seed': 21, 'fk': 2, 'ev': [['autoline', 0, 0], ['run', 0, 0]]},
            {'k': 'i', 'hide': 0, 'prot': 1, 'stx': 0, 'seed': 22, 'fk': 2, 'ev': [['storenew', 0, 0], ['run', 0, 0]]},
            {'k': 'i', 'hide': 1, 'prot': 0, 'stx': 0, 'seed': 14, 'ev': [['edit', 4, 0], ['autoline', 0, 0],
                                                                           ['list', 0, 0]]},
        ]

    def _rand_event(self, rng, st):
        """st: generator-side bookkeeping (only to keep side conditions true, never the flag)"""
        while True:
            name = rng.choice(['list', 'list', 'llist', 'edit', 'save', 'save', 'peekcode', 'peekcode', 'peekother',
                               'peekflag', 'bsavecode', 'bsaveother', 'pokeflag', 'pokecode', 'pokeother',
                               'bloadmissing', 'bloadflag', 'bloadcode', 'bloadother', 'storenew', 'storedel',
                               'merge', 'chainmerge', 'load', 'runfile', 'chain', 'new', 'delete', 'renum', 'read',
                               'enterrun', 'editprompt', 'field', 'field', 'field', 'chainall', 'chainall'])
            arg = 0
            if name == 'list':
                arg = rng.randrange(4)
            elif name == 'edit':
                arg = rng.choice([1, 2, 3, 4, 10, 11, 12, 13, 14, 50, 99])
                if arg == 1 and not st['stx']:
                    arg = 4
            elif name == 'save':
                arg = rng.choice('ABP')
            elif name == 'pokeflag':
                arg = rng.choice([0, 0, 1, 254, 255])
            elif name == 'bloadflag':
                arg = rng.choice([0, 1])
            elif name == 'storedel':
                arg = rng.choice([12, 13, 99])
            elif name in ('merge', 'chainmerge'):
                arg = rng.choice([0, 1, 1])
            elif name in ('load', 'runfile', 'chain'):
                arg = rng.choice(['P', 'P', 'Q', 'U', 'N'])
            elif name == 'delete':
                arg = rng.choice([[12], [13], [12, 13], [], 'all'])
            elif name == 'chainall':
                if st['stx'] or not st['pristine']:
                    continue
                arg = [rng.choice([0, 0, 1]), rng.randrange(4)]
            elif name == 'field':
                arg = [rng.choice([3, 3, 3, 2, 1]), rng.randrange(len(FIELD_PATTERNS)), rng.randrange(6)]
            running = name in ('enterrun', 'chainmerge') or (name in ('runfile', 'chain') and arg in 'PQ')
            if st['stx'] and running:
                continue
            if name == 'editprompt' and not st['stx']:
                continue
            changes = name in ('chainall', 'storenew', 'storedel', 'merge', 'chainmerge', 'load', 'runfile', 'chain', 'new',
                               'delete', 'renum', 'pokecode', 'bloadcode', 'editprompt', 'enterrun')
            ctx = 0
            r = rng.random()
            if r < 0.2 and name in COLON_OK:
                ctx = 1
            elif r < 0.45 and name in HANDLER_OK and st['pristine']:
                ctx = 2
            if changes:
                st['pristine'] = False
            return [name, arg, ctx]

    def gen_cases(self, n):
        rng = self.rng
        hist = {}
        out = []
        for i in range(n):
            r = rng.random()
            seed = rng.randrange(1 << 30)
            hide = 1 if rng.random() < 0.75 else 0
            if r < 0.72:
                stx = 1 if rng.random() < 0.2 else 0
                st = {'stx': stx, 'pristine': True}
                first = rng.choice(['P', 'P', 'P', 'Q', 'U'])
                if stx and first == 'U':
                    first = 'P'
                st['pristine'] = first in 'PQ'
                ev = [['load', first, 0]] + [self._rand_event(rng, st) for _ in range(rng.randrange(1, 10))]
                case = {'k': 'd', 'hide': hide, 'stx': stx, 'seed': seed, 'ev': ev}
                for e in ev:
                    hist['d:' + e[0]] = hist.get('d:' + e[0], 0) + 1
                    if e[2]:
                        hist['ctx%d' % e[2]] = hist.get('ctx%d' % e[2], 0) + 1
            elif r < 0.92:
                ops = []
                for _ in range(rng.randrange(1, 7)):
                    name = rng.choice(RUN_OPS)
                    arg = 0
                    if name == 'save':
                        arg = rng.choice('ABP')
                    elif name == 'pokeflag':
                        arg = rng.choice([0, 1, 254])
                    elif name == 'bloadflag':
                        arg = rng.choice([0, 1])
                    ops.append([name, arg])
                    hist['r:' + name] = hist.get('r:' + name, 0) + 1
                case = {'k': 'r', 'hide': hide, 'prot': 1 if rng.random() < 0.7 else 0, 'seed': seed, 'ops': ops}
            else:
                stx = 1 if rng.random() < 0.3 else 0
                ev = []
                for _ in range(rng.randrange(1, 7)):
                    name = rng.choice(['edit', 'autoline', 'storenew', 'list', 'editprompt', 'autoline', 'run', 'run'])
                    if name == 'run' and stx:
                        name = 'autoline'
                    if name == 'editprompt' and (not stx or any(e[0] == 'editprompt' for e in ev)):
                        name = 'list'
                    arg = 0
                    if name == 'edit':
                        arg = rng.choice([2, 3, 4, 12, 99])
                    elif name == 'autoline':
                        arg = rng.choice([0, 0, 1])
                    ev.append([name, arg, 0])
                    hist['i:' + name] = hist.get('i:' + name, 0) + 1
                case = {'k': 'i', 'hide': hide, 'prot': 1 if rng.random() < 0.7 else 0, 'stx': stx, 'seed': seed,
                        'fk': 0 if stx else rng.choice([0, 0, 1, 2]), 'ev': ev}
            out.append(case)
        self.histogram = hist
        return out

    def shrink_candidates(self, case):
        key = 'ops' if case['k'] == 'r' else 'ev'
        v = case[key]
        keep = 1 if case['k'] == 'd' else 0
        for i in range(keep, len(v)):
            if case['k'] == 'i' and v[i][0] == 'run':
                continue        # keep the RUN that shows what a smuggled line discloses
            d = dict(case)
            d[key] = v[:i] + v[i + 1:]
            if len(d[key]) > keep - 1 and d[key]:
                yield d

    # ---------------------------------------------------------------- implementation
    _benign = None
    _probe = None

    def benign(self):
        if C16._benign is None:
            C16._benign = benign_windows()
        return C16._benign

    def leak(self, sec, blobs, typed):
        """leak class of a list of byte strings"""
        bad = sec.win - self.benign() - typed
        for b in blobs:
            if windows(b) & bad:
                return 1
        protect = importlib.import_module('pcbasic.basic.converter.protect')
        for b in blobs:
            if b[:1] == b'\xfe':
                o = io.BytesIO()
                protect.unprotect(io.BytesIO(b[1:]), o)
                if windows(o.getvalue()) & bad:
                    return 2
        return 0

    @staticmethod
    def snapshot(d):
        res = {}
        for f in os.listdir(d):
            p = os.path.join(d, f)
            if os.path.isfile(p):
                with open(p, 'rb') as h:
                    res[f] = h.read()
        return res

    def session(self, d, hide, **kw):
        lpt = os.path.join(d, 'LPT.OUT')
        s = common.new_session(devices={'C': d, 'LPT1:': 'FILE:' + lpt}, current_device='C:',
                               hide_protected=bool(hide), peek_values={}, allow_code_poke=True, **kw)
        s.start()
        rec = []
        impl = s._impl
        orig = impl._handle_error

        def hook(e):
            rec.append(e.err)
            orig(e)
        impl._handle_error = hook
        return s, rec

    def show_prompt(self, s):
        out = io.BytesIO()
        with s._impl.io_streams.activate():
            s.add_pipes(output_streams=out)
            with s._impl._handle_exceptions():
                s._impl._show_prompt()
            s.remove_pipes(output_streams=out)
        return out.getvalue()

    def impl(self, case):
        cache = self.__dict__.setdefault('_outs', {})
        key = core.sha(case)
        if key not in cache:
            with core.time_limit(120):
                cache[key] = getattr(self, 'impl_' + case['k'])(case)
            if len(cache) > 20000:
                cache.clear()
        return cache[key]

    def impl_d(self, case):
        d = common.tmpdir('c16')
        try:
            sec = Secret('d', case['seed'], case['stx'])
            sec.build(d)
            s, rec = self.session(d, case['hide'])
            res = []
            try:
                for i, (name, arg, ctx) in enumerate(case['ev']):
                    text = op_text(name, arg, i, sec) if name != 'field' else 'REM'
                    if ctx == 1:
                        text = 'X9=1:' + text
                    typed = windows(text.encode('latin1'))
                    before = self.snapshot(d)
                    del rec[:]
                    if ctx == 2:
                        s.execute(b'E%=0:ON ERROR GOTO 9000')
                        del rec[:]
                    if name == 'chainall':
                        s.execute(b'RUN')        # the program assigns V9$ from its literal
                        del rec[:]
                    if name == 'field':
                        setup, fld, reads, ev, cleanup = field_texts(arg, i, sec.token)
                        typed = windows(fld.encode('latin1'))
                        s.execute(setup.encode('latin1'))
                        del rec[:]
                        out = s.execute(fld.encode('latin1'))
                        err50 = rec[:1]
                        for r_ in reads:
                            out += s.execute(r_.encode('latin1'))
                        if ev:
                            try:
                                v = s.evaluate(ev)
                                out += v if isinstance(v, bytes) else str(v).encode('latin1', 'replace')
                            except Exception:
                                pass
                        s.execute(cleanup.encode('latin1'))
                        del rec[:]
                        rec.extend(err50)
                    else:
                        out = s.execute(text.encode('latin1'))
                    if name in ('edit', 'editprompt'):
                        if name == 'editprompt':
                            del rec[:]
                        out += self.show_prompt(s)
                    err = rec[0] if rec else 0
                    if ctx == 2:
                        if not rec:
                            err = int(s.get_variable('E%'))
                        s.execute(b'ON ERROR GOTO 0')
                    s._impl.files.lpt1_file.do_print()
                    after = self.snapshot(d)
                    blobs = [out] + [v[len(before[f]):] if f == 'LPT.OUT' and f in before else v
                                     for f, v in after.items() if before.get(f) != v]
                    lk = self.leak(sec, blobs, typed)
                    if name == 'chainall' and not err and out.strip() != sec.value.encode():
                        lk = 1      # the preserved variable shows program bytes other than its own value
                    val = 0
                    if name == 'peekflag' and not err:
                        mo = re.search(br'(\d+)', out)
                        val = int(mo.group(1)) if mo else -1
                    res += ([1, err] if err else [0, val]) + [lk, 1 if s._impl.program.protected else 0]
            finally:
                s.close()
            return res
        finally:
            common.rmtree(d)

    def run_prog(self, case, prot):
        """-> (encoding, console output)"""
        d = common.tmpdir('c16')
        try:
            ops = case['ops']
            if C16._probe is None:
                # the statement texts need the address of the code area (a constant of the memory layout)
                probe = Secret('r', 0, 0, ['REM'])
                probe_d = common.tmpdir('c16p')
                try:
                    probe.build(probe_d)
                finally:
                    common.rmtree(probe_d)
                C16._probe = probe
            texts = [op_text(n, a, i, C16._probe, run=True) for i, (n, a) in enumerate(ops)]
            sec = Secret('r', case['seed'], 0, texts)
            sec.build(d)
            s, rec = self.session(d, case['hide'])
            try:
                before = self.snapshot(d)
                s.execute(b'LOAD "P"' if prot else b'LOAD "Q"')
                out = s.execute(b'RUN')
                s._impl.files.lpt1_file.do_print()
                n = len(ops)
                try:
                    E = s.get_variable('E%()')
                    F = s.get_variable('F%()')
                    X = s.get_variable('X%()')
                except Exception:
                    E = F = X = []
                E, F, X = [list(v) + [0] * (n + 2) for v in (E, F, X)]
                after = self.snapshot(d)
                blobs = [out] + [v for f, v in after.items() if before.get(f) != v]
                typed = set()
                for t in texts:
                    typed |= windows(t.encode('latin1'))
                lk = self.leak(sec, blobs, typed)
                res = [lk]
                for i in range(1, n + 1):
                    res += [1 if X[i] else 0, int(E[i]), 1 if F[i] else 0]
                return res, out, rec[:]
            finally:
                s.close()
        finally:
            common.rmtree(d)

    def impl_r(self, case):
        return self.run_prog(case, case['prot'])[0]

    @staticmethod
    def inject_text(sec):
        """the line a user tries to smuggle into the program: run mode may PEEK, so it dumps the code area"""
        return b'DEF SEG:FOR I9=%d TO %d:PRINT CHR$(PEEK(I9));:NEXT' % (sec.cs, sec.cs + 300)

    def inter_script(self, case, sec):
        keys = b''
        inj = self.inject_text(sec)
        for name, arg, _ in case['ev']:
            if name == 'edit':
                keys += b'EDIT %d\r\r' % LINE_OF[arg]
            elif name == 'editprompt':
                keys += b'RUN\r\r'
            elif name == 'autoline':
                keys += b'AUTO 3\r' + (b'\r' if arg else inj + b'\r') + b'\x03'
            elif name == 'storenew':
                keys += b'3 ' + inj + b'\r'
            elif name == 'list':
                keys += b'LIST\r'
            elif name == 'run':
                keys += b'RUN\r'
        return keys + b'SYSTEM\r'

    def impl_i(self, case):
        error = importlib.import_module('pcbasic.basic.base.error')
        d = common.tmpdir('c16')
        try:
            sec = Secret('d', case['seed'], case['stx'])
            sec.build(d)
            keys = self.inter_script(case, sec)
            out = io.BytesIO()
            s, rec = self.session(d, case['hide'], input_streams=io.BytesIO(keys), output_streams=out)
            try:
                # setup with execute, then function keys (served before the stream), then the typed script
                s.execute(b'LOAD "P"' if case['prot'] else b'LOAD "Q"')
                del rec[:]
                fk = case.get('fk', 0)
                if fk == 1:
                    s.press_keys(u'\0\x3b\r')       # F1 = LIST + Enter
                elif fk == 2:
                    s.press_keys(u'\0\x3c')          # F2 = RUN<CR>
                try:
                    s.interact()
                except error.Exit:
                    pass
                flag = 1 if s._impl.program.protected else 0
            finally:
                s.close()
            text = out.getvalue()
            lk = self.leak(sec, [text], windows(keys))
            return [rec.count(5), lk, flag]
        finally:
            common.rmtree(d)

    # ---------------------------------------------------------------- model
    def model_term(self, case):
        allow = 'true' if case['hide'] else 'false'
        if case['k'] == 'd':
            evs = '; '.join('Direct %s' % op_coq(n, a, case['stx']) for n, a, _ in case['ev'])
            return '(enc_events (init %s) [%s])' % (allow, evs)
        if case['k'] == 'r':
            f = '(FProt secret_code_nostx)' if case['prot'] else '(FPlain secret_code_nostx)'
            ops = '; '.join(op_coq(n, a, 0) for n, a in case['ops'])
            return ('(enc_run (set_run (st (estep (init %s) (Direct (OLoad %s)))) true) [%s])' % (allow, f, ops))
        code = 'secret_code' if case['stx'] else 'secret_code_nostx'
        f = '(FProt %s)' % code if case['prot'] else '(FPlain %s)' % code
        evs = ['Direct (OLoad %s)' % f]
        if case.get('fk', 0) == 1:
            evs.append('Direct OList')
        elif case.get('fk', 0) == 2:
            evs.append('Direct ORunUser')
        for n, a, _ in case['ev']:
            if n == 'run':
                evs.append('Direct ORunUser')
            elif n == 'autoline':
                evs.append('Direct (OAutoLine %s)' % ('true' if a else 'false'))
            else:
                evs.append('Direct %s' % op_coq(n, a, case['stx']))
        return '(enc_inter (init %s) [%s])' % (allow, '; '.join(evs))

    # ---------------------------------------------------------------- oracle: the property read directly
    def findings(self, case, out):
        """list of (event index, name, what) where the observed behaviour contradicts the property"""
        bad = []
        if not case['hide']:
            return bad
        if case['k'] == 'd':
            present = False      # the program in memory was loaded from the protected file
            for i, (name, arg, ctx) in enumerate(case['ev']):
                code, val, lk, flag = out[4 * i:4 * i + 4]
                was = present
                if name in ('load', 'runfile', 'chain', 'chainall') and code == 0:
                    present = (arg == 'P')
                elif name == 'new' and code == 0:
                    present = False
                elif name == 'delete' and arg == 'all' and code == 0:
                    present = False      # no line of it is left
                if not was:
                    continue
                if lk == 1:
                    bad.append((i, name, 'plain text of the protected program disclosed'))
                if present and not flag:
                    bad.append((i, name, 'protection flag cleared while the protected program is in memory'))
                refused = (code == 1 and val == 5)
                must = (name in MUST_FAIL and not (name == 'save' and arg == 'P')) or \
                       (name == 'merge' and arg) or (name == 'edit' and arg in (2, 3, 4)) or name == 'editprompt'
                if must and not refused:
                    bad.append((i, name, 'statement was not refused with Illegal function call'))
                if name == 'save' and arg == 'P' and (code != 0 or lk == 1):
                    bad.append((i, name, 'SAVE ,P did not succeed in protected form'))
        elif case['k'] == 'i':
            if case['prot'] and out[1] == 1:
                bad.append((0, 'transcript', 'plain text of the protected program disclosed'))
            if case['prot'] and not out[2]:
                bad.append((0, 'transcript', 'protection flag cleared'))
            # LIST (typed or F1), EDIT of an existing line, the syntax-error prompt, a typed line and a line
            # entered at the AUTO prompt must each be refused
            expected = (1 if case.get('fk', 0) == 1 else 0) + sum(
                1 for n, a, _ in case['ev']
                if n in ('list', 'storenew', 'editprompt') or (n == 'autoline' and not a) or (n == 'edit' and a != 99))
            if case['prot'] and out[0] < expected:
                bad.append((0, 'transcript', '%d of the %d listing / editing / line-entry attempts were not refused '
                            'with Illegal function call' % (expected - out[0], expected)))
        elif case['k'] == 'r':
            sensitive = any(n in FLAG_SENSITIVE or (n == 'save' and a != 'P') for n, a in case['ops'])
            clears = any(n in ('pokeflag', 'bloadflag') for n, a in case['ops'])
            if not sensitive and not clears:
                a, oa, ra = self.run_prog(case, 1)
                b, ob, rb = self.run_prog(case, 0)
                strip = lambda e: [e[0]] + [x for j, x in enumerate(e[1:]) if j % 3 != 2]
                if strip(a) != strip(b) or oa != ob or ra != rb:
                    bad.append((0, 'run', 'the protected program does not run like its unprotected original: %r vs %r'
                                % (strip(a), strip(b))))
        return bad

    def oracle(self, case, out):
        bad = self.findings(case, out)
        if bad:
            return '; '.join('%s (statement %d: %s)' % (w, i, n) for i, n, w in bad[:3])
        return None

    def nontrivial(self, case, out):
        return len(out) > 3 and any(out)


CHECK = C16
