"""C40 - A suspended session resumes exactly where it stopped.  (PARTIAL: pickle fidelity is tested, not proved)"""
import io
import os
import pickle
import sys
import zlib

from vlib import core
from harness import common

QUOTE = 34


# --------------------------------------------------------------------------------------------------
# generator of terminating BASIC programs with loops, GOSUBs, error traps, open files, strings, arrays

def _expr(rng, depth=0):
    atoms = ['A', 'B', 'I', 'J%', 'X!', 'Y#', 'A(1)', 'A(I)', 'W', '1', '2', '3', '7', '10', '255', '1.5', '.25', '100000',
             '32767', '&HFF', 'LEN(A$)', 'ASC("A")', 'ABS(B)', 'INT(2.5)', 'FNA(2)', 'ERR', 'CSRLIN', 'POS(0)',
             'VAL("12")', 'RND', 'FRE(0)*0', '1E10', '3#', '7%']
    r = rng.random()
    if depth > 1 or r < 0.5:
        return rng.choice(atoms)
    if r < 0.6:
        return '(' + _expr(rng, depth + 1) + ')'
    return _expr(rng, depth + 1) + rng.choice(['+', '-', '*', ' AND ', ' OR ', '=', '<', '>', ' MOD ', '\\']) + \
        _expr(rng, depth + 1)


def _sexpr(rng):
    return rng.choice(['"HELLO"', '""', '"a:b"', '"1,2"', 'A$', 'B$', 'A$+"x"', 'STR$(I)', 'CHR$(65+I)', 'LEFT$(A$,2)',
                       'SPACE$(3)', 'STRING$(3,"*")', 'HEX$(255)', 'MID$(A$+"abc",2,2)', 'B$+A$', 'S$(1)'])


def _simple(rng):
    r = rng.random()
    if r < 0.22:
        return 'PRINT ' + rng.choice([_expr(rng), _sexpr(rng), _expr(rng) + ';' + _sexpr(rng), _sexpr(rng) + ',' + _expr(rng),
                                      'USING "##.##";' + _expr(rng), 'TAB(5);' + _expr(rng), 'ERL;ERR', 'A$;B$;', ''])
    if r < 0.42:
        return rng.choice(['A', 'B', 'W', 'J%', 'X!', 'Y#', 'A(1)', 'A(2)', 'A(I)']) + '=' + _expr(rng)
    if r < 0.55:
        return rng.choice(['A$', 'B$', 'S$(1)', 'S$(2)']) + '=' + _sexpr(rng)
    if r < 0.60:
        return 'MID$(A$,1)=' + _sexpr(rng)
    if r < 0.64:
        return 'SWAP A,B'
    if r < 0.68:
        return 'READ ' + rng.choice(['A', 'B', 'W'])
    if r < 0.70:
        return 'RESTORE'
    if r < 0.74:
        return 'LOCATE %d,%d' % (rng.randrange(1, 24), rng.randrange(1, 80))
    if r < 0.77:
        return 'COLOR %d,%d' % (rng.randrange(0, 16), rng.randrange(0, 8))
    if r < 0.79:
        return 'CLS'
    if r < 0.82:
        return 'RANDOMIZE %d' % rng.randrange(0, 100)
    if r < 0.85:
        return "REM it's: a remark"
    if r < 0.88:
        return 'POKE %d,%d' % (rng.randrange(0, 200), rng.randrange(0, 256))
    if r < 0.91:
        return 'ERROR %d' % rng.choice([5, 6, 11, 13, 2])
    if r < 0.94:
        return 'A=1/0' if rng.random() < 0.5 else 'A=A(99)'
    if r < 0.97:
        return 'B$=B$+A$'
    return 'KEY OFF'


def gen_program(rng, files=True):
    """-> list of (linenum, text).  Terminating by construction: bounded FOR/WHILE, forward GOTOs, subroutines
    after END, error handler with RESUME NEXT."""
    lines = []
    n = [10]

    def add(text):
        lines.append((n[0], text))
        n[0] += 10

    trap = rng.random() < 0.7
    add('DEFINT J:DIM A(5),S$(3):DEF FNA(X)=X*2+1')
    if trap:
        add('ON ERROR GOTO 9000')
    add('DATA 1,2,3,4,5,6,7,8,9,10,11,12')
    if rng.random() < 0.3:
        add('A$="str":B$=A$+"ing"')
    fileopen = None
    nblocks = rng.randrange(2, 7)
    subs = []
    for _ in range(nblocks):
        r = rng.random()
        if r < 0.25:
            add(':'.join(_simple(rng) for _ in range(rng.randrange(1, 4))))
        elif r < 0.40:
            v = rng.choice(['I', 'J%'])
            hi = rng.randrange(1, 4)
            if rng.random() < 0.5:
                add('FOR %s=1 TO %d:%s:NEXT' % (v, hi, _simple(rng)))
            else:
                add('FOR %s=%d TO 1 STEP -1' % (v, hi))
                add(_simple(rng))
                if rng.random() < 0.3:
                    add('FOR K=1 TO 2:PRINT K;:NEXT K')
                add('NEXT ' + v)
        elif r < 0.50:
            add('W=0')
            add('WHILE W<%d:W=W+1:%s:WEND' % (rng.randrange(1, 4), _simple(rng)))
        elif r < 0.62:
            sub = 5000 + 100 * len(subs)
            subs.append(sub)
            add('GOSUB %d:%s' % (sub, _simple(rng)))
        elif r < 0.72:
            tgt = n[0] + 20
            add('IF %s THEN %d ELSE %s' % (_expr(rng), tgt, _simple(rng)))
            add(_simple(rng))
            add(_simple(rng))
        elif r < 0.80:
            add('IF %s THEN %s:%s ELSE %s' % (_expr(rng), _simple(rng), _simple(rng), _simple(rng)))
        elif r < 0.86:
            add('GOTO %d' % (n[0] + 20))
            add('PRINT "skipped"')
            add(_simple(rng))
        elif r < 0.92 and files:
            if fileopen is None:
                fileopen = 'F%d' % rng.randrange(1, 3)
                add('OPEN "%s" FOR %s AS #1' % (fileopen, rng.choice(['OUTPUT', 'OUTPUT', 'APPEND'])))
                add('PRINT#1,%s:WRITE#1,%s,%s' % (_expr(rng), _expr(rng), _sexpr(rng)))
            else:
                add('PRINT#1,%s;%s' % (_sexpr(rng), _expr(rng)))
                if rng.random() < 0.6:
                    add('CLOSE #1:OPEN "%s" FOR INPUT AS #2:LINE INPUT#2,B$:PRINT B$' % fileopen)
                    add('IF NOT EOF(2) THEN INPUT#2,A:PRINT A')
                    add('CLOSE #2:OPEN "%s" FOR APPEND AS #1' % fileopen)
        else:
            sub = 5000 + 100 * len(subs)
            subs.append(sub)
            add('ON %s GOSUB %d,%d' % (rng.choice(['1', '2', 'A', '3']), sub, sub))
    if fileopen and rng.random() < 0.7:
        add('CLOSE')
    add('PRINT "done";A;B;W:END')
    for sub in subs:
        n[0] = sub
        add(_simple(rng))
        if rng.random() < 0.3:
            add('IF A>B THEN RETURN')
        add(_simple(rng) + ':RETURN')
    if trap:
        n[0] = 9000
        add('E9=E9+1:PRINT "E";ERR;ERL')
        add('IF E9>12 THEN END')
        add(rng.choice(['RESUME NEXT', 'RESUME NEXT', 'PRINT "h":RESUME NEXT']))
    return lines


def _text_write(rng, num):
    """PRINT#/WRITE# whose items end at blanks, commas, quotes, CR LF or a bare CR"""
    return rng.choice([
        'PRINT#%d,12;34;56' % num, 'PRINT#%d,N%%;-7;1.5' % num, 'PRINT#%d,"ab cd",9' % num,
        'WRITE#%d,"q w",8,"z"' % num, 'PRINT#%d,"x";CHR$(13);"y"' % num, 'PRINT#%d,CHR$(34);"q";CHR$(34);"t";3' % num,
        'PRINT#%d,1;:PRINT#%d,2' % (num, num), 'PRINT#%d,"one two  three"' % num, 'PRINT#%d,5,6' % num,
    ])


def _text_read(rng, num, guard):
    v = rng.choice(['X1', 'X2', 'X3'])
    st = rng.choice(['INPUT#%d,%s:PRINT "i:";%s' % (num, v, v), 'INPUT#%d,%s:PRINT "i:";%s' % (num, v, v),
                     'INPUT#%d,L$:PRINT "s:";L$' % num, 'LINE INPUT#%d,L$:PRINT "l:";L$' % num,
                     'L$=INPUT$(%d,#%d):PRINT "c:";L$' % (rng.randrange(1, 4), num),
                     'INPUT#%d,X1,L$:PRINT X1;L$' % num])
    if guard:
        # the whole clause stays on one line, as the last statement group of that line
        return 'IF NOT EOF(%d) THEN %s' % (num, st)
    return st


def gen_file_program(rng):
    """Programs that are file histories: every kind of open file (OUTPUT, APPEND, INPUT, RANDOM) in every state a
    suspension can find it in - just opened and still empty (new file, existing zero-length file, existing file with
    contents), after some writes/reads, at EOF - followed by a read-back of every file through BASIC, so that stray
    bytes (EOF markers) show up in the output as well as in the file comparison."""
    lines = []
    n = [10]

    def add(text):
        lines.append((n[0], text))
        n[0] += 10

    add('ON ERROR GOTO 9000')
    names = ['FA', 'FB']
    exists = {}          # name -> 'empty' | 'data'
    opened = {}          # number -> (name, mode)
    # some files exist beforehand: zero-length (OUTPUT + CLOSE leaves only the EOF byte, which APPEND cuts off) or with data
    for nm in names:
        r = rng.random()
        if r < 0.3:
            add('OPEN "%s" FOR OUTPUT AS #1:CLOSE #1' % nm)
            exists[nm] = 'empty'
        elif r < 0.55:
            add('OPEN "%s" FOR OUTPUT AS #1:PRINT#1,"old %s":%s:%s:CLOSE #1' % (
                nm, nm, _text_write(rng, 1), _text_write(rng, 1)))
            exists[nm] = 'data'
    for _ in range(rng.randrange(4, 10)):
        free = [k for k in (1, 2, 3) if k not in opened]
        closed = [nm for nm in names if nm not in [v[0] for v in opened.values()]]
        r = rng.random()
        if r < 0.40 and free and closed:
            num, nm = rng.choice(free), rng.choice(closed)
            modes = ['APPEND', 'APPEND', 'OUTPUT', 'RANDOM']
            if nm in exists:
                modes += ['INPUT', 'INPUT']
            mode = rng.choice(modes)
            if mode == 'RANDOM':
                add('OPEN "%s" AS #%d LEN=8:FIELD #%d,8 AS R$' % (nm, num, num))
            else:
                add('OPEN "%s" FOR %s AS #%d' % (nm, mode, num))
            opened[num] = (nm, mode)
            if mode != 'INPUT':
                exists.setdefault(nm, 'empty')
            if mode == 'OUTPUT':
                exists[nm] = 'empty'
        elif r < 0.75 and opened:
            num = rng.choice(sorted(opened))
            nm, mode = opened[num]
            if mode in ('APPEND', 'OUTPUT'):
                add(rng.choice(['PRINT#%d,"w%d";N%%' % (num, rng.randrange(100)), 'WRITE#%d,N%%,"q"' % num,
                                'PRINT#%d,"a";:PRINT#%d,"b"' % (num, num), _text_write(rng, num)]))
                exists[nm] = 'data'
            elif mode == 'INPUT':
                # item-wise reads, one per statement: the boundary falls where the text file holds read-ahead
                for _ in range(rng.randrange(1, 4)):
                    add(_text_read(rng, num, True))
            elif rng.random() < 0.5:
                rec = rng.randrange(1, 4)
                add(rng.choice(['LSET R$="rec%d":PUT #%d,%d' % (rec, num, rec), 'GET #%d,%d:PRINT "g:";R$' % (num, rec),
                                'LSET R$="nxt":PUT #%d' % num]))
                exists[nm] = 'data'
            else:
                # text I/O on the record buffer of the random file
                rec = rng.randrange(1, 3)
                add('%s:PUT #%d,%d' % (_text_write(rng, num), num, rec))
                add('GET #%d,%d' % (num, rec))
                for _ in range(rng.randrange(1, 4)):
                    add(_text_read(rng, num, False))
                exists[nm] = 'data'
        elif r < 0.88 and opened:
            num = rng.choice(sorted(opened))
            add('CLOSE #%d' % num)
            del opened[num]
        else:
            add('N%=N%+1')
    add('CLOSE')
    for nm in names:
        add('OPEN "%s" FOR INPUT AS #3' % nm)
        add('WHILE NOT EOF(3):LINE INPUT#3,L$:PRINT "%s:";L$:WEND:CLOSE #3' % nm)
    add('PRINT "end";N%:END')
    n[0] = 9000
    add('E9=E9+1:PRINT "E";ERR;ERL:IF E9>20 THEN END')
    add('RESUME NEXT')
    return lines


EPILOGUE = ('PRINT A;B;W;I;J%;X!;Y#;E9;K:PRINT A$;"|";B$;"|";S$(1);"|";S$(2):'
            'PRINT A(0);A(1);A(2);A(3);A(4);A(5):PRINT ERR;ERL;FRE(0);CSRLIN;POS(0);RND')

# the reference program of the 'mid' cases has a different size (SYSTEM replaced by a shorter no-op token)
EPILOGUE_NOFRE = EPILOGUE.replace('FRE(0);', '')

MAX_BOUNDARIES = 400
MAX_POINTS = 90        # thorough: every boundary of programs with up to 90 boundaries, evenly spaced beyond
QUICK_POINTS = 30


def split_statements(text):
    """split a line at the colons that separate statements (not inside string literals or after REM / ')"""
    parts, cur, quoted = [], '', False
    i = 0
    while i < len(text):
        c = text[i]
        if not quoted and (c == "'" or text[i:i + 3].upper() == 'REM'):
            cur += text[i:]
            break
        if c == '"':
            quoted = not quoted
        if c == ':' and not quoted:
            parts.append(cur)
            cur = ''
        else:
            cur += c
        i += 1
    parts.append(cur)
    return parts


def prog_text(prog):
    return ''.join('%d %s\r' % (n, b) for n, b in prog)


class Runner(object):
    """Drives real Sessions: run a program to boundary k (or to the j-th mid-statement event check), suspend to a
    file, resume in a fresh Session object, continue; observe output, variables, screen and files."""

    def __init__(self, prog, keys=''):
        self.prog = prog
        self.keys = keys

    def new(self, d):
        s = common.new_session(devices={'C': d}, current_device='C:')
        s.execute(prog_text(self.prog))
        return s

    @staticmethod
    def capture(s, fn):
        """run fn with an extra output pipe; -> (output, exception or None)"""
        from pcbasic.basic.base import error
        out = io.StringIO()
        exc = None
        with s._impl.io_streams.activate():
            s.add_pipes(output_streams=out)
            try:
                fn()
            except error.Exit as e:
                exc = e
            finally:
                s.remove_pipes(output_streams=out)
        return out.getvalue(), exc

    @staticmethod
    def observe(s, d, epilogue=EPILOGUE):
        """everything the property talks about, after completion"""
        screen = [b''.join(row).rstrip() for row in s.get_chars()]
        out, _ = Runner.capture(s, lambda: s._impl.execute(epilogue.encode('ascii')))
        s.close()
        files = {}
        for nm in sorted(os.listdir(d)):
            with open(os.path.join(d, nm), 'rb') as f:
                files[nm] = f.read()
        return {'vars': out, 'screen': screen, 'files': files}

    def install_hook(self, s, k, mid=None):
        """raise Exit through the real path (a QUIT signal seen by check_events): at the k-th statement boundary
        (call of check_events from Interpreter.parse), or at the mid-th call from anywhere else (inside a
        statement).  Records every boundary."""
        from pcbasic.basic.base import signals
        impl = s._impl
        interp = impl.interpreter
        orig = impl.queues.check_events
        rec = {'n': 0, 'm': 0, 'points': [], 'hit': None}

        def check_events(*a, **kw):
            boundary = sys._getframe(1).f_code.co_name == 'parse'
            if boundary:
                rec['n'] += 1
                if rec['n'] > MAX_BOUNDARIES:
                    rec['hit'] = 'cap'
                    impl.queues.inputs.put(signals.Event(signals.QUIT))
                elif k is not None and rec['n'] == k:
                    rec['hit'] = 'boundary'
                    impl.queues.inputs.put(signals.Event(signals.QUIT))
            else:
                rec['m'] += 1
                if mid is not None and rec['m'] == mid:
                    rec['hit'] = 'mid'
                    impl.queues.inputs.put(signals.Event(signals.QUIT))
            return orig(*a, **kw)
        impl.queues.check_events = check_events
        return rec

    @staticmethod
    def remove_hook(s):
        try:
            del s._impl.queues.check_events
        except AttributeError:
            pass

    def uninterrupted(self, epilogue=EPILOGUE):
        d = common.tmpdir('c40u')
        try:
            s = self.new(d)
            if self.keys:
                s.press_keys(self.keys)
            rec = self.install_hook(s, None)
            out, exc = self.capture(s, lambda: s._impl.execute(b'RUN'))
            self.remove_hook(s)
            res = {'out': out, 'boundaries': rec['n'], 'capped': rec['hit'] == 'cap', 'exit': exc is not None}
            res.update(self.observe(s, d, epilogue))
            return res
        finally:
            common.rmtree(d)

    def interrupted(self, k, mid=None, keys_after=''):
        """-> dict with the suspension point, the resumed pointer and the observations after completion"""
        d = common.tmpdir('c40i')
        try:
            s = self.new(d)
            if self.keys:
                s.press_keys(self.keys)
            rec = self.install_hook(s, k, mid)
            out1, exc = self.capture(s, lambda: s._impl.execute(b'RUN'))
            self.remove_hook(s)
            if exc is None or rec['hit'] == 'cap':
                s.close()
                return None
            interp = s._impl.interpreter
            stream = interp.get_codestream()
            point = {
                'hit': rec['hit'], 'run_mode': bool(interp.run_mode),
                'redo': bool(interp.parser.redo_on_break), 'cur': interp.current_statement,
                'ptr': stream.tell(), 'code': list(bytes(stream.getvalue())),
                'flag': getattr(interp, 'in_statement', None),
            }
            fn = os.path.join(d, 'STATE.SAV')
            s.suspend(fn)
            # as pcbasic.main does: suspend inside the `with session`, then close
            s.close()
            from pcbasic.basic import Session
            s2 = Session.resume(fn)
            os.remove(fn)
            point['ptr_after'] = s2._impl.interpreter.get_codestream().tell()
            if keys_after:
                s2.press_keys(keys_after)
            impl2 = s2._impl

            def cont():
                with impl2._handle_exceptions():
                    impl2.interpreter.loop()
            out2, exc2 = self.capture(s2, cont)
            res = {'out': out1 + out2, 'point': point, 'exit_again': exc2 is not None}
            res.update(self.observe(s2, d))
            return res
        finally:
            common.rmtree(d)


def diff_obs(u, r):
    for key in ('out', 'vars', 'screen', 'files'):
        if u[key] != r[key]:
            return key
    return None


# --------------------------------------------------------------------------------------------------

class C40(core.Check):
    ID = 'C40'
    GEN = ['gen_state']
    PROPS = 'props/C40.v'
    MODEL_IMPORTS = ['gen.Gen_state', 'model.Crc32', 'model.StateFile', 'model.Resume', 'model.ReopenFile', 'model.TextStream']
    QUICK_CASES = 700
    THOROUGH_CASES = 6000
    PARTIAL = ('resume clause: proved only in the code-pointer model (Interpreter.__setstate__ repositioning over '
               'arbitrary statement semantics); fidelity of pickle/zlib over the live Python object graph '
               '(memoryviews, re-opened files, queues, callbacks) has no model and is covered ONLY by the '
               'suspend/resume correspondence runs at every statement boundary of generated programs, which is '
               'testing. Integrity clause (any altered byte rejected) is proved in full.')
    TRUSTED = ['CRC-32 model model/Crc32.v tied to zlib.crc32 by correspondence; file framing model/StateFile.v: '
               'checks regenerated from state.py (gen_state), read/unpack/pack glue hand-modelled, shape-checked '
               'by the generator and tied by correspondence on real files; model/Resume.v (skip_to, __setstate__) '
               'hand-modelled, token constants regenerated, tied by correspondence of resumed code pointers; '
               'model/ReopenFile.v (unpickle_file on an existing named file) hand-modelled, tied by correspondence '
               'with the real function on real files',
               'pickle.loads / zlib.decompress / pickle.dumps / zlib.compress: unmodelled (Section variables)']
    RULE = ('crc: random byte strings vs zlib.crc32, one changed byte must change the CRC; file: real save_session '
            'files of small objects, every byte position altered (+ truncations, re-checksummed variants) through '
            'the real load_session vs model; real: state files of real Sessions, listed alterations vs model and '
            'all (thorough) / sampled (quick) byte positions must be rejected; resume: generated programs '
            'suspended through a QUIT signal at every statement boundary, resumed from the file in a fresh Session '
            'object, output+variables+screen+files compared with the uninterrupted run (testing), resumed code '
            'pointer compared with the model; files: generated file histories (OUTPUT/APPEND/INPUT/RANDOM on new, '
            'zero-length and filled files, suspended in every state incl. just opened and still empty, read back '
            'through BASIC); reopen: state.pickle_file/unpickle_file on real files (contents of any length incl. '
            'empty, any position incl. -1/0/beyond the end, bytes appended at shutdown) vs model/ReopenFile.v, oracle: '
            'writes/reads after re-opening continue where they stopped; field: text I/O on the record buffer of a RANDOM '
            'file, Session pickled with read-ahead held, FieldFile state vs model/TextStream.v and continuation vs an '
            'unpickled twin session; mid/redo: suspension inside SYSTEM / INPUT. '
            'non-trivial = at least '
            'one alteration or suspension point exercised')
    histogram = None

    # ---- cases
    def corpus(self):
        goto = [[10, 'GOTO 30'], [20, 'PRINT "WRONG"'], [30, 'PRINT "OK"']]
        return [
            {'k': 'crc', 'b': [], 'i': 0, 'v': 0},
            {'k': 'crc', 'b': [0], 'i': 0, 'v': 1},
            {'k': 'crc', 'b': list(b'123456789'), 'i': 8, 'v': 0},
            {'k': 'crc', 'b': [255] * 40, 'i': 39, 'v': 254},
            # D13 witness: byte 4 (format_version) of a saved file altered
            {'k': 'file', 'obj': [1, 2, 3], 'mods': [[4, 3], [5, 1], [7, 128]], 'all': True, 'seed': 1},
            {'k': 'real', 'prog': [[10, 'A=1']], 'mods': [[4, 3], [0, None], [8, None], [23, None], [24, None]],
             'seed': 2},
            # D40a witnesses: boundary after a jump / loop back-edge / THEN clause
            {'k': 'resume', 'p': goto},
            {'k': 'resume', 'p': [[10, 'FOR I=1 TO 3:PRINT I:NEXT'], [20, 'WHILE W<2:W=W+1:WEND:PRINT W']]},
            {'k': 'resume', 'p': [[10, 'IF 1 THEN PRINT "T":PRINT "U" ELSE PRINT "E"'], [20, 'GOSUB 40:PRINT "B"'],
                                  [30, 'END'], [40, 'PRINT "S":RETURN']]},
            {'k': 'resume', 'p': [[10, 'ON ERROR GOTO 50'], [20, 'ERROR 5:PRINT "N"'], [30, 'A=1/0:PRINT "M"'],
                                  [40, 'END'], [50, 'PRINT ERR;ERL:RESUME NEXT']]},
            {'k': 'resume', 'p': [[10, 'OPEN "F1" FOR OUTPUT AS #1:PRINT#1,"one"'], [20, 'PRINT#1,"two":CLOSE'],
                                  [30, 'OPEN "F1" FOR INPUT AS #1:LINE INPUT#1,A$:PRINT A$'],
                                  [40, 'LINE INPUT#1,B$:PRINT B$:CLOSE']]},
            # D40b witness and its boundary (seeded change C40c): APPEND file still empty when suspended
            {'k': 'resume', 'p': [[100, 'CLOSE #2:OPEN "F2" FOR APPEND AS #1']]},
            {'k': 'resume', 'p': [[10, 'OPEN "LOG.TXT" FOR APPEND AS 1'], [20, 'N%=N%+1'], [30, 'PRINT#1,"first"'],
                                  [40, 'PRINT#1,"second"'], [50, 'CLOSE 1'], [60, 'OPEN "LOG.TXT" FOR INPUT AS 1'],
                                  [70, 'LINE INPUT#1,A$:LINE INPUT#1,B$'], [80, 'CLOSE 1'],
                                  [90, 'PRINT "read back: ";A$;",";B$']]},
            {'k': 'resume', 'p': [[10, 'OPEN "E" FOR OUTPUT AS 1:CLOSE'], [20, 'OPEN "E" FOR APPEND AS 1'],
                                  [30, 'OPEN "O" FOR OUTPUT AS 2'], [40, 'OPEN "R" AS 3 LEN=4:FIELD 3,4 AS R$'],
                                  [50, 'PRINT#1,"a":PRINT#2,"o":LSET R$="rrrr":PUT 3,2'], [60, 'CLOSE'],
                                  [70, 'OPEN "E" FOR INPUT AS 1:LINE INPUT#1,A$:PRINT A$;EOF(1):CLOSE']]},
            # seeded change C40e: read-ahead of the record-buffer text file held over the suspension
            {'k': 'resume', 'p': [[10, 'OPEN "R",1,"T.DAT",32'], [20, 'PRINT #1,12;34;56'], [30, 'PUT #1,1'],
                                  [40, 'GET #1,1'], [50, 'INPUT #1,A'], [60, 'INPUT #1,B'], [70, 'INPUT #1,C'],
                                  [80, 'PRINT A;B;C'], [90, 'CLOSE']]},
            {'k': 'resume', 'p': [[10, 'OPEN "S" FOR OUTPUT AS 1:PRINT#1,12;34;56:PRINT#1,"x";CHR$(13);"y":CLOSE'],
                                  [20, 'OPEN "S" FOR INPUT AS 1'], [30, 'INPUT#1,A'], [40, 'INPUT#1,B:INPUT#1,W'],
                                  [50, 'A$=INPUT$(1,#1)'], [60, 'LINE INPUT#1,B$:PRINT A;B;W;A$;B$;EOF(1)'],
                                  [70, 'CLOSE']]},
            {'k': 'field', 'len': 32, 'w': 'PRINT #1,12;34;56', 'reads': ['INPUT #1,A', 'INPUT #1,B', 'INPUT #1,W'],
             'n': 1},
            {'k': 'field', 'len': 32, 'w': 'PRINT #1,"x";CHR$(13);"y"', 'reads': ['INPUT #1,A$', 'INPUT #1,B$'], 'n': 1},
            {'k': 'field', 'len': 16, 'w': 'WRITE #1,"q w",8', 'reads': ['INPUT #1,A$', 'INPUT #1,A'], 'n': 0},
            {'k': 'reopen', 'mode': 'ab', 'c': [], 'pos': 0, 'junk': [26], 'd': [100, 13, 10]},
            {'k': 'reopen', 'mode': 'wb', 'c': [], 'pos': 0, 'junk': [26], 'd': [100]},
            {'k': 'reopen', 'mode': 'ab', 'c': [97, 13, 10], 'pos': 0, 'junk': [26], 'd': [98]},
            {'k': 'reopen', 'mode': 'rb', 'c': [97, 13, 10, 26], 'pos': 0, 'junk': [], 'd': []},
            {'k': 'reopen', 'mode': 'r+b', 'c': [1, 2, 3, 4], 'pos': 4, 'junk': [], 'd': [9, 9]},
            {'k': 'reopen', 'direct': True, 'mode': 'ab', 'pos': -1, 'c': [97, 26]},
            {'k': 'reopen', 'direct': True, 'mode': 'ab', 'pos': 5, 'c': [97]},
            {'k': 'reopen', 'direct': True, 'mode': 'wb', 'pos': 5, 'c': [97, 98]},
            # test_pickle's program: suspended inside SYSTEM
            {'k': 'mid', 'p': [[10, 'FOR I%=1 TO 4: SYSTEM: NEXT'], [20, 'PRINT "x" :SYSTEM:PRINT I%']]},
            {'k': 'mid', 'p': [[10, 'IF 1 THEN SYSTEM:A=7'], [20, 'A=A+1:SYSTEM'], [30, "SYSTEM' rem"], [40, 'PRINT A']]},
            {'k': 'redo', 'p': [[10, 'INPUT A'], [20, 'PRINT A*2']], 'keys': '21\r'},
            {'k': 'redo', 'p': [[10, 'PRINT 1:LINE INPUT A$:PRINT A$;A$']], 'keys': 'ab\r'},
            {'k': 'redo', 'p': [[10, 'A$=INPUT$(2):PRINT "<";A$;">"']], 'keys': 'xy'},
        ]

    def gen_cases(self, n):
        rng = self.rng
        hist = {'crc': 0, 'file': 0, 'real': 0, 'resume': 0, 'files': 0, 'mid': 0, 'reopen': 0, 'field': 0}
        out = []
        thorough = self.tier == 'thorough'
        n_resume = n // 15 if thorough else max(18, n // 38)
        n_files = n // 40 if thorough else max(8, n // 85)
        n_reopen = max(60, n // 12)
        n_field = max(30, n // 25)
        n_file = max(30, n // 12)
        n_real = 6 if thorough else 2
        n_mid = max(10, n // 60)
        n_crc = max(0, n - n_resume - n_files - n_reopen - n_field - n_file - n_real - n_mid)
        for _ in range(n_crc):
            b = common.rand_bytes(rng, common.rand_len(rng, 300))
            i = rng.randrange(len(b)) if b else 0
            v = (b[i] ^ (1 << rng.randrange(8))) if b and rng.random() < 0.5 else rng.randrange(256)
            out.append({'k': 'crc', 'b': b, 'i': i, 'v': v})
            hist['crc'] += 1
        for _ in range(n_file):
            obj = [rng.randrange(-5, 300) for _ in range(rng.randrange(0, 12))]
            if rng.random() < 0.3:
                obj = bytes(common.rand_bytes(rng, rng.randrange(0, 30))).decode('latin1')
            out.append({'k': 'file', 'obj': obj, 'mods': [], 'all': True, 'seed': rng.randrange(1 << 30)})
            hist['file'] += 1
        for _ in range(n_real):
            out.append({'k': 'real', 'prog': [list(x) for x in gen_program(rng, files=False)][:6],
                        'mods': [[rng.randrange(0, 24), None] for _ in range(4)] +
                                [[-rng.randrange(1, 4000), None] for _ in range(8)],
                        'seed': rng.randrange(1 << 30)})
            hist['real'] += 1
        for _ in range(n_resume):
            out.append({'k': 'resume', 'p': [list(x) for x in gen_program(rng)]})
            hist['resume'] += 1
        for _ in range(n_files):
            out.append({'k': 'resume', 'p': [list(x) for x in gen_file_program(rng)]})
            hist['files'] += 1
        for _ in range(n_reopen):
            mode = rng.choice(['ab', 'ab', 'wb', 'rb', 'r+b'])
            c = common.rand_bytes(rng, rng.choice([0, 0, 1, 2, rng.randrange(0, 40)]))
            if rng.random() < 0.3:
                # call unpickle_file directly with any position (unknown, zero, inside, at the end, beyond)
                out.append({'k': 'reopen', 'direct': True, 'mode': mode, 'c': c,
                            'pos': rng.choice([-1, 0, 0, 1, len(c), len(c) + 1, rng.randrange(0, len(c) + 3)])})
            else:
                writable = mode in ('ab', 'wb')
                out.append({'k': 'reopen', 'mode': mode, 'c': c,
                            'pos': rng.choice([0, len(c), rng.randrange(0, len(c) + 1)]),
                            'junk': rng.choice([[26], [26], [], common.rand_bytes(rng, 3)]) if writable else [],
                            'd': common.rand_bytes(rng, rng.randrange(0, 6)) if mode != 'rb' else []})
            hist['reopen'] += 1
        for _ in range(n_field):
            reads = []
            for _ in range(rng.randrange(1, 5)):
                reads.append(rng.choice(['INPUT #1,A', 'INPUT #1,B', 'INPUT #1,A$', 'LINE INPUT #1,B$',
                                         'A$=INPUT$(%d,#1)' % rng.randrange(1, 4), 'INPUT #1,A,B$']))
            w = _text_write(rng, 1).replace('N%', '4')
            nread = rng.randrange(0, len(reads) + 1)
            if rng.random() < 0.6:
                # items that end at a blank or a bare CR leave a character in the read-ahead
                w = rng.choice(['PRINT#1,12;34;56', 'PRINT#1,-1;2.5;3', 'PRINT#1,"x";CHR$(13);"y";CHR$(13);"z"',
                                'PRINT#1,CHR$(34);"q";CHR$(34);"t";3', 'PRINT#1,"ab cd ef"'])
                reads[0] = 'INPUT #1,A$' if 'x' in w or 'q' in w or 'ab' in w else 'INPUT #1,A'
                nread = rng.randrange(1, len(reads) + 1)
            out.append({'k': 'field', 'len': rng.choice([16, 32, 128]), 'w': w, 'reads': reads, 'n': nread})
            hist['field'] += 1
        for _ in range(n_mid):
            p = [list(x) for x in gen_program(rng, files=False)]
            # put SYSTEM statements into some lines
            for ln in p:
                if ln[0] < 5000 and rng.random() < 0.4 and not ln[1].startswith(('DATA', 'DEFINT', 'ON ERROR', 'IF')):
                    parts = split_statements(ln[1])
                    parts.insert(rng.randrange(len(parts) + 1), 'SYSTEM')
                    ln[1] = ':'.join(parts)
            out.append({'k': 'mid', 'p': p})
            hist['mid'] += 1
        self.histogram = hist
        return out

    # ---- helpers
    def _cache(self, name, case, fn):
        cache = self.__dict__.setdefault('_c_' + name, {})
        key = core.sha(case)
        if key not in cache:
            cache[key] = fn(case)
        return cache[key]

    @staticmethod
    def _try_load(data, d, expect=None):
        """real load_session on these file bytes -> code: 0 loaded, else canon_exc class"""
        import importlib
        state = importlib.import_module('pcbasic.basic.state')
        fn = os.path.join(d, 'T.SAV')
        with open(fn, 'wb') as f:
            f.write(data)
        try:
            obj = state.load_session(fn)
        except Exception as e:
            return common.canon_exc(e)[1]
        if expect is not None and obj != expect:
            return 97
        return 0

    @staticmethod
    def _dcode(blob):
        try:
            pickle.loads(zlib.decompress(blob))
        except Exception as e:
            return common.canon_exc(e)[1]
        return 0

    # ---- 'file' cases: small real save_session files
    def _file_data(self, case):
        import importlib
        import random
        import struct
        state = importlib.import_module('pcbasic.basic.state')
        rng = random.Random(case['seed'])
        d = common.tmpdir('c40f')
        try:
            fn = os.path.join(d, 'S.SAV')
            state.save_session(case['obj'], fn)
            with open(fn, 'rb') as f:
                base = f.read()
            mods = [list(m) for m in case['mods']]
            if case.get('all'):
                for i in range(len(base)):
                    v = rng.randrange(256)
                    if v == base[i]:
                        v ^= 1 << rng.randrange(8)
                    mods.append([i, v])
            # whole-file variants: truncations, empty, appended byte, re-checksummed payload changes,
            # right checksum with each version field changed
            variants = [b'', base[:5], base[:23], base[:24], base[:-1], base + b'\0']
            blob = base[24:]
            hdr = list(struct.unpack(state.HEADER_FORMAT, base[:24]))
            for fld in range(1, 6):
                h2 = list(hdr)
                h2[fld] = (h2[fld] + rng.choice([1, 256, 65536, 1 << 24])) % (1 << 32)
                variants.append(struct.pack(state.HEADER_FORMAT, *h2) + blob)
            for _ in range(3):
                b2 = bytearray(blob)
                if b2:
                    b2[rng.randrange(len(b2))] ^= 1 << rng.randrange(8)
                h2 = [zlib.crc32(bytes(b2)) & 0xffffffff] + hdr[1:]
                variants.append(struct.pack(state.HEADER_FORMAT, *h2) + bytes(b2))
            # several header bytes altered at once, to any values (payload untouched)
            for _ in range(3):
                h2 = bytearray(base[:24])
                for i in rng.sample(range(24), rng.randrange(2, 7)):
                    h2[i] = rng.choice([0, max(0, h2[i] - 1), (h2[i] + 1) % 256, rng.randrange(256), 255])
                if bytes(h2) != base[:24]:
                    variants.append(bytes(h2) + blob)
            other = zlib.compress(pickle.dumps(['other'], pickle.HIGHEST_PROTOCOL))
            variants.append(struct.pack(state.HEADER_FORMAT, zlib.crc32(other) & 0xffffffff, *hdr[1:]) + other)
            codes = [self._try_load(base, d, case['obj'])]
            for i, v in mods:
                b2 = bytearray(base)
                b2[i] = v
                codes.append(self._try_load(bytes(b2), d))
            vlist = []
            for v in variants:
                dc = self._dcode(v[24:])
                vlist.append([dc, list(v)])
                codes.append(self._try_load(v, d))
            return {'base': list(base), 'mods': mods, 'variants': vlist, 'codes': codes, 'dcode': self._dcode(blob)}
        finally:
            common.rmtree(d)

    # ---- 'real' cases: state files of real sessions
    def _real_data(self, case):
        import random
        rng = random.Random(case['seed'])
        d = common.tmpdir('c40r')
        try:
            s = common.new_session()
            s.execute(prog_text([tuple(x) for x in case['prog']]))
            s.execute('A$="state":DIM Q(3)')
            fn = os.path.join(d, 'R.SAV')
            s.suspend(fn)
            s.close()
            with open(fn, 'rb') as f:
                base = f.read()
            mods = []
            for i, v in case['mods']:
                i = i % len(base)
                if v is None:
                    v = base[i] ^ (1 << rng.randrange(8))
                mods.append([i, v])
            base_code = self._try_load(base, d)
            codes = [base_code]
            for i, v in mods:
                b2 = bytearray(base)
                b2[i] = v
                codes.append(self._try_load(bytes(b2), d))
            # sweep: every byte position (thorough) / a sample (quick); implementation only
            if self.tier == 'thorough':
                positions = range(len(base))
            else:
                positions = sorted(set(list(range(0, 40)) + [rng.randrange(len(base)) for _ in range(1500)] +
                                       [len(base) - 1]))
            accepted = []
            for i in positions:
                b2 = bytearray(base)
                b2[i] ^= 1 << rng.randrange(8)
                if self._try_load(bytes(b2), d) == 0:
                    accepted.append(i)
            return {'base': list(base), 'mods': mods, 'codes': codes, 'accepted': accepted,
                    'swept': len(positions), 'dcode': 0 if base_code == 0 else base_code}
        finally:
            common.rmtree(d)

    # ---- 'reopen' cases: state.pickle_file / state.unpickle_file on real files
    def _reopen_data(self, case):
        import importlib
        state = importlib.import_module('pcbasic.basic.state')
        d = common.tmpdir('c40o')
        try:
            fn = os.path.join(d, 'F.DAT')
            mode, c = case['mode'], bytes(case['c'])

            def put(data):
                with open(fn, 'wb') as f:
                    f.write(data)

            def get():
                with open(fn, 'rb') as f:
                    return f.read()
            if case.get('direct'):
                put(c)
                f2 = state.unpickle_file(fn, mode, case['pos'])
                name, tell = f2.name, f2.tell()
                f2.close()
                return {'out': [1 if name == fn else 0, tell] + list(get()), 'fail': None}
            junk, dd = bytes(case['junk']), bytes(case['d'])
            pos = case['pos'] if mode in ('rb', 'r+b') else len(c)
            # the stream as the suspended session holds it
            if mode == 'wb':
                f = open(fn, 'wb')
                f.write(c)
            elif mode == 'ab':
                put(c[:case['pos'] % (len(c) + 1)])
                f = open(fn, 'ab')
                f.write(c[case['pos'] % (len(c) + 1):])
            else:
                put(c)
                f = open(fn, mode)
                f.seek(pos)
            func, args = state.pickle_file(f)
            f.close()
            # shutdown of the suspended session (TextFile.close writes the EOF byte) / anything appended later
            put(c + junk)
            f2 = func(*args)
            name, tell = f2.name, f2.tell()
            f2.close()
            out = [1 if name == fn else 0, args[2], tell] + list(get())
            # direct reading of the property: the resumed program's reads/writes continue where they stopped
            put(c + junk)
            f3 = func(*args)
            fail = None
            if mode == 'rb':
                rest = f3.read()
                f3.close()
                if rest != (c + junk)[pos:]:
                    fail = 'reopened input file continues with %r, expected %r' % (rest, (c + junk)[pos:])
            else:
                f3.write(dd)
                f3.close()
                want = c + dd if mode in ('wb', 'ab') else c[:pos] + dd + c[pos + len(dd):]
                if get() != want:
                    fail = ('file open for %r with contents %r when pickled, %r appended at shutdown, re-opened by '
                            'unpickle_file, %r written: file is %r, expected %r' % (mode, c, junk, dd, get(), want))
            return {'out': out, 'fail': fail}
        finally:
            common.rmtree(d)

    # ---- 'field' cases: text-input state of a random file's record buffer across pickling
    def _field_data(self, case):
        d = common.tmpdir('c40t')
        try:
            def make(sub):
                os.makedirs(os.path.join(d, sub))
                x = common.new_session(devices={'C': os.path.join(d, sub)}, current_device='C:')
                x.execute('OPEN "R",1,"T.DAT",%d' % case['len'])
                x.execute(case['w'])
                x.execute('PUT #1,1')
                x.execute('GET #1,1')
                for st in case['reads'][:case['n']]:
                    x.execute(st)
                return x
            # s is pickled; the reference continuation runs in an identically prepared session that is never pickled
            # (FieldFile.__getstate__ deletes _fhandle from the live object, so s itself cannot go on)
            s, sref = make('A'), make('B')

            def text_state(sess):
                try:
                    ff = sess._impl.files.get(1)._field_file
                except Exception:
                    return None
                return (ff._fhandle.tell(), [ord(c) for c in ff._readahead], list(bytes(ff.get_buffer())))
            before = text_state(s)
            s2 = pickle.loads(pickle.dumps(s))
            after = text_state(s2)
            if before is None or after is None:
                s2.close()
                sref.close()
                return {'out': [0], 'before': None, 'fail': None}
            pend = lambda t: t[1] + t[2][t[0]:]
            fail = None
            if pend(after) != pend(before):
                fail = ('characters pending on the record buffer after unpickling %r differ from those before %r '
                        '(stream position %d -> %d, read-ahead %r -> %r)' % (
                            bytes(pend(after)), bytes(pend(before)), before[0], after[0], before[1], after[1]))
            tail = ':'.join(case['reads'][case['n']:] + ['PRINT A;B;W;"|";A$;"|";B$'])
            o1, o2 = sref.execute(tail), s2.execute(tail)
            if fail is None and o1 != o2:
                fail = 'continuing %r after unpickling gives %r, without pickling %r' % (tail, o2, o1)
            sref.close()
            s2.close()
            return {'out': [1, after[0], len(after[1])] + pend(after), 'before': before, 'fail': fail}
        finally:
            common.rmtree(d)

    # ---- 'resume' / 'mid' / 'redo' cases
    def _resume_data(self, case):
        prog = [tuple(x) for x in case['p']]
        kind = case['k']
        if kind == 'resume':
            r = Runner(prog)
            with core.time_limit(120):
                u = r.uninterrupted()
            if u['capped'] or u['exit']:
                return {'points': [], 'fail': None, 'n': 0, 'degenerate': True}
            nb = u['boundaries']
            ks = list(range(2, nb + 1))       # boundary 1 is before the direct-mode RUN statement itself
            maxp = MAX_POINTS if self.tier == 'thorough' else QUICK_POINTS
            if len(ks) > maxp:
                step = (len(ks) + maxp - 1) // maxp
                ks = ks[::step]
            points, fail = [], None
            for k in ks:
                try:
                    with core.time_limit(60):
                        res = r.interrupted(k)
                except Exception as e:
                    if fail is None:
                        fail = 'suspending at statement boundary %d and resuming raised %s: %s' % (
                            k, type(e).__name__, e)
                    continue
                if res is None:
                    continue
                pt = res['point']
                pt['k'] = k
                points.append(pt)
                if fail is None:
                    if res['exit_again']:
                        fail = 'resumed run at boundary %d raised Exit again' % k
                    else:
                        dk = diff_obs(u, res)
                        if dk:
                            fail = ('suspended at statement boundary %d (pointer %d), resumed at pointer %d: %s differs '
                                    'from the uninterrupted run: %r vs %r' % (
                                        k, pt['ptr'], pt['ptr_after'], dk, str(res[dk])[:200], str(u[dk])[:200]))
            return {'points': points, 'fail': fail, 'n': nb}
        if kind == 'mid':
            # reference: the same program with SYSTEM replaced by a no-op; the resumed runs chain through
            # every SYSTEM: suspend inside it, resume, continue to the next one
            ref = [(n, t.replace('SYSTEM', 'TROFF')) for n, t in prog]
            with core.time_limit(120):
                u = Runner(ref).uninterrupted(EPILOGUE_NOFRE)
            if u['capped'] or u['exit']:
                return {'points': [], 'fail': None, 'n': 0, 'degenerate': True}
            return self._chain_system(prog, u)
        # redo: QUIT arrives while the statement waits for the keyboard; keys are typed after resuming
        r = Runner(prog)
        with core.time_limit(60):
            res = r.interrupted(None, mid=1, keys_after=case['keys'])
            u = Runner(prog, keys=case['keys']).uninterrupted()
        if res is None:
            return {'points': [], 'fail': 'no suspension inside the waiting statement', 'n': 0}
        pt = res['point']
        fail = None
        if res['vars'] != u['vars']:
            fail = 'variables after redo differ: %r vs %r' % (res['vars'], u['vars'])
        return {'points': [pt], 'fail': fail, 'n': 1}

    def _chain_system(self, prog, u):
        from pcbasic.basic import Session
        from pcbasic.basic.base import error
        d = common.tmpdir('c40m')
        try:
            r = Runner(prog)
            s = r.new(d)
            points, outs = [], []
            out, exc = r.capture(s, lambda: s._impl.execute(b'RUN'))
            outs.append(out)
            fail = None
            hops = 0
            while exc is not None and hops < 60:
                hops += 1
                interp = s._impl.interpreter
                stream = interp.get_codestream()
                pt = {'hit': 'mid', 'run_mode': bool(interp.run_mode), 'redo': bool(interp.parser.redo_on_break),
                      'cur': interp.current_statement, 'ptr': stream.tell(), 'code': list(bytes(stream.getvalue())),
                      'flag': getattr(interp, 'in_statement', None)}
                fn = os.path.join(d, 'STATE.SAV')
                s.suspend(fn)
                s.close()
                s = Session.resume(fn)
                os.remove(fn)
                pt['ptr_after'] = s._impl.interpreter.get_codestream().tell()
                points.append(pt)
                impl2 = s._impl

                def cont():
                    with impl2._handle_exceptions():
                        impl2.interpreter.loop()
                out, exc = r.capture(s, cont)
                outs.append(out)
            res = {'out': ''.join(outs)}
            res.update(Runner.observe(s, d, EPILOGUE_NOFRE))
            if exc is not None:
                fail = 'more than 60 SYSTEM suspensions'
            else:
                dk = diff_obs(u, res)
                if dk:
                    fail = ('chained suspension inside SYSTEM statements: %s differs from the run with no-ops: '
                            '%r vs %r' % (dk, str(res[dk])[:200], str(u[dk])[:200]))
            return {'points': points, 'fail': fail, 'n': len(points)}
        finally:
            common.rmtree(d)

    @staticmethod
    def _pts_runmode(data):
        return [p for p in data['points'] if p['run_mode']]

    # ---- implementation
    def impl(self, case):
        k = case['k']
        if k == 'crc':
            b = bytes(case['b'])
            b2 = bytearray(b)
            if b2:
                b2[case['i']] = case['v']
            return [zlib.crc32(b) & 0xffffffff, zlib.crc32(bytes(b2)) & 0xffffffff]
        if k == 'file':
            data = self._cache('file', case, self._file_data)
            return data['codes'] + data['base'][:24]
        if k == 'real':
            data = self._cache('real', case, self._real_data)
            return data['codes'] + [len(data['accepted'])]
        if k == 'reopen':
            return self._cache('reopen', case, self._reopen_data)['out']
        if k == 'field':
            return self._cache('field', case, self._field_data)['out']
        data = self._cache('resume', case, self._resume_data)
        pts = self._pts_runmode(data)
        return [len(pts)] + [p['ptr_after'] for p in pts]

    def model_term(self, case):
        k = case['k']
        if k == 'crc':
            b = core.zl(case['b'])
            return '(let b := %s in [crc32 b; crc32 (set_nth %d %d b)])' % (b, case['i'], case['v'])
        if k == 'file':
            data = self._cache('file', case, self._file_data)
            mods = '[' + ';'.join('(%d,%d)' % (i, v) for i, v in data['mods']) + ']'
            variants = '[' + ';'.join('(%d,%s)' % (dc, core.zl(v)) for dc, v in data['variants']) + ']'
            return ('(let f := %s in load_codes %d f %s %s ++ save_header (file_blob f))'
                    % (core.zl(data['base']), data['dcode'], mods, variants))
        if k == 'real':
            data = self._cache('real', case, self._real_data)
            mods = '[' + ';'.join('(%d,%d)' % (i, v) for i, v in data['mods']) + ']'
            # the trailing 0 is the prediction of C40_any_byte_rejected for the sweep: no alteration accepted
            return '(load_codes %d %s %s [] ++ [0])' % (data['dcode'], core.zl(data['base']), mods)
        if k == 'field':
            b = self._cache('field', case, self._field_data)['before']
            if b is None:
                return '[0]'
            return '(1 :: field_out %s %d %s)' % (core.zl(b[2]), b[0], core.zl(b[1]))
        if k == 'reopen':
            w, a = (1 if 'w' in case['mode'] else 0), (1 if 'a' in case['mode'] else 0)
            if case.get('direct'):
                return '(1 :: reopen_out %d %d %s %s)' % (w, a, core.zl([case['pos']])[1:-1], core.zl(case['c']))
            pos = case['pos'] if case['mode'] in ('rb', 'r+b') else len(case['c'])
            return '(1 :: %d :: reopen_out %d %d %d %s)' % (pos, w, a, pos, core.zl(case['c'] + case['junk']))
        data = self._cache('resume', case, self._resume_data)
        pts = self._pts_runmode(data)
        if not pts:
            return '[0]'
        # the code stream is the same at all points of these programs; group by code to keep the term small
        terms = []
        i = 0
        while i < len(pts):
            j = i
            while j < len(pts) and pts[j]['code'] == pts[i]['code']:
                j += 1
            quad = '[' + ';'.join('(%d,%d,%d,%d)' % (
                0 if p['hit'] == 'boundary' else 1, 1 if p['redo'] else 0, p['cur'], p['ptr']) for p in pts[i:j]) + ']'
            terms.append('setstate_all %s %s' % (core.zl(pts[i]['code']), quad))
            i = j
        return '(%d :: %s)' % (len(pts), ' ++ '.join(terms))

    def nontrivial(self, case, out):
        k = case['k']
        if k == 'crc':
            return len(case['b']) > 0
        if k in ('file', 'real'):
            return len(out) > 3
        if k == 'reopen':
            return True
        if k == 'field':
            return out[0] == 1 and out[2] > 0      # read-ahead held over the pickling
        return out[0] > 0

    def shrink_candidates(self, case):
        # a redo case without its waiting statement is not a smaller witness
        if case.get('k') == 'redo':
            return []
        return core.Check.shrink_candidates(self, case)

    # ---- property oracle: direct reading on the implementation, no model involved
    def oracle(self, case, out):
        k = case['k']
        if k == 'crc':
            b = case['b']
            if b and b[case['i']] != case['v'] and out[0] == out[1]:
                return 'changing byte %d of the blob does not change zlib.crc32' % case['i']
            return None
        if k == 'file':
            data = self._cache('file', case, self._file_data)
            if data['codes'][0] != 0:
                return 'the unaltered state file is not loaded back (code %d)' % data['codes'][0]
            for (i, v), code in zip(data['mods'], data['codes'][1:]):
                if v != data['base'][i] and code == 0:
                    return 'state file with byte %d altered (%d -> %d) is loaded, not rejected' % (i, data['base'][i], v)
            base = data['base']
            vcodes = data['codes'][1 + len(data['mods']):]
            for (dc, v), code in zip(data['variants'], vcodes):
                if len(v) == len(base) and v[24:] == base[24:] and v != base and code == 0:
                    return 'state file with header bytes %r altered to %r (payload untouched) is loaded, not rejected' % (
                        base[:24], v[:24])
            return None
        if k == 'real':
            data = self._cache('real', case, self._real_data)
            if data['codes'][0] != 0:
                return 'the unaltered session state file is not resumed (code %d)' % data['codes'][0]
            for (i, v), code in zip(data['mods'], data['codes'][1:]):
                if v != data['base'][i] and code == 0:
                    return 'session state file with byte %d altered (%d -> %d) is resumed, not rejected' % (
                        i, data['base'][i], v)
            if data['accepted']:
                return 'session state file with byte %d altered is resumed, not rejected (%d of %d positions)' % (
                    data['accepted'][0], len(data['accepted']), data['swept'])
            return None
        if k == 'reopen':
            return self._cache('reopen', case, self._reopen_data)['fail']
        if k == 'field':
            return self._cache('field', case, self._field_data)['fail']
        data = self._cache('resume', case, self._resume_data)
        return data['fail']


CHECK = C40
