"""C42 - PLAY emits the notes its music string specifies.

Correspondence: a real Session with a recording audio queue (queues.audio replaced by a queue.Queue owned by the
checker - the plug point of the audio back ends, no edit to /repo); every case is a set of BASIC variables and
1..3 `PLAY M$` statements executed in that Session; per statement the AUDIO_TONE signals, the error number, and
the play state are compared with the Coq model `play_case`.  Durations are binary64 in the implementation and
exact rationals in the model: the observed floats are handed to the model term as exact integer ratios and the
MODEL decides (in exact integer arithmetic, under vm_compute) whether each is within 2^-40 relative of its exact
value; the compared lists carry that flag.  Frequencies are compared as indices into the (regenerated, proved)
NOTE_FREQ table.

Oracle: an independent Python reference (fractions.Fraction) of the formulas in the property text, run on the
command list the generator intended (the string is a rendering of it), compared with the observed signals.
"""
import math
import queue
from fractions import Fraction

from vlib import core
from harness import common

IFC = 5
TYPE_MISMATCH = 13
MISSING_OPERAND = 22          # PLAY "" (the empty string counts as no operand)
SENTINEL = 200
FUEL = 700
MAX_SOUNDING = 13          # (+3 for mutations) <= 32 queue items: PLAY never has to wait for the background buffer to drain
LETTERS = 'CDEFGAB'
SEMITONE = {'C': 0, 'D': 2, 'E': 4, 'F': 5, 'G': 7, 'A': 9, 'B': 11}

L_POOL = [1, 2, 3, 4, 8, 16, 32, 63, 64, 5, 6, 7, 12, 24, 48]
L_BAD = [0, 65, 66, 100, 255, 256, 32768, 99999]
T_POOL = [32, 33, 60, 64, 96, 100, 120, 128, 180, 200, 240, 250, 254, 255, 125, 77]
T_BAD = [0, 1, 31, 256, 257, 1000, 65536]
O_POOL = [0, 1, 2, 3, 4, 5, 6]
O_BAD = [7, 8, 10, 255]
N_POOL = [0, 1, 2, 12, 13, 33, 34, 35, 48, 83, 84, 24, 60, 72]
N_BAD = [85, 86, 100, 255, 32767, 40000]
NOTELEN_POOL = [None, None, None, 0, 1, 2, 3, 4, 8, 16, 32, 63, 64, 6, 12]
NOTELEN_BAD = [65, 100, 255, 1000]
NUM_VARS = ['I%', 'J%', 'K%', 'V', 'W!', 'Q#', 'N1%', 'LEN.X', 'ABCDEFGHIJKLMNOPQRSTUVWXYZ0123456789ABCD%']
STR_VARS = ['A$', 'B$', 'S1$', 'SUB.X$']


# ----------------------------------------------------------------------------------------------------------------
# command lists (what the generator intends) and their rendering as MML text
#   ['note', letter, acc, len|None, dots]   acc in '', '#', '+', '-'
#   ['pause', len|None, dots]
#   ['N', n, dots] ['L', n] ['T', n] ['O', n] ['>'] ['<'] ['M', x]  x in N L S F B
#   ['X', var]                                 substring (var holds the rendering of env ast)
#   numbers are ints, or ['var', name] for `=name;`  (env gives the value), or ['signed', '+'|'-', n]

def num_value(n, env):
    if isinstance(n, list):
        if n[0] == 'var':
            return env[n[1]]['v']
        return n[2] if n[1] == '+' else -n[2]
    return n


class Renderer(object):
    """Render a command list as MML bytes; rng None = compact canonical rendering."""

    def __init__(self, rng=None):
        self.rng = rng

    def sp(self):
        if self.rng is None:
            return ''
        r = self.rng.random()
        return '' if r < 0.75 else (' ' if r < 0.95 else '  ')

    def case(self, c):
        if self.rng is not None and self.rng.random() < 0.3:
            return c.lower()
        return c

    def digits(self, n):
        s = str(n)
        if self.rng is not None:
            if self.rng.random() < 0.1:
                s = '0' * self.rng.randrange(1, 3) + s
            if self.rng.random() < 0.1:
                s = ' '.join(s)
        return s

    def name(self, nm):
        if self.rng is not None:
            if len(nm) == 41 and self.rng.random() < 0.5:
                nm = nm[:40] + 'Z9.' + nm[40:]          # only the first 40 characters of a name count
            if self.rng.random() < 0.3:
                nm = nm.lower()
        return nm

    def num(self, n):
        if isinstance(n, list):
            if n[0] == 'var':
                return '=' + self.sp() + self.name(n[1]) + self.sp() + ';'
            return n[1] + self.digits(n[2])
        return self.digits(n)

    def cmd(self, c):
        k = c[0]
        if k == 'note':
            return (self.case(c[1]) + self.sp() + c[2] + self.sp() + ('' if c[3] is None else self.digits(c[3]))
                    + ''.join(self.sp() + '.' for _ in range(c[4])))
        if k == 'pause':
            return (self.case('P') + self.sp() + ('' if c[1] is None else self.digits(c[1]))
                    + ''.join(self.sp() + '.' for _ in range(c[2])))
        if k == 'N':
            return self.case('N') + self.sp() + self.num(c[1]) + ''.join(self.sp() + '.' for _ in range(c[2]))
        if k in ('L', 'T', 'O'):
            return self.case(k) + self.sp() + self.num(c[1])
        if k in ('>', '<'):
            return k
        if k == 'M':
            return self.case('M') + self.sp() + self.case(c[1])
        if k == 'X':
            return self.case('X') + self.sp() + self.name(c[1]) + self.sp() + ';'
        raise ValueError(c)

    def text(self, cmds):
        out = ''
        for i, c in enumerate(cmds):
            if i and self.rng is not None and self.rng.random() < 0.15:
                out += self.sp() + ';'
            out += self.sp() + self.cmd(c)
        return out + self.sp()


# ----------------------------------------------------------------------------------------------------------------
# reference semantics of a command list: the property text, in Fractions (does not use the Coq model)

class RefState(object):
    def __init__(self):
        self.octave, self.L, self.T, self.fillq, self.fg = 4, 4, 120, Fraction(7, 8), True


def ref_run(cmds, env, st, out):
    """Append expected (index|None, duration, volume) to out; return None or the BASIC error number."""
    for c in cmds:
        k = c[0]
        if k == 'X':
            e = env[c[1]]
            if e['k'] != 's':
                return TYPE_MISMATCH
            err = ref_run(e['ast'], env, st, out)
            if err:
                return err
            continue
        if k in ('L', 'T', 'O', 'N'):
            if isinstance(c[1], list) and c[1][0] == 'var' and env[c[1][1]]['k'] == 's':
                return TYPE_MISMATCH
            n = num_value(c[1], env)
        if k == 'L':
            if not 1 <= n <= 64:
                return IFC
            st.L = n
        elif k == 'T':
            if not 32 <= n <= 255:
                return IFC
            st.T = n
        elif k == 'O':
            if not 0 <= n <= 6:
                return IFC
            st.octave = n
        elif k == '>':
            st.octave = min(6, st.octave + 1)
        elif k == '<':
            st.octave = max(0, st.octave - 1)
        elif k == 'M':
            if c[1] == 'N':
                st.fillq = Fraction(7, 8)
            elif c[1] == 'L':
                st.fillq = Fraction(1)
            elif c[1] == 'S':
                st.fillq = Fraction(3, 4)
            elif c[1] == 'F':
                st.fg = True
            elif c[1] == 'B':
                st.fg = False
            else:
                return IFC
        elif k in ('note', 'pause', 'N'):
            if k == 'N':
                if not 0 <= n <= 84:
                    return IFC
                ln, dots = None, c[2]
            elif k == 'note':
                ln, dots = c[3], c[4]
            else:
                ln, dots = c[1], c[2]
            if ln is not None and not 0 <= ln <= 64:
                return IFC
            L = ln if ln else st.L
            dur = Fraction(240, st.T) / L * Fraction(3, 2) ** dots
            if k == 'pause':
                if ln is None:
                    return IFC
                if ln == 0:
                    if dots:
                        return IFC
                    continue
                out.append((None, dur, 15))
                continue
            if k == 'N':
                if n == 0:
                    out.append((None, dur, 15))
                    continue
                idx = n - 1
            else:
                sem = SEMITONE[c[1]] + {'': 0, '#': 1, '+': 1, '-': -1}[c[2]]
                if (c[1], c[2]) in (('E', '#'), ('E', '+'), ('B', '#'), ('B', '+'), ('C', '-'), ('F', '-')):
                    return IFC
                idx = st.octave * 12 + sem
            out.append((idx, dur * st.fillq, 15))
            if st.fillq != 1:
                out.append((None, dur * (1 - st.fillq), 0))
        else:
            raise ValueError(c)
    return None


def count_sounding(cmds, env):
    n = 0
    for c in cmds:
        if c[0] in ('note', 'pause', 'N'):
            n += 1
        elif c[0] == 'X' and env[c[1]]['k'] == 's':
            n += count_sounding(env[c[1]]['ast'], env)
    return n


# ----------------------------------------------------------------------------------------------------------------

def ratio(x):
    f = Fraction(x)
    return [f.numerator, f.denominator]


class C42(core.Check):
    ID = 'C42'
    GEN = ['gen_play']
    PROPS = 'props/C42.v'
    MODEL_IMPORTS = ['gen.Gen_play', 'model.Play']
    QUICK_CASES = 800
    THOROUGH_CASES = 12000
    # std-lib axioms of Coq's real numbers (Coq.Reals and the classical lemmas it uses); they occur ONLY in
    # C42_freq_table and C42_freq_A440; every other theorem is closed under the global context
    ALLOWED_AXIOMS = set(
        ['ClassicalDedekindReals.sig_forall_dec', 'ClassicalDedekindReals.sig_not_dec', 'Classical_Prop.classic',
         'FunctionalExtensionality.functional_extensionality_dep'] +
        # NOT axioms: vlib.core.axiom_names takes every `token :` of the Print Assumptions text for a name, which
        # also catches the binders inside the axioms' types (`forall P : Prop, ...`, `forall n : nat, ...`)
        ['P', 'g', 'n', 'x'])
    TRUSTED = [
        'hand model model/Play.v of Sound.play_/emit_tone and of the MML scanner (mlparser.py, codestream.py), one '
        'voice per run (default syntax; multi-string PLAY under tandy/pcjr is the model run per voice on its own state; no V), tied by correspondence on a recording '
        'audio queue; scalar variables only in =var; and Xvar; (arrays and VARPTR$ forms are CHost, not generated)',
        'binary64 rounding of the duration products is outside the theorems: the model is exact (Q); the '
        'correspondence requires every observed duration and state float to be within 2^-40 relative of the exact '
        'value (decided inside Coq on the exact integer ratio of the observed float)',
        'libm pow behind NOTE_FREQ is not modelled: the table is regenerated as exact binary64 values and each entry '
        'is proved within 2^-40 relative of 440*2^((i-33)/12): one exact integer comparison per entry '
        '((f(1-e)/440)^12 <= 2^(i-33) <= (f(1+e)/440)^12, vm_compute) lifted to Rpower by a general lemma; the '
        'std-lib real-number axioms (sig_forall_dec, sig_not_dec, classic, functional_extensionality_dep) are '
        'confined to C42_freq_table / C42_freq_A440',
        'timing/waiting (TimedQueue, background buffer) is not part of the property; cases keep <= 32 queue items',
    ]
    RULE = ('1..3 PLAY M$ statements per Session in background mode; strings are random renderings (blanks, case, '
            'semicolons, leading zeros, signs, =var; numbers) of generated command lists over notes with '
            'accidentals/lengths/dots, N, L, T, O, <, >, MN/ML/MS/MF/MB, P, X substrings (nested), boundary-dense '
            'value pools incl. out-of-range values, plus a malformed stream (byte mutations of valid strings, random '
            'bytes).  Compared per statement: (frequency index, volume, duration-close flag) of every tone signal, '
            'error number, octave, foreground flag, length/tempo/fill-close flags.  non-trivial = at least one tone '
            'signal; distinct by hash')
    histogram = None

    # ---- cases
    def mk(self, env, stmts):
        """env: {name: {'k': 'n', 'v': int} | {'k': 's', 'ast': cmds, 'b': bytes-list}}; stmts: [{'ast', 'b'}]"""
        return {'env': env, 'stmts': stmts}

    def stmt(self, cmds, rng=None, raw=None):
        if raw is not None:
            return {'ast': None, 'b': list(raw)[:255]}
        b = list(Renderer(rng).text(cmds).encode('latin-1'))
        if len(b) > 255:                 # BASIC strings hold 255 bytes: fall back to the compact rendering
            b = list(Renderer(None).text(cmds).encode('latin-1'))
        assert len(b) <= 255
        return {'ast': cmds, 'b': b}

    def corpus(self):
        S = self.stmt
        MB = ['M', 'B']
        res = []

        def one(*cmds, **kw):
            res.append(self.mk(kw.get('env', {}), [S([MB] + list(cmds))]))
        one(['note', 'C', '', None, 0])
        one(['O', 2], ['note', 'A', '', None, 0], ['N', 34, 0])                 # both 440 Hz
        one(['O', 0], ['note', 'C', '', None, 0], ['O', 6], ['note', 'B', '', None, 0], ['N', 1, 0], ['N', 84, 0])
        one(['O', 6], ['>'], ['note', 'B', '', None, 0], ['O', 0], ['<'], ['note', 'C', '', None, 0])
        one(['T', 32], ['L', 1], ['note', 'C', '', None, 3], ['T', 255], ['L', 64], ['note', 'C', '', None, 0])
        one(['M', 'S'], ['note', 'D', '#', 3, 2], ['M', 'L'], ['note', 'E', '-', 64, 1], ['M', 'N'],
            ['note', 'F', '+', 0, 4])
        one(['pause', 4, 2], ['pause', 0, 0], ['N', 0, 1], ['pause', 64, 0], ['pause', 1, 6])
        one(['note', 'C', '', None, 10], ['note', 'G', '-', 7, 12])
        for bad in (['L', 0], ['L', 65], ['T', 31], ['T', 256], ['O', 7], ['N', 85, 0], ['N', ['signed', '-', 1], 0],
                    ['note', 'C', '', 65, 0], ['pause', None, 0], ['pause', None, 2], ['pause', 0, 1],
                    ['note', 'E', '#', None, 0], ['note', 'B', '+', 4, 0], ['note', 'C', '-', None, 0],
                    ['note', 'F', '-', None, 1], ['pause', 65, 0]):
            one(['note', 'D', '', None, 0], bad, ['note', 'E', '', None, 0])
        one(['N', ['signed', '+', 34], 0], ['O', ['signed', '-', 0]], ['note', 'C', '', None, 0])
        env = {'A$': {'k': 's', 'ast': [['note', 'C', '', 8, 0], ['X', 'B$'], ['>']]},
               'B$': {'k': 's', 'ast': [['L', 16], ['note', 'D', '', None, 1]]},
               'I%': {'k': 'n', 'v': 34}, 'V': {'k': 'n', 'v': 40000}, 'Q#': {'k': 'n', 'v': -3}}
        self.fill_env(env)
        res.append(self.mk(env, [S([MB, ['X', 'A$'], ['N', ['var', 'I%'], 0], ['X', 'A$'], ['T', ['var', 'V']]]),
                                 S([['note', 'E', '', None, 0], ['L', ['var', 'Q#']]]),
                                 S([['X', 'I%']]), S([['N', ['var', 'A$'], 0]])]))
        # state persists over statements; MF then error leaves foreground mode on
        res.append(self.mk({}, [S([MB, ['O', 1], ['L', 8], ['T', 200], ['M', 'S'], ['note', 'C', '', None, 0]]),
                                S([['note', 'C', '', None, 0], ['M', 'F'], ['O', 9]]),
                                S([MB, ['note', 'C', '', None, 0]])]))
        # a short tune really played in the foreground (waits ~30 ms of real time)
        res.append(self.mk({}, [S([['T', 255], ['L', 64], ['M', 'F'], ['note', 'C', '', None, 0],
                                   ['note', 'D', '', None, 0]])]))
        # raw strings: scanner corner cases observed on the real code
        for raw in (b'MB C;', b'MB C;;D', b'MB C+-', b'MB C 6 4', b'MBL 6 4C', b'MB N- 5', b'MB N =I%;', b'MB V5 C',
                    b'MB M', b'MB MQ', b'MB X', b'MB XA$', b'MB XA$ ;E', b'MB N=;', b'MB N=1;', b'MB N=I%.;',
                    b'MB N=I%;.', b'MB N-=I%;', b'MB =', b'MB P#4', b'MB P-', b'MB C0.', b'MB ;C', b'MB ;', b';',
                    b'', b'   ', b'mb o2 a n34', b'MB L', b'MB T', b'MB O', b'MB N', b'MB N.', b'MB H', b'MB 4',
                    b'MB C\x80', b'MB C#+', b'MB C . .', b'MB P 4 . .', b'MB L0064C', b'MB >>>>>>>B<<<<<<<<<C',
                    b'MB Xi%;', b'MB n=a$;', b'MB XQ;C', b'MB N=ZZ;', b'MB L=I %;'):
            res.append(self.mk({'I%': {'k': 'n', 'v': 34}, 'A$': {'k': 's', 'ast': [], 'b': list(b'C D')}},
                               [S(None, raw=raw)]))
        # multi-voice PLAY (Tandy/PCjr): every voice has its own play state (seeded change C42f: shared state)
        C = ['note', 'C', '', None, 0]
        for syn in ('tandy', 'pcjr'):
            res.append(self.mk_multi(syn, [[[MB, ['O', 1], ['L', 64], C], [MB, ['O', 4], ['L', 4], C],
                                            [MB, ['O', 6], ['L', 32], C]]]))
            res.append(self.mk_multi(syn, [[[MB, ['O', 2], ['T', 200], ['M', 'S'], C], None, None],
                                           [[MB, C], [MB, C], [MB, ['M', 'L'], ['>'], C]],
                                           [[MB, C], None, [MB, C]]]))
        return res

    def mk_multi(self, syntax, stmts, rng=None):
        """stmts: list of [cmds|None] * 3 (voice 0 always present)"""
        return {'env': {}, 'syntax': syntax,
                'multi': [[None if v is None else self.stmt(v, rng) for v in st] for st in stmts]}

    def rand_voice_cmds(self, rng, hist):
        """valid commands only (an error in one voice would cut the others at an interleaving-dependent point);
        no octave 0 / N1..9 (Tandy plays frequencies below 110 Hz as 110 Hz), no MF, no X, no V"""
        cmds = [['M', 'B']]
        sounding = 0
        for _ in range(rng.choice([1, 2, 3, 5, 8])):
            r = rng.random()
            if r < 0.35 and sounding < 4:
                letter = rng.choice(LETTERS)
                acc = rng.choice(['', '', '#', '+', '-'])
                if (letter, acc) in (('E', '#'), ('E', '+'), ('B', '#'), ('B', '+'), ('C', '-'), ('F', '-')):
                    acc = ''
                cmds.append(['note', letter, acc, rng.choice([None, None, 0, 1, 3, 4, 8, 16, 64]),
                             rng.choice([0, 0, 1, 2])])
                sounding += 1
            elif r < 0.42 and sounding < 4:
                cmds.append(['pause', rng.choice([1, 2, 4, 8, 64]), rng.choice([0, 0, 1])])
                sounding += 1
            elif r < 0.5 and sounding < 4:
                cmds.append(['N', rng.choice([0, 10, 22, 34, 48, 84]), rng.choice([0, 0, 1])])
                sounding += 1
            elif r < 0.62:
                cmds.append(['L', rng.choice(L_POOL)])
            elif r < 0.74:
                cmds.append(['T', rng.choice(T_POOL)])
            elif r < 0.86:
                cmds.append(['O', rng.choice([1, 2, 3, 4, 5, 6])])
            elif r < 0.92:
                cmds.append(['>'])
            else:
                cmds.append(['M', rng.choice('NLS')])
        hist['multi_voice_strings'] += 1
        return cmds

    def fill_env(self, env, rng=None):
        """Render string variables (innermost first; env asts never recurse by construction)."""
        def render(nm, depth=0):
            e = env[nm]
            if e['k'] == 's' and 'b' not in e:
                for c in e['ast']:
                    if c[0] == 'X' and env[c[1]]['k'] == 's':
                        render(c[1], depth + 1)
                e['b'] = list(Renderer(rng).text(e['ast']).encode('latin-1'))
                if len(e['b']) > 255:
                    e['b'] = list(Renderer(None).text(e['ast']).encode('latin-1'))
        for nm in env:
            render(nm)

    def rand_num(self, rng, good, bad, env, hist, p_bad=0.04):
        r = rng.random()
        if r < p_bad:
            hist['out_of_range'] += 1
            n = rng.choice(bad)
        else:
            n = rng.choice(good)
        r = rng.random()
        nums = [nm for nm in env if env[nm]['k'] == 'n']
        if r < 0.12 and nums:
            nm = rng.choice(nums)
            if rng.random() < 0.7 and (nm[-1] != '%' or abs(n) <= 32767):
                env[nm]['v'] = n if rng.random() < 0.9 else -n
            hist['var_number'] += 1
            return ['var', nm]
        if r < 0.2:
            return ['signed', '+' if rng.random() < 0.7 or n else '-', n]
        if r < 0.23:
            hist['out_of_range'] += 1
            return ['signed', '-', n]
        return n

    def rand_cmds(self, rng, n, env, hist, strs=(), budget=MAX_SOUNDING, no_mf=False):
        cmds = []
        for _ in range(n):
            r = rng.random()
            if r < 0.36:
                if budget <= 0:
                    continue
                budget -= 1
                ln = rng.choice(NOTELEN_POOL) if rng.random() < 0.97 else rng.choice(NOTELEN_BAD)
                dots = rng.choice([0, 0, 0, 0, 1, 1, 2, 3, 5, 9])
                acc = rng.choice(['', '', '', '#', '+', '-'])
                cmds.append(['note', rng.choice(LETTERS), acc, ln, dots])
                hist['note'] += 1
            elif r < 0.44:
                if budget <= 0:
                    continue
                budget -= 1
                ln = rng.choice([1, 2, 4, 8, 16, 32, 64, 3, 63, 0]) if rng.random() < 0.95 else \
                    rng.choice([None, 65, 100])
                cmds.append(['pause', ln, rng.choice([0, 0, 0, 1, 2, 4])])
                hist['pause'] += 1
            elif r < 0.52:
                if budget <= 0:
                    continue
                budget -= 1
                cmds.append(['N', self.rand_num(rng, N_POOL + list(range(0, 85, 5)), N_BAD, env, hist),
                             rng.choice([0, 0, 0, 1, 2])])
                hist['N'] += 1
            elif r < 0.60:
                cmds.append(['L', self.rand_num(rng, L_POOL, L_BAD, env, hist)])
                hist['L'] += 1
            elif r < 0.68:
                cmds.append(['T', self.rand_num(rng, T_POOL, T_BAD, env, hist)])
                hist['T'] += 1
            elif r < 0.75:
                cmds.append(['O', self.rand_num(rng, O_POOL, O_BAD, env, hist)])
                hist['O'] += 1
            elif r < 0.85:
                k = rng.choice('<>')
                for _ in range(rng.choice([1, 1, 1, 2, 3, 7])):
                    cmds.append([k])
                hist['<>'] += 1
            elif r < 0.94:
                cmds.append(['M', rng.choice('NLSNLSBB' if no_mf else 'NLSNLSFB')])
                hist['M' + cmds[-1][1]] += 1
            elif rng.random() < 0.1 and env:
                # wrong-type variable: Type mismatch
                nm = rng.choice(sorted(env))
                if env[nm]['k'] == 's':
                    cmds.append([rng.choice('LTON'), ['var', nm]] + ([0] if False else []))
                    if cmds[-1][0] == 'N':
                        cmds[-1].append(0)
                else:
                    cmds.append(['X', nm])
                hist['wrong_type_var'] += 1
            elif strs:
                nm = rng.choice(strs)
                cost = count_sounding([['X', nm]], env)
                if cost > budget:
                    continue
                budget -= cost
                cmds.append(['X', nm])
                hist['X'] += 1
        return cmds

    def gen_cases(self, n):
        rng = self.rng
        keys = ['note', 'pause', 'N', 'L', 'T', 'O', '<>', 'MN', 'ML', 'MS', 'MF', 'MB', 'X', 'var_number',
                'out_of_range', 'wrong_type_var', 'structured', 'mutated', 'random_bytes', 'statements',
                'multi_voice_cases', 'multi_voice_strings']
        hist = dict((k, 0) for k in keys)
        out = []
        for i in range(n):
            if i % 8 == 7:
                # multi-voice PLAY under the Tandy/PCjr syntaxes: 1..3 statements of 1..3 strings, each voice keeps
                # its own state over the statements (incl. a single-string PLAY followed by a multi-string one)
                stmts = []
                for j in range(rng.choice([1, 2, 2, 3])):
                    nv = rng.choice([1, 2, 3, 3])
                    voices = [self.rand_voice_cmds(rng, hist)]
                    for v in (1, 2):
                        voices.append(self.rand_voice_cmds(rng, hist) if (nv == 3 or (nv == 2 and v == rng.choice([1, 2])))
                                      else None)
                    stmts.append(voices)
                out.append(self.mk_multi(rng.choice(['tandy', 'pcjr']), stmts, rng))
                hist['multi_voice_cases'] += 1
                continue
            env = {}
            for nm in rng.sample(NUM_VARS, rng.randrange(0, 4)):
                env[nm] = {'k': 'n', 'v': rng.choice(N_POOL + L_POOL + T_POOL)}
            # string variables, innermost first: a string may only use the ones before it (no recursion)
            strs = []
            budget = MAX_SOUNDING
            kind = rng.random()
            no_mf = kind >= 0.75         # a mutated string that still finishes must not wait in the foreground
            for nm in rng.sample(STR_VARS, rng.choice([0, 0, 1, 1, 2, 3])):
                env[nm] = {'k': 's', 'ast': self.rand_cmds(rng, rng.randrange(0, 5), env, hist, tuple(strs), 3,
                                                           no_mf)}
                strs.append(nm)
            self.fill_env(env, rng)
            nst = rng.choice([1, 1, 1, 2, 3])
            stmts = []
            for j in range(nst):
                per = budget // (nst - j)
                cmds = self.rand_cmds(rng, rng.choice([1, 2, 4, 6, 10, 16, 24]), env, hist, tuple(strs), per, no_mf)
                if rng.random() < 0.3 or no_mf:
                    cmds.insert(0, ['M', 'B'])
                cmds.append(['M', 'B'])         # a statement that finishes must not wait in the foreground
                while len(Renderer(None).text(cmds)) > 200:
                    del cmds[len(cmds) // 2]
                budget -= count_sounding(cmds, env)
                st = self.stmt(cmds, rng)
                if kind < 0.75:
                    hist['structured'] += 1
                elif kind < 0.93:
                    # malformed stream 1: byte mutations of a valid rendering (keep the note budget: no new letters)
                    b = list(Renderer(None).text([['M', 'B']]).encode()) + list(self.stmt(cmds[1:], rng)['b'])
                    for _ in range(rng.choice([1, 1, 2, 3])):
                        op = rng.random()
                        pos = rng.randrange(2, len(b) + 1)          # the leading MB stays
                        ch = rng.choice(list(b' ;.#+-=0123456789<>LTOXVHQZ$%!,&:/\x09\x0d\x7f\x80\xff') +
                                        [rng.randrange(9, 256)])
                        if ch in b'([ABCDEFGNPabcdefgnpMm':
                            ch = 32
                        if op < 0.4 and pos < len(b):
                            del b[pos]
                        elif op < 0.7 and pos < len(b):
                            b[pos] = ch
                        else:
                            b.insert(pos, ch)
                    st = self.stmt(None, raw=b[:255])
                    hist['mutated'] += 1
                else:
                    # malformed stream 2: short random strings over a command-dense alphabet
                    k = rng.randrange(0, 9)
                    alpha = b'ABCDEFGPNLTOX<>.#+-=;0123456789 abcnlsb$%VHZ\x80'
                    st = self.stmt(None, raw=b'MB' + bytes(rng.choice(alpha) for _ in range(k)))
                    hist['random_bytes'] += 1
                stmts.append(st)
                hist['statements'] += 1
            out.append(self.mk(env, stmts))
        self.histogram = hist
        return out

    # ---- implementation
    def observe(self, case):
        cache = self.__dict__.setdefault('_obs', {})
        key = core.sha(case)
        if key not in cache:
            cache[key] = self._observe(case)
        return cache[key]

    def _observe_multi(self, case):
        """per voice: [(events, status, octave, fg, [length, tempo, fill])] for the statements it takes part in"""
        import importlib
        sound = importlib.import_module('pcbasic.basic.sound')
        table = list(sound.NOTE_FREQ)
        res = [[], [], [], []]         # voices 0..2, then the voices of all tone signals in queue order
        with common.new_session(syntax=case['syntax']) as s:
            s.start()
            impl = s._impl
            audio = queue.Queue()
            impl.queues.audio = audio
            if case['syntax'] == 'pcjr':
                s.execute('SOUND ON')
            for st in case['multi']:
                args = []
                for v, sv in enumerate(st):
                    if sv is not None:
                        s.set_variable('M%d$' % v, bytes(sv['b']))
                    args.append('' if sv is None else 'M%d$' % v)
                while args and args[-1] == '':
                    args.pop()
                s.execute('ERROR %d' % SENTINEL)
                while not audio.empty():
                    audio.get_nowait()
                status = [0, 0]
                try:
                    with core.time_limit(60):
                        s.execute('PLAY ' + ','.join(args))
                    err = s.evaluate('ERR')
                    if err != SENTINEL:
                        status = [1, int(err)]
                except Exception as e:
                    status = common.canon_exc(e)
                sigs = []
                while not audio.empty():
                    sig = audio.get_nowait()
                    if sig.event_type == 'tone':
                        sigs.append(sig.params)
                    elif sig.event_type not in ('persist', 'hush'):
                        sigs.append((0, -3.0, 0.0, True, 0))
                # the synchronisation marker: one silent signal per voice before the first tone of the statement
                synch_ok = True
                if sigs:
                    head, sigs = sigs[:3], sigs[3:]
                    synch_ok = [(h[0], h[1], bool(h[3]), h[4]) for h in head] == [(v, 0, False, 0) for v in range(3)]
                per = [[], [], []]
                for voice, freq, dur, loop, vol in sigs:
                    if voice not in (0, 1, 2) or loop or not synch_ok:
                        code = -2
                    elif freq == 0:
                        code = 0
                    elif freq in table:
                        code = table.index(freq) + 1
                    else:
                        code = -1
                    per[voice if voice in (0, 1, 2) else 0].append((code, int(vol), dur, freq))
                    res[3].append(voice)
                for v, sv in enumerate(st):
                    if sv is None:
                        if per[v]:
                            res[v].append((per[v], [2, 8], 0, 0, [0.0, 0.0, 0.0]))      # tones on an absent voice
                        continue
                    ps = impl.sound._state[v]
                    res[v].append((per[v], status, int(ps.octave), int(bool(impl.sound._foreground)),
                                   [ps.length, ps.tempo, ps.fill]))
        return res

    def _observe(self, case):
        if 'multi' in case:
            return self._observe_multi(case)
        return self._observe_single(case)

    def _observe_single(self, case):
        """[(events [(code, vol, dur)], status [a, b], octave, fg, [length, tempo, fill])] per statement"""
        import importlib
        sound = importlib.import_module('pcbasic.basic.sound')
        table = list(sound.NOTE_FREQ)
        res = []
        with common.new_session() as s:
            s.start()
            impl = s._impl
            audio = queue.Queue()
            impl.queues.audio = audio            # the recording audio back end
            for nm, e in sorted(case['env'].items()):
                full = nm if nm[-1] in '$%!#' else nm + '!'
                if e['k'] == 's':
                    s.set_variable(full, bytes(e['b']))
                elif full[-1] == '%':
                    s.set_variable(full, int(e['v']))
                else:
                    s.set_variable(full, float(e['v']))
            for st in case['stmts']:
                s.set_variable('M$', bytes(st['b']))
                s.execute('ERROR %d' % SENTINEL)
                while not audio.empty():
                    audio.get_nowait()
                status = [0, 0]
                try:
                    with core.time_limit(60):
                        s.execute('PLAY M$')
                    err = s.evaluate('ERR')
                    if err != SENTINEL:
                        status = [1, int(err)]
                except Exception as e:  # host exception (BASIC errors are handled by the session)
                    status = common.canon_exc(e)
                evs = []
                while not audio.empty():
                    sig = audio.get_nowait()
                    if sig.event_type == 'persist':
                        continue
                    if sig.event_type != 'tone':
                        evs.append((-3, 0, 0.0, 0.0))
                        continue
                    voice, freq, dur, loop, vol = sig.params
                    if voice != 0 or loop:
                        code = -2
                    elif freq == 0:
                        code = 0
                    elif freq in table:
                        code = table.index(freq) + 1
                    else:
                        code = -1
                    evs.append((code, int(vol), dur, freq))
                ps = impl.sound._state[0]
                res.append((evs, status, int(ps.octave), int(bool(impl.sound._foreground)),
                            [ps.length, ps.tempo, ps.fill]))
        return res

    def impl(self, case):
        out = []
        obs = self.observe(case)
        order = []
        if 'multi' in case:
            order = list(obs[3])
            obs = obs[0] + obs[1] + obs[2]
        for evs, status, octave, fg, fl in obs:
            out.append(len(evs))
            for ev in evs:
                out += [ev[0], ev[1], 1]
            out += status + [octave, fg, 1, 1, 1]
        return out + order

    # ---- model
    @staticmethod
    def pairs(l):
        return '[' + '; '.join('(%d, %d)' % (a, b) if a >= 0 else '((%d), %d)' % (a, b) for a, b in l) + ']'

    def env_term(self, case):
        items = []
        for nm, e in sorted(case['env'].items()):
            full = nm if nm[-1] in '$%!#' else nm + '!'
            key = core.zl(list(full.upper().encode('latin-1')))
            if e['k'] == 's':
                items.append('(%s, VStr %s)' % (key, core.zl(e['b'])))
            else:
                items.append('(%s, VNum (%d))' % (key, e['v']))
        return '[' + '; '.join(items) + ']'

    def voice_stmts(self, case, v):
        return [st[v] for st in case['multi'] if st[v] is not None]

    def model_term(self, case):
        obs = self.observe(case)
        if 'multi' in case:
            # the multi-string model play_multi (three states, the turn order of Sound.play_); its per-voice
            # independence is the theorem C42_multi_voice_independent
            pos = [0, 0, 0]
            stmts = []

            def tri(f):
                return '(%s, %s, %s)' % (f(0), f(1), f(2))
            for st in case['multi']:
                rec = []
                for v in range(3):
                    if st[v] is None:
                        rec.append(None)
                    else:
                        rec.append(obs[v][pos[v]] if pos[v] < len(obs[v]) else ([], [0, 0], 0, 0, [0, 0, 0]))
                        pos[v] += 1
                stmts.append('(%s, %s, %s, %s)' % (
                    tri(lambda v: '[]' if st[v] is None else core.zl(st[v]['b'])),
                    tri(lambda v: 'false' if st[v] is None else 'true'),
                    tri(lambda v: '[]' if rec[v] is None else self.pairs([ratio(ev[2]) for ev in rec[v][0]])),
                    tri(lambda v: '[]' if rec[v] is None else self.pairs([ratio(x) for x in rec[v][4]]))))
            return '(flat3 (play_multi_case %d [] (init_state, init_state, init_state) [%s]))' % (
                FUEL, '; '.join(stmts))
        stmts = []
        for st, (evs, status, octave, fg, fl) in zip(case['stmts'], obs):
            stmts.append('(%s, %s, %s)' % (core.zl(st['b']), self.pairs([ratio(ev[2]) for ev in evs]),
                                           self.pairs([ratio(x) for x in fl])))
        return '(play_case %d %s init_state [%s])' % (FUEL, self.env_term(case), '; '.join(stmts))

    # ---- property oracle
    def nontrivial(self, case, out):
        if 'multi' in case:
            return any(len(o[0]) > 0 for ov in self.observe(case)[:3] for o in ov)
        return any(len(o[0]) > 0 for o in self.observe(case))

    @staticmethod
    def rel_close(x, q, tol=1e-12):
        return abs(Fraction(x) - q) <= abs(q) * Fraction(tol)

    def oracle_multi(self, case):
        obs = self.observe(case)
        for v in range(3):
            st = RefState()
            stmts = self.voice_stmts(case, v)
            if len(stmts) != len(obs[v]):
                return 'voice %d: tone signals in a PLAY statement that has no string for this voice' % v
            for k, (stc, (evs, status, octave, fg, fl)) in enumerate(zip(stmts, obs[v])):
                tag = 'voice %d, its statement %d (%r): ' % (v, k, bytes(stc['b']).decode('latin-1'))
                if status != [0, 0]:
                    return tag + 'PLAY failed: %r' % (status,)
                want = []
                err = ref_run(stc['ast'], {}, st, want)
                if err:
                    return tag + 'generator produced an invalid string'
                if len(want) != len(evs):
                    return tag + 'expected %d tone signals, PLAY emitted %d' % (len(want), len(evs))
                for j, (w, ev) in enumerate(zip(want, evs)):
                    wcode = 0 if w[0] is None else w[0] + 1
                    if wcode != ev[0]:
                        return tag + 'signal %d: expected note index %r, got %r (%r Hz)' % (j, wcode - 1, ev[0] - 1, ev[3])
                    if w[2] != ev[1]:
                        return tag + 'signal %d: expected volume %d, got %d' % (j, w[2], ev[1])
                    if not self.rel_close(ev[2], w[1]):
                        return tag + 'signal %d: expected duration %s = %r s, got %r' % (j, w[1], float(w[1]), ev[2])
                if st.octave != octave:
                    return tag + 'state: expected octave %d, got %d' % (st.octave, octave)
                if not (self.rel_close(fl[0], Fraction(1, st.L)) and self.rel_close(fl[1], Fraction(240, st.T))
                        and self.rel_close(fl[2], st.fillq)):
                    return tag + 'state: expected L%s T%s fill %s, got %r' % (st.L, st.T, st.fillq, fl)
        return None

    def oracle(self, case, out):
        if 'multi' in case:
            return self.oracle_multi(case)
        obs = self.observe(case)
        st = RefState()
        env = case['env']
        for k, (stc, (evs, status, octave, fg, fl)) in enumerate(zip(case['stmts'], obs)):
            tag = 'statement %d: ' % k
            if status[0] == 2:
                return tag + 'PLAY raised a host exception (class %d)' % status[1]
            # generic reading, for every string: frequencies are table notes, durations positive, a gap follows a
            # tone only as 1/8 or 1/4 of the sum, errors are Illegal function call (or Type mismatch for a
            # variable of the wrong type)
            for j, ev in enumerate(evs):
                code, vol, dur, freq = ev
                if code < 0:
                    return tag + 'signal %d is not a one-voice tone of the note table: %r' % (j, ev)
                if code > 0:
                    want = 440.0 * 2.0 ** ((code - 34) / 12.0)
                    if abs(freq - want) > 1e-9 * want:
                        return tag + 'frequency %r is not 440*2^((%d-34)/12)' % (freq, code)
                if not dur > 0:
                    return tag + 'signal %d has duration %r' % (j, dur)
                if code == 0 and vol == 0:
                    if j == 0 or evs[j - 1][0] <= 0:
                        return tag + 'gap %d does not follow a tone' % j
                    tot = Fraction(evs[j - 1][2]) + Fraction(dur)
                    if not (self.rel_close(dur, tot / 8) or self.rel_close(dur, tot / 4)):
                        return tag + 'gap %d is %r of the note duration' % (j, float(Fraction(dur) / tot))
            if status[0] == 1 and status[1] not in (IFC, TYPE_MISMATCH) and not (
                    status[1] == MISSING_OPERAND and len(stc['b']) == 0):
                return tag + 'error %d is neither Illegal function call nor Type mismatch' % status[1]
            if not 0 <= octave <= 6:
                return tag + 'octave %d outside 0..6' % octave
            if len(stc['b']) == 0:
                # glue: PLAY "" is Missing operand (`if not any(mml_list)`), nothing is emitted
                if status != [1, MISSING_OPERAND] or evs:
                    return tag + 'PLAY "": expected Missing operand and no signal, got %r' % (status,)
                continue
            if stc['ast'] is None:
                # raw string: resynchronise the reference state from the observed one (same tolerance)
                st.octave, st.fg = octave, bool(fg)
                st.L = 1 / Fraction(fl[0]).limit_denominator(64)
                st.T = 240 / Fraction(fl[1]).limit_denominator(255)
                if st.L.denominator != 1 or st.T.denominator != 1:
                    return tag + 'state: length %r tempo %r are not 1/L, 240/T' % (fl[0], fl[1])
                st.fillq = Fraction(fl[2])
                continue
            want = []
            err = ref_run(stc['ast'], env, st, want)
            if (err or 0) != (status[1] if status[0] == 1 else 0):
                return tag + 'error: expected %r, PLAY gave %r' % (err, status)
            if len(want) != len(evs):
                return tag + 'expected %d tone signals, PLAY emitted %d' % (len(want), len(evs))
            for j, (w, ev) in enumerate(zip(want, evs)):
                wcode = 0 if w[0] is None else w[0] + 1
                if wcode != ev[0]:
                    return tag + 'signal %d: expected note index %r, got %r (%r Hz)' % (j, wcode - 1, ev[0] - 1, ev[3])
                if w[2] != ev[1]:
                    return tag + 'signal %d: expected volume %d, got %d' % (j, w[2], ev[1])
                if not self.rel_close(ev[2], w[1]):
                    return tag + 'signal %d: expected duration %s = %r s, got %r' % (j, w[1], float(w[1]), ev[2])
            if st.octave != octave or st.fg != bool(fg):
                return tag + 'state: expected octave %d fg %r, got %d %r' % (st.octave, st.fg, octave, fg)
            if not (self.rel_close(fl[0], Fraction(1, st.L)) and self.rel_close(fl[1], Fraction(240, st.T))
                    and self.rel_close(fl[2], st.fillq)):
                return tag + 'state: expected L%s T%s fill %s, got %r' % (st.L, st.T, st.fillq, fl)
        return None

    # ---- shrinking: drop statements, drop commands (re-rendered compactly), shorten raw strings
    def shrink_candidates(self, case):
        if 'multi' in case:
            m = case['multi']
            def mk(mm):
                return {'env': {}, 'syntax': case['syntax'], 'multi': mm}
            if len(m) > 1:
                for i in range(len(m)):
                    yield mk(m[:i] + m[i + 1:])
            for i, st in enumerate(m):
                for v in (1, 2):
                    if st[v] is not None:
                        yield mk(m[:i] + [[x if w != v else None for w, x in enumerate(st)]] + m[i + 1:])
                for v in range(3):
                    if st[v] is not None:
                        ast = st[v]['ast']
                        compact = self.stmt(ast)
                        if compact['b'] != st[v]['b']:
                            yield mk(m[:i] + [[x if w != v else compact for w, x in enumerate(st)]] + m[i + 1:])
                        for j in range(1, len(ast)):
                            sm = self.stmt(ast[:j] + ast[j + 1:])
                            yield mk(m[:i] + [[x if w != v else sm for w, x in enumerate(st)]] + m[i + 1:])
            return
        stmts = case['stmts']
        if len(stmts) > 1:
            for i in range(len(stmts)):
                yield self.mk(case['env'], stmts[:i] + stmts[i + 1:])
        for i, st in enumerate(stmts):
            if st['ast'] is not None:
                compact = self.stmt(st['ast'])
                if compact['b'] != st['b']:
                    yield self.mk(case['env'], stmts[:i] + [compact] + stmts[i + 1:])
                for j in range(len(st['ast'])):
                    yield self.mk(case['env'], stmts[:i] + [self.stmt(st['ast'][:j] + st['ast'][j + 1:])] + stmts[i + 1:])
            else:
                b = st['b']
                for j in range(len(b)):
                    yield self.mk(case['env'], stmts[:i] + [self.stmt(None, raw=b[:j] + b[j + 1:])] + stmts[i + 1:])
        for nm in list(case['env']):
            env = dict(case['env'])
            del env[nm]
            used = any(c[0] == 'X' and c[1] == nm or (len(c) > 1 and c[1] == ['var', nm])
                       for st in stmts if st['ast'] for c in st['ast'])
            used = used or any(c[0] == 'X' and c[1] == nm or (len(c) > 1 and c[1] == ['var', nm])
                               for e in env.values() if e['k'] == 's' for c in e['ast'])
            if not used:
                yield self.mk(env, stmts)

    def undescribe(self, d):
        return d['case'] if isinstance(d, dict) and 'case' in d else d

    def describe(self, case):
        if 'multi' in case:
            return {'syntax': case['syntax'],
                    'play': [[None if v is None else bytes(v['b']).decode('latin-1') for v in st]
                             for st in case['multi']], 'case': case}
        return {'env': dict((nm, (bytes(e['b']).decode('latin-1') if e['k'] == 's' else e['v']))
                            for nm, e in case['env'].items()),
                'play': [bytes(st['b']).decode('latin-1') for st in case['stmts']],
                'case': case}


CHECK = C42
