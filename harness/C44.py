"""C44 - TIME$, DATE$ and ENVIRON read back what was set (also the clock/environment mechanisms of C01)."""
import datetime
import os
import re
import types

from vlib import core
from harness import common

EPOCH = datetime.datetime(1, 1, 1)
US = datetime.timedelta(microseconds=1)


def Z(n):
    return '(%d)' % n if n < 0 else '%d' % n


def to_us(dt):
    return (dt - EPOCH) // US


def from_us(n):
    return EPOCH + datetime.timedelta(microseconds=n)


class FrozenDT(datetime.datetime):
    frozen = None

    @classmethod
    def now(cls, tz=None):
        f = cls.frozen
        return cls(f.year, f.month, f.day, f.hour, f.minute, f.second, f.microsecond)


def fake_datetime_module():
    m = types.ModuleType('datetime')
    m.datetime = FrozenDT
    m.timedelta = datetime.timedelta
    return m


TIME_POOL = [b'12:34:56', b'0', b'23', b'24', b'23:59:59', b'23:60', b'0:0:60', b'7:5', b'1.2.3', b'1:2.3', b'',
             b':', b'::', b'1:', b':1', b'-1:00:00', b'1:-5', b'+5', b' 5 ', b'1_0:00', b'1__0', b'_1', b'1_',
             b'1:2:3:4', b'a', b'1a', b'12:ab', b'\x00', b'1\x00', b'\xff', b'00:00:00', b'007:001', b'1e1',
             b'0x10', b'1 2', b'\t3\n', b'3 :4', b'99999999999999999999', b'-0', b'+-1', b'..', b'1..2', b'.5']
DATE_POOL = [b'01-01-80', b'12-31-99', b'01-01-00', b'02-29-00', b'02-30-2000', b'02-29-2001', b'12/31/2099',
             b'1/1/2100', b'01-01-1979', b'01-01-78', b'01-01-79', b'01-01-77', b'13-01-2000', b'00-01-2000',
             b'01-00-2000', b'01-32-2000', b'04-31-2000', b'1-1-1', b'', b'--', b'1-1', b'1-1-1-1', b'a-b-c',
             b'+1-+1-+80', b' 1 - 1 - 80 ', b'1_0-01-80', b'-1-01-2000', b'1/1-2000', b'02-29-1900', b'02-29-80',
             b'06-15-100', b'06-15-0100', b'06-15-1980', b'6.15.80', b'\x001-1-80', b'01-01-080']
NAME_POOL = [b'ZQA', b'zqa', b'ZqA', b'ZQB', b'zq_b', b'ZQ1', b'Z Q', b'zq.c', b'ZQ\x01', b'ZQ\x7f', b'', b'=',
             b'ZQ\x00', b'ZQ\xe9', b'\xff', b'zqlong' + b'x' * 40, b'ZQ=X']
VALUE_POOL = [b'', b'x', b'hello world', b'a=b', b'==', b'\x01\x02', b'\x7f', b'\x00', b'a\x00b', b'\xe9\xff\x80',
              b'v' * 200, b' lead', b'trail ', b'MiXeD']


def rand_str(rng, pool, alphabet):
    r = rng.random()
    if r < 0.45:
        return rng.choice(pool)
    if r < 0.8:
        # mutate a pool entry
        b = bytearray(rng.choice(pool))
        for _ in range(rng.randrange(1, 3)):
            op = rng.randrange(3)
            pos = rng.randrange(len(b) + 1)
            if op == 0 and b:
                del b[min(pos, len(b) - 1)]
            elif op == 1:
                b.insert(pos, rng.choice(alphabet))
            elif b:
                b[min(pos, len(b) - 1)] = rng.choice(alphabet)
        return bytes(b)
    return bytes(rng.choice(alphabet) for _ in range(rng.randrange(0, 10)))


class C44(core.Check):
    ID = 'C44'
    GEN = []
    PROPS = 'props/C44.v'
    MODEL_IMPORTS = ['model.Clock', 'model.Environ']
    QUICK_CASES = 1500
    THOROUGH_CASES = 8000
    TRUSTED = ['host clock contract: datetime.now()+offset is a valid datetime and datetime arithmetic is linear in '
               'microseconds (model/Clock.v works on integer microseconds since 0001-01-01)',
               'Python int(bytes) grammar and datetime constructor ranges modelled by hand (py_int, mk_datetime), tied by correspondence',
               'host environment contract: os.environ behaves as an insertion-ordered map that refuses NUL, "=" in names and empty names',
               'codepage conversion of ENVIRON values abstracted as Section variables (round trip is property C41)']
    RULE = ('time/date: byte strings from a pool of valid and malformed forms + mutations + random over the '
            'alphabet {digits : . - / + _ space NUL letters 0xFF}, host instants incl. 23:59:59.999999, leap days, '
            'year ends, prior offsets; the real Clock runs with datetime.now frozen in the harness process. '
            'environ: histories of ENVIRON statements and ENVIRON$ lookups (name and index form) on a cleared '
            'os.environ. non-trivial = the statement was accepted (Ok) for time/date, at least one accepted '
            'ENVIRON for env histories; distinct by hash of (case, output)')

    def __init__(self, tier, seed):
        core.Check.__init__(self, tier, seed)
        self._sess = None

    # ------------------------------------------------------------- cases
    def corpus(self):
        host = to_us(datetime.datetime(2026, 9, 22, 10, 11, 12, 345678))
        c = []
        for s in TIME_POOL:
            c.append({'k': 'time', 'host': host, 'off': 0, 's': list(s), 'delta': 1500000})
        for s in DATE_POOL:
            c.append({'k': 'date', 'host': host, 'off': 0, 's': list(s)})
        c.append({'k': 'env', 'ops': [['set', list(b'ZQA=1')], ['get', list(b'zqa')], ['set', list(b'A=\x00')],
                                      ['set', list(b'A\x00=1')], ['get', list(b'ZQA')], ['idx', 1], ['idx', 2],
                                      ['idx', 0], ['idx', 256]]})
        return c

    def rand_host(self):
        rng = self.rng
        r = rng.random()
        if r < 0.3:
            base = rng.choice([datetime.datetime(2026, 9, 22, 23, 59, 59, 999999), datetime.datetime(2024, 2, 29, 0, 0, 0, 0),
                               datetime.datetime(1999, 12, 31, 23, 59, 59, 1), datetime.datetime(2000, 3, 1, 12, 0, 0, 500000),
                               datetime.datetime(2099, 12, 31, 23, 59, 58, 0), datetime.datetime(1980, 1, 1, 0, 0, 1, 0)])
        else:
            base = datetime.datetime(rng.randrange(1971, 2100), rng.randrange(1, 13), rng.randrange(1, 29),
                                     rng.randrange(24), rng.randrange(60), rng.randrange(60), rng.randrange(1000000))
        return to_us(base)

    def gen_cases(self, n):
        rng = self.rng
        hist = {'time': 0, 'date': 0, 'env': 0}
        talpha = list(b'0123456789:.-+_ \t\x00a\xff/')
        out = []
        for i in range(n):
            r = i % 10
            host = self.rand_host()
            off = 0 if rng.random() < 0.5 else rng.randrange(-40 * 365 * 86400, 40 * 365 * 86400) * 1000000 + rng.randrange(1000000)
            # keep now = host+off inside 1900..2200
            now = from_us(host + off)
            if not (1900 <= now.year <= 2200):
                off = 0
            if r < 4:
                delta = rng.choice([0, 1, 999999, 1000000, 59000000, 3600000000, 86400000000 - 1, rng.randrange(0, 2 * 86400000000)])
                out.append({'k': 'time', 'host': host, 'off': off, 's': list(rand_str(rng, TIME_POOL, talpha)), 'delta': delta})
                hist['time'] += 1
            elif r < 8:
                out.append({'k': 'date', 'host': host, 'off': off, 's': list(rand_str(rng, DATE_POOL, talpha))})
                hist['date'] += 1
            else:
                ops = []
                for _ in range(rng.randrange(1, 8)):
                    q = rng.random()
                    if q < 0.5:
                        nm = rand_str(rng, NAME_POOL, list(b'ZQzq=\x00\xe9 1'))
                        val = rand_str(rng, VALUE_POOL, list(b'ab=\x00\xe9 \x01'))
                        ops.append(['set', list(nm + b'=' + val) if rng.random() < 0.9 else list(nm)])
                    elif q < 0.85:
                        ops.append(['get', list(rand_str(rng, NAME_POOL, list(b'ZQzq=\x00\xe9 1')))])
                    else:
                        ops.append(['idx', rng.choice([0, 1, 2, 3, 255, 256, -1, 7])])
                case = {'k': 'env', 'ops': ops}
                if rng.random() < 0.35:
                    # host variables with lower- or mixed-case names exist before the session (seed C44f): ENVIRON$ by name never
                    # sees them (names are upper-cased), ENVIRON$(n) lists them; their names are then also used by the program
                    init = []
                    for _ in range(rng.randrange(1, 3)):
                        nm = rng.choice([b'c44_probe', b'Mixed', b'path', b'zq', b'Zq', b'http_proxy', b'a'])
                        if nm not in [bytes(x[0]) for x in init]:
                            init.append([list(nm), list(rng.choice([b'from-host', b'h', b'']))])
                    case['init'] = init
                    for nm, _v in init:
                        pos = rng.randrange(len(ops) + 1)
                        ops.insert(pos, ['get', nm])
                        ops.insert(pos, ['set', nm + list(b'=from-basic')])
                        ops.append(['get', [x - 32 if 97 <= x <= 122 else x for x in nm]])
                out.append(case)
                hist['env'] += 1
        self.histogram = hist
        return out

    # ------------------------------------------------------------- implementation
    def session(self):
        if self._sess is None:
            import pcbasic.basic.clock as clockmod
            self._clockmod = clockmod
            clockmod.datetime = fake_datetime_module()
            self._sess = common.new_session()
            self._sess.start()
        return self._sess

    def _str(self, b):
        return self._sess._impl.values.new_string().from_str(bytes(b))

    def impl(self, case):
        s = self.session()
        impl = s._impl
        if case['k'] in ('time', 'date'):
            clock = impl.clock
            clock.time_offset = datetime.timedelta(microseconds=case['off'])
            FrozenDT.frozen = from_us(case['host'])
            try:
                with core.time_limit(20):
                    if case['k'] == 'time':
                        clock.time_(iter([self._str(case['s'])]))
                    else:
                        clock.date_(iter([self._str(case['s'])]))
            except Exception as e:
                new_off = clock.time_offset // US
                res = common.canon_exc(e)
                # "changes nothing" is part of the output
                return res + [new_off - case['off']]
            new_off = clock.time_offset // US
            if case['k'] == 'time':
                FrozenDT.frozen = from_us(case['host'] + case['delta'])
                shown = clock.time_fn_(iter([])).to_str()
            else:
                shown = clock.date_fn_(iter([])).to_str() + b'|' + clock.time_fn_(iter([])).to_str()
            return [0, new_off - case['off']] + list(shown)
        # environment history on a cleared os.environ
        saved = dict(os.environ)
        out = []
        try:
            os.environ.clear()
            for nm, v in case.get('init', []):
                os.environ[bytes(nm).decode('ascii')] = bytes(v).decode('ascii')
            env = impl.environment
            for op in case['ops']:
                try:
                    if op[0] == 'set':
                        env.environ_statement_(iter([self._str(op[1])]))
                        out += [0]
                    elif op[0] == 'get':
                        r = env.environ_([self._str(op[1])]).to_str()
                        out += [0, len(r)] + list(r)
                    else:
                        r = env.environ_([impl.values.new_integer().from_int(op[1])]).to_str()
                        out += [0, len(r)] + list(r)
                except Exception as e:
                    out += common.canon_exc(e)
        finally:
            os.environ.clear()
            os.environ.update(saved)
        return out

    # ------------------------------------------------------------- model
    def model_term(self, case):
        if case['k'] == 'time':
            return ('(let r := time_set %d %s %s in match r with Ok o => [0; o - %s] ++ time_fn (%d + %d) o '
                    '| Err e => [1; e; 0] | Host x => [2; x; 0] | OutOfFuel => [3] end)'
                    % (case['host'], Z(case['off']), core.zl(case['s']), Z(case['off']), case['host'], case['delta']))
        if case['k'] == 'date':
            return ('(let r := date_set %d %s %s in match r with Ok o => [0; o - %s] ++ date_fn %d o ++ [124] ++ time_fn %d o '
                    '| Err e => [1; e; 0] | Host x => [2; x; 0] | OutOfFuel => [3] end)'
                    % (case['host'], Z(case['off']), core.zl(case['s']), Z(case['off']), case['host'], case['host']))
        # environment: fold the ops in Coq
        steps = []
        for op in case['ops']:
            if op[0] == 'set':
                steps.append('(inl %s)' % core.zl(op[1]))
            elif op[0] == 'get':
                steps.append('(inr (inl %s))' % core.zl(op[1]))
            else:
                steps.append('(inr (inr %s))' % ('(%d)' % op[1] if op[1] < 0 else '%d' % op[1]))
        init = '; '.join('(%s, %s)' % (core.zl(nm), core.zl(v)) for nm, v in case.get('init', []))
        return '(env_run [%s] [%s])' % (init, '; '.join(steps))

    MODEL_PRELUDE = None

    # ------------------------------------------------------------- oracle (direct reading of the property)
    @staticmethod
    def _fields(s, seps):
        for x in seps[1:]:
            s = s.replace(x, seps[0])
        return [f.strip(b' \t\n\r\x0b\x0c') for f in s.split(seps[0])]

    def oracle(self, case, out):
        if 2 in out[:1]:
            return 'host exception escaped: %r' % (out,)
        if case['k'] == 'time':
            s = bytes(case['s'])
            f = self._fields(s, [b':', b'.'])
            valid = 1 <= len(f) <= 3 and all(x.isdigit() for x in f)
            if valid:
                h, m, sec = ([int(x) for x in f] + [0, 0])[:3]
                valid = h <= 23 and m <= 59 and sec <= 59
            if out[0] == 1:
                if out[1] != 5:
                    return 'invalid TIME$ gave error %d, not Illegal function call' % out[1]
                if out[2] != 0:
                    return 'rejected TIME$ changed the clock offset'
                if valid:
                    return 'valid time %r rejected' % s
            elif out[0] == 0:
                if not valid:
                    return 'invalid time %r accepted' % s
                now_us = (case['host'] + case['off']) % 1000000
                t = (h * 3600 + m * 60 + sec + (now_us + case['delta']) // 1000000) % 86400
                exp = b'%02d:%02d:%02d' % (t // 3600, t // 60 % 60, t % 60)
                if bytes(out[2:]) != exp:
                    return 'TIME$ shows %r after setting %r and %d us, expected %r' % (bytes(out[2:]), s, case['delta'], exp)
        elif case['k'] == 'date':
            s = bytes(case['s'])
            f = self._fields(s, [b'-', b'/'])
            valid = len(f) == 3 and all(x.isdigit() for x in f)
            if valid:
                m, d, y = [int(x) for x in f]
                yy = 2000 + y if y <= 77 else 1900 + y if 80 <= y <= 99 else y if 1980 <= y <= 2099 else None
                valid = False
                if yy is not None:
                    try:
                        datetime.date(yy, m, d)
                        valid = True
                    except ValueError:
                        valid = False
            if out[0] == 1:
                if out[1] != 5:
                    return 'invalid DATE$ gave error %d, not Illegal function call' % out[1]
                if out[2] != 0:
                    return 'rejected DATE$ changed the clock offset'
                if valid:
                    return 'valid date %r rejected' % s
            elif out[0] == 0:
                if not valid:
                    return 'invalid date %r accepted' % s
                now = from_us(case['host'] + case['off'])
                exp = b'%02d-%02d-%04d|%02d:%02d:%02d' % (m, d, yy, now.hour, now.minute, now.second)
                if bytes(out[2:]) != exp:
                    return 'DATE$/TIME$ show %r after setting %r, expected %r' % (bytes(out[2:]), s, exp)
        else:
            # reference: dict with upper-cased ASCII names
            ref = {}
            order = []
            pos = 0
            for op in case['ops']:
                if out[pos] == 2:
                    return 'host exception escaped from ENVIRON: %r' % (out[pos:pos + 2],)
                if op[0] == 'set':
                    b = bytes(op[1])
                    eq = b.find(b'=')
                    ok = eq > 0 and all(c < 128 for c in b[:eq]) and 0 not in b
                    if out[pos] == 0:
                        if not ok:
                            return 'invalid ENVIRON %r accepted' % b
                        k = b[:eq].upper()
                        if k not in ref:
                            order.append(k)
                        ref[k] = b[eq + 1:]
                        pos += 1
                    else:
                        if out[pos + 1] != 5:
                            return 'ENVIRON error %d' % out[pos + 1]
                        if ok:
                            return 'valid ENVIRON %r rejected' % b
                        pos += 2
                elif op[0] == 'get':
                    b = bytes(op[1])
                    if out[pos] == 0:
                        n = out[pos + 1]
                        got = bytes(out[pos + 2:pos + 2 + n])
                        if b and all(c < 128 for c in b) and got != ref.get(b.upper(), b''):
                            return 'ENVIRON$(%r) = %r, expected %r' % (b, got, ref.get(b.upper(), b''))
                        pos += 2 + n
                    else:
                        pos += 2
                else:
                    if out[pos] == 0:
                        pos += 2 + out[pos + 1]
                    else:
                        pos += 2
        return None

    def nontrivial(self, case, out):
        return out[:1] == [0]


CHECK = C44
