"""C08 - PRINT USING produces fields of the declared width with correctly rounded digits."""
import math
import os
import re
from fractions import Fraction

from vlib import core
from harness import common

IFC, TYPE_MISMATCH = 5, 13

# ---------------------------------------------------------------------------------------------------
# values:  ['$', [bytes]] | ['%', n] | ['!', mant, exp2] | ['#', mant, exp2]     (value = mant * 2**exp2)

def val_fraction(v):
    if v[0] == '%':
        return Fraction(v[1])
    m, e = v[1], v[2]
    return Fraction(m) * (Fraction(2) ** e)


def val_float(v):
    return math.ldexp(v[1], v[2])


def mbf_bytes(v):
    """Microsoft Binary Format bytes of ['!'|'#', mant, exp2] (exact; the value must be representable)."""
    nb = 56 if v[0] == '#' else 24
    M, e = v[1], v[2]
    if M == 0:
        return bytes(nb // 8 + 1)
    neg = M < 0
    M = abs(M)
    while M < (1 << (nb - 1)):
        M <<= 1
        e -= 1
    E = e + nb + 128
    if M >= (1 << nb) or not 1 <= E <= 255:
        raise ValueError('not representable: %r' % (v,))
    b = bytearray((M - (1 << (nb - 1))).to_bytes(nb // 8, 'little'))
    if neg:
        b[-1] |= 0x80
    return bytes(b) + bytes([E])


def single_of(x):
    """['!', mant, exp2] of the single nearest to the python float / Fraction x."""
    x = Fraction(x)
    if x == 0:
        return ['!', 0, 0]
    neg = x < 0
    x = abs(x)
    e = 0
    # scale the mantissa into [2^23, 2^24)
    while x >= (1 << 24):
        x /= 2
        e += 1
    while x < (1 << 23):
        x *= 2
        e -= 1
    m = int(x + Fraction(1, 2))
    if m == (1 << 24):
        m, e = m >> 1, e + 1
    while m % 2 == 0:
        m, e = m // 2, e + 1
    return ['!', -m if neg else m, e]


def double_of(x):
    f = float(x)
    if f == 0:
        return ['#', 0, 0]
    m, e = math.frexp(f)
    m = int(m * (1 << 53))
    e -= 53
    while m % 2 == 0:
        m, e = m // 2, e + 1
    return ['#', m, e]


def sig_digits(q):
    """number of significant decimal digits of a terminating Fraction, None if it does not terminate
    within 40 digits."""
    q = abs(q)
    if q == 0:
        return 0
    n = 0
    while q.denominator != 1:
        q *= 10
        n += 1
        if n > 60:
            return None
    s = str(q.numerator).rstrip('0')
    return len(s)


def round_half_up(q):
    """nearest integer of a non-negative Fraction, halves up (= away from zero on the absolute value)."""
    return (q + Fraction(1, 2)).__floor__()


def floor_log10(q):
    """floor(log10(q)) for a positive Fraction, exactly."""
    k = len(str(q.numerator)) - len(str(q.denominator))
    while Fraction(10) ** k > q:
        k -= 1
    while Fraction(10) ** (k + 1) <= q:
        k += 1
    return k


# ---------------------------------------------------------------------------------------------------
# independent reference of the format-string grammar (the property's reading, not the Coq model)

NUM_RE = re.compile(rb'(\+)?(\*\*\$|\*\*|\$\$)?((?:#[#,]*)?)((?:\.#*)?)((?:\^\^\^\^)?)')
STR_RE = re.compile(rb'!|&|\\ *\\')


class NumSpec(object):
    def __init__(self, text, lead_plus, prefix, ipart, fpart, exp, trail):
        self.text = text
        self.width = len(text)
        self.lead_plus = lead_plus
        self.star = prefix.startswith(b'**')
        self.dollar = b'$' in prefix
        self.before = {b'': 0, b'**': 2, b'$$': 1, b'**$': 2}[prefix] + len(ipart)
        self.comma = b',' in ipart
        self.dot = fpart != b''
        self.decimals = max(0, len(fpart) - 1)
        self.exp = exp != b''
        self.trail = trail           # b'', b'+', b'-'


def ref_items(fmt):
    """[('lit', byte) | ('str', word) | ('num', NumSpec)] per the GW-BASIC PRINT USING grammar."""
    items = []
    i = 0
    while i < len(fmt):
        c = fmt[i:i + 1]
        if c == b'_':
            items.append(('lit', fmt[i + 1:i + 2] or b'_'))
            i += 2
            continue
        mo = STR_RE.match(fmt, i)
        if mo:
            items.append(('str', mo.group(0)))
            i = mo.end()
            continue
        mo = NUM_RE.match(fmt, i)
        lead, prefix, ipart, fpart, exp = [g or b'' for g in mo.groups()]
        j = mo.end()
        trail = b''
        if not lead and fmt[j:j + 1] in (b'+', b'-'):
            trail = fmt[j:j + 1]
            j += 1
        npos = {b'': 0, b'**': 2, b'$$': 1, b'**$': 2}[prefix] + len(ipart) + max(0, len(fpart) - 1)
        if npos > 0:
            items.append(('num', NumSpec(fmt[i:j], bool(lead), prefix, ipart, fpart, exp, trail)))
            i = j
            continue
        items.append(('lit', c))
        i += 1
    return items


def ref_segments(items):
    """head literal bytes and [(field item, literal bytes following it)]."""
    head = b''
    segs = []
    for it in items:
        if it[0] == 'lit':
            if segs:
                segs[-1][1] += it[1]
            else:
                head += it[1]
        else:
            segs.append([it, b''])
    return head, segs


def group3(digits):
    out = b''
    for i, ch in enumerate(digits):
        if i and (len(digits) - i) % 3 == 0:
            out += b','
        out += bytes([ch])
    return out


class Mismatch(Exception):
    pass


def check_number_piece(spec, v, data, pos):
    """Check the output of one numeric field at data[pos:]; return (new position, kind of digit check).
    Direct reading of the property: width or %-overflow, sign/$/fill/comma/exponent placement, digits =
    the value rounded at the field's last decimal (exactly for values with a short exact expansion,
    within one unit of the 7th/16th significant digit otherwise)."""
    q = val_fraction(v)
    neg = q < 0
    q = abs(q)
    zero = (q == 0)
    dbl = v[0] == '#'
    prec = 16 if dbl else 7
    W = spec.width
    overflow = data[pos:pos + 1] == b'%'
    # the text of the number: [sign][$]digits[.digits][E+dd][sign]
    if spec.lead_plus:
        lead, post = (b'-' if neg else b'+'), b''
    elif spec.trail == b'+':
        lead, post = b'', (b'-' if neg else b'+')
    elif spec.trail == b'-':
        lead, post = b'', (b'-' if neg else b' ')
    else:
        lead, post = (b'-' if neg else b''), b''
    dollar = b'$' if spec.dollar else b''
    if overflow:
        head_re = rb'%' + re.escape(lead + dollar)
    else:
        head_re = (rb'\**' if spec.star else rb' *') + re.escape(lead + dollar)
    letter = b'D' if dbl else b'E'
    if spec.exp:
        db = spec.before if (spec.lead_plus or spec.trail or spec.dollar) else max(0, spec.before - 1)
        da = spec.decimals
        if zero:
            # GW prints E+00 / 0D+00 / .000E+00 for zero
            num_res = [rb'([0.]*)()()' + letter + rb'(\+)(00)']
        else:
            int_re = rb'(0?)' if db == 0 else rb'([0-9]{%d})' % db
            frac_re = (rb'(\.)([0-9]{%d})' % da) if (da > 0 or spec.dot) else rb'()()'
            num_res = [int_re + frac_re + letter + rb'([+-])([0-9]{2})']
    else:
        frac_re = (rb'(\.)([0-9]{%d})' % spec.decimals) if spec.dot else rb'()()'
        if overflow and not spec.dot and not post:
            # nothing delimits the integer digits: their number follows from the value (+-1 for rounding)
            nd0 = len(str(round_half_up(q)))
            num_res = []
            for nd in (nd0, nd0 + 1, nd0 - 1):
                if nd >= 1:
                    num_res.append((rb'([0-9,]{%d})' % (nd + ((nd - 1) // 3 if spec.comma else 0))) + frac_re)
        else:
            num_res = [rb'([0-9,]*)' + frac_re]
    first_error = None
    for num_re in num_res:
        try:
            return _check_piece(spec, q, zero, dbl, prec, W, overflow, data, pos,
                                re.compile(head_re + num_re + re.escape(post)))
        except Mismatch as e:
            first_error = first_error or e
    raise first_error


def _check_piece(spec, q, zero, dbl, prec, W, overflow, data, pos, rx):
    if overflow:
        mo = rx.match(data, pos)
    else:
        mo = rx.fullmatch(data, pos, min(len(data), pos + W))
    if not mo:
        raise Mismatch('field %r value %s: output %r is not %s of the shape [fill][sign][$]digits[exponent][sign]'
                       % (spec.text, float(q), data[pos:pos + W + 6],
                          'a %-overflow' if overflow else 'exactly %d characters' % W))
    end = mo.end()
    if overflow:
        # declared-width clause, independent of the model: '%' only when the value genuinely does not fit,
        # i.e. its shortest text [sign][$]digits[.decimals][E+dd][sign] - without the optional zero before the
        # point, which is printed only "if there is space" - is longer than the field
        droppable = 1 if (mo.group(1) == b'0' and mo.group(2) and (mo.group(3) or spec.exp)) else 0
        need = end - pos - 1 - droppable
        if need <= W:
            raise Mismatch('field %r (declared width %d) value %s: wrote %d characters %r, but the number needs '
                           'only %d and fits the field' % (spec.text, W, float(q), end - pos, mo.group(0), need))
    if not overflow and end - pos != W:
        raise Mismatch('field %r value %s: wrote %d characters %r, declared width %d'
                       % (spec.text, float(q), end - pos, data[pos:end], W))
    ip, dotch, fp = mo.group(1), mo.group(2), mo.group(3)
    if not overflow and dotch and not ip and data[pos:pos + 1] in (b' ', b'*') and not (spec.exp and zero):
        # GW-BASIC manual: a digit position before the point always prints a digit (0 if necessary)
        raise Mismatch('field %r value %s: %r has room for a digit before the point but none is printed'
                       % (spec.text, float(q), mo.group(0)))
    if spec.exp:
        if zero:
            return end, 'zero'
        expo = int(mo.group(5)) * (-1 if mo.group(4) == b'-' else 1)
        db = spec.before if (spec.lead_plus or spec.trail or spec.dollar) else max(0, spec.before - 1)
        da = len(fp)
        digits = (ip if db else b'') + fp
        if not digits:
            # no digit positions (the only one went to the sign): nothing but E+dd is shown; by the code
            # (C08_no_digit_exponent) dd = number of divisions by ten that bring the value below 1: the
            # count of integer digits for |x| >= 1 (" E+01" for 1, documented as GW-BASIC's output; off by one
            # is tolerated within 2^-22 of a power of ten, where the inexact division decides), 0 for |x| < 1
            nint = floor_log10(q) + 1 if q >= 1 else 0
            eps = Fraction(1, 1 << 22)
            near_up = q >= Fraction(10) ** nint * (1 - eps)            # within rounding of the next power of ten
            near_down = q >= 1 and q <= Fraction(10) ** (nint - 1) * (1 + eps)
            if expo != nint and not (near_up and expo == nint + 1) and not (near_down and expo == nint - 1):
                raise Mismatch('field %r value %s: exponent %d, the value has %d integer digits'
                               % (spec.text, float(q), expo, nint))
            return end, 'nodigits'
        if digits[:1] == b'0':
            raise Mismatch('field %r value %s: mantissa %r not normalised' % (spec.text, float(q), mo.group(0)))
        unit = Fraction(10) ** (expo - da)
        shown = int(digits) * unit
        nshown = len(digits)
    else:
        digits = ip.replace(b',', b'')
        if b',' in ip:
            if not spec.comma:
                raise Mismatch('field %r: thousands separators in %r' % (spec.text, mo.group(0)))
            if ip != group3(digits):
                raise Mismatch('field %r: commas not every three digits in %r' % (spec.text, mo.group(0)))
        elif spec.comma and len(digits) > 3:
            raise Mismatch('field %r: no thousands separators in %r' % (spec.text, mo.group(0)))
        if len(digits) > 1 and digits[:1] == b'0':
            raise Mismatch('field %r: leading zeros in %r' % (spec.text, mo.group(0)))
        if not digits and not fp:
            raise Mismatch('field %r: no digits in %r' % (spec.text, mo.group(0)))
        unit = Fraction(10) ** (-spec.decimals)
        shown = int(digits + fp or b'0') * unit
        nshown = None
    # ---- digits: the value rounded at `unit`
    if zero:
        if shown != 0:
            raise Mismatch('field %r: zero printed as %r' % (spec.text, mo.group(0)))
        return end, 'zero'
    exact = round_half_up(q / unit) * unit
    nsig = sig_digits(q)
    lead_unit = Fraction(10) ** (floor_log10(q) - (prec - 1))      # one unit of the last significant digit
    if nsig is not None and nsig <= prec - 1 and (nshown is None or nshown <= prec):
        # short exact decimal expansion: the rounding must be exact (halves away from zero)
        if shown != exact:
            raise Mismatch('field %r value %s: shows %s, the value rounded to the field is %s'
                           % (spec.text, q, shown, exact))
        return end, 'exact'
    if abs(shown - q) > unit / 2 + lead_unit:
        raise Mismatch('field %r value %s: shows %s, off by more than half a unit of the last place '
                       '(+ one unit of digit %d)' % (spec.text, float(q), float(shown), prec))
    return end, 'close'


def ref_check(fmt, vals, trailing, status, code, data):
    """Compare the observed result of PRINT USING with the reference reading.  Returns a dict of counters;
    raises Mismatch with a description."""
    stats = {}
    if fmt == b'':
        if (status, code, data) != (1, IFC, b''):
            raise Mismatch('empty format string must give Illegal function call')
        return stats
    items = ref_items(fmt)
    head, segs = ref_segments(items)
    if not segs:
        if (status, code, data) != (1, IFC, head):
            raise Mismatch('format without fields: expected literal text %r then Illegal function call' % head)
        return stats
    pos = 0
    k = 0

    def expect(lit, what):
        nonlocal pos
        if data[pos:pos + len(lit)] != lit:
            raise Mismatch('%s: expected %r at offset %d, output has %r' % (what, lit, pos, data[pos:pos + len(lit) + 3]))
        pos += len(lit)

    for i, v in enumerate(vals):
        it, lits = segs[k]
        if k == 0:
            expect(head, 'literal text before the first field')
        err = None
        if (it[0] == 'str') != (v[0] == '$'):
            err = TYPE_MISMATCH
        elif it[0] == 'num' and it[1].before + it[1].decimals > 24:
            err = IFC
        if err is not None:
            if (status, code) != (1, err) or pos != len(data):
                raise Mismatch('value %d in field %r: expected error %d after %r, got status %s code %s output %r'
                               % (i, it[1] if it[0] == 'str' else it[1].text, err, data[:pos], status, code, data))
            stats['err%d' % err] = 1
            return stats
        if it[0] == 'str':
            s = bytes(v[1])
            w = it[1]
            if w == b'&':
                want = s
            elif w == b'!':
                want = s[:1] or b' '
            else:
                want = s[:len(w)].ljust(len(w))
            expect(want, 'string field %r with %r' % (w, s))
            stats['str'] = stats.get('str', 0) + 1
        else:
            pos, kind = check_number_piece(it[1], v, data, pos)
            stats[kind] = stats.get(kind, 0) + 1
        expect(lits, 'literal text after field %d' % k)
        k = (k + 1) % len(segs)
    if status != 0:
        raise Mismatch('unexpected error %s after all values were formatted' % code)
    tail = b'' if trailing else b'\r\n'
    if data[pos:] != tail:
        raise Mismatch('after the last value: expected %r, output has %r' % (tail, data[pos:]))
    return stats


# ---------------------------------------------------------------------------------------------------

class Refused(Exception):
    pass


def pack(data):
    """compact canonical encoding of a byte string: length, then 7 bytes per integer (big-endian)"""
    data = bytes(data)
    return [len(data)] + [int.from_bytes(data[i:i + 7], 'big') for i in range(0, len(data), 7)]


def unpack(ints):
    n = ints[0]
    out = b''
    for i, x in enumerate(ints[1:]):
        k = min(7, n - 7 * i)
        out += x.to_bytes(k, 'big')
    return out


def hexs(b):
    return '(hexz "%s"%%string)' % bytes(b).hex()


FIELD_ALPHABET = b'#.,+-$*^!&\\ _%0aE'


class C08(core.Check):
    ID = 'C08'
    GEN = ['gen_mbf', 'gen_dec', 'gen_using']
    PROPS = 'props/C08.v'
    MODEL_IMPORTS = ['gen.Gen_using', 'model.Using', 'model.UsingDec']
    QUICK_CASES = 1100
    THOROUGH_CASES = 16000
    TRUSTED = ['hand model model/Using.v of formatter.py (StringField/NumberField scanners and format, '
               '_print_using) and of numbers.Float.to_str_fixed/to_str_scientific/_group_thousands/'
               '_scientific_notation/_decimal_notation/_get_digits, tied by correspondence on the bytes a real '
               'Session writes for PRINT#1,USING (file) and PRINT USING (screen); the digit limit, error '
               'numbers and the rounding/carry arithmetic are regenerated (gen_using)',
               'Float.to_decimal is no longer an input: model/UsingDec.v computes it from the MBF bytes of the '
               'value with the regenerated core of property C07 (gen/Gen_dec.v mbf_to_decimal_core, mbf_iabs) '
               'and the limit byte strings of every precision dumped by gen_using from the repository\'s '
               'from_int/_just_under; which limits belong to which precision (the three-way branch of '
               'to_decimal) is checked on the AST and by correspondence',
               'the while-loop of _print_using is modelled as tokenisation followed by passes; expression '
               'evaluation order/laziness of the value list, the type check of the format expression and '
               'to_float() of integer values are outside the model (the harness passes the bytes of '
               'value.to_float())']
    PARTIAL = ('the clause "digits equal the value rounded to the field\'s decimal places" is proved outright '
               'for integer-valued numbers below 10^7/10^16 in every fixed-point field (C08_int_fixed_exact, '
               'to_decimal computed from the bytes) and, for all (mantissa, exponent) pairs, for the '
               'arithmetic to_str_fixed/to_str_scientific do themselves (C08_fixed_rounding, C08_round_small, '
               'C08_sci_pair); for non-integer values it remains relative to the result of Float.to_decimal, '
               'whose accumulated error bound is open in C07 (C08_digits_statement is kept unproved); the '
               'oracle tests it: exact equality with round-half-away for values with a short exact decimal '
               'expansion, half a unit of the last place + one unit of the 7th/16th significant digit otherwise')
    RULE = ('every case is one PRINT#1,USING F$;values (bytes appended to a real disk file) or PRINT USING '
            '(screen text) statement in a Session with the format string and the values set as variables '
            '(integers, exactly representable singles and doubles, byte strings); output bytes + error number '
            'compared with the Coq model and checked by an independent reference (regex grammar, Fraction '
            'rounding); equal values of a case are one variable (scalar or array element) so the same variable '
            'is formatted repeatedly, and every float variable is read back after the statement (must be '
            'unchanged). non-trivial = no error and at least one field formatted; distinct by hash')
    histogram = None

    # ------------------------------------------------------------------ pools
    def _num_values(self):
        """boundary pool of numeric values"""
        pool = []
        S, D = single_of, double_of
        for x in ['0', '1', '-1', '0.5', '-0.5', '0.05', '0.06', '0.04', '0.006', '0.0051', '0.0006', '0.001',
                  '9.996', '9.994', '99.96', '0.96', '0.996', '9.5', '9.6', '96', '2.5', '1.5', '0.125', '0.375',
                  '0.25', '12.5', '99.5', '999.5', '99999.5', '0.095', '1234567', '12345678', '1000', '999',
                  '1000000', '-1000', '100', '10', '0.1', '0.01', '123.456', '-123.456', '2337.3', '2000345.678',
                  '9999999', '0.9999999', '1e10', '1e-10', '1e38', '1e-38', '-1e38', '1.5e-39', '16777215',
                  '0.0000001', '123456.7', '5', '0.3', '0.7', '32767', '-32768', '65535', '1e15', '1e16', '1e17',
                  '999999999999999', '9999999999999999', '0.000000000000001', '1e24', '1e25', '123456789012345']:
            q = Fraction(x)
            if abs(q) < Fraction(2) ** 126 and (q == 0 or abs(q) > Fraction(2) ** -126):
                pool.append(S(q))
                pool.append(D(q))
        for n in [0, 1, -1, 5, 9, 10, 99, 100, 999, 1000, 9999, 10000, 32767, -32767, -32768, 12345, -12345]:
            pool.append(['%', n])
        return pool

    def _rand_num(self):
        rng = self.rng
        r = rng.random()
        if r < 0.3:
            return rng.choice(self._pool)
        if r < 0.4:
            return ['%', rng.choice([rng.randrange(-32768, 32768), rng.randrange(-100, 100)])]
        dbl = rng.random() < 0.4
        r = rng.random()
        if r < 0.35:
            # short decimal: d digits, scaled
            nd = rng.randrange(1, 7 if not dbl else 15)
            m = rng.randrange(10 ** (nd - 1), 10 ** nd)
            if rng.random() < 0.3:
                m = rng.choice([10 ** nd - 1, 10 ** nd - 5, 5 * 10 ** (nd - 1), 10 ** (nd - 1) * 9 + 10 ** (nd - 1) // 2 or 9])
            e = rng.randrange(-nd - 6, 6)
            q = Fraction(m) * Fraction(10) ** e
        elif r < 0.6:
            # dyadic: k / 2^j
            j = rng.randrange(0, 11)
            k = rng.randrange(1, 1 << rng.randrange(1, 20))
            q = Fraction(k, 1 << j)
        elif r < 0.8:
            # random mantissa, moderate exponent
            q = Fraction(rng.randrange(1, 1 << 24)) * Fraction(2) ** rng.randrange(-50, 30)
        else:
            # whole range
            q = Fraction(rng.randrange(1 << 23, 1 << 24)) * Fraction(2) ** rng.randrange(-149, 102)
        if rng.random() < 0.35:
            q = -q
        return double_of(q) if dbl else single_of(q)

    def _rand_str(self):
        rng = self.rng
        r = rng.random()
        n = rng.choice([0, 0, 1, 1, 2, 3, 5, 8, 20, 100, 254, 255]) if r < 0.5 else rng.randrange(0, 12)
        r = rng.random()
        if r < 0.5:
            return ['$', [rng.randrange(32, 127) for _ in range(n)]]
        return ['$', common.rand_bytes(rng, n)]

    def _num_field(self):
        rng = self.rng
        f = b''
        lead = rng.random() < 0.2
        if lead:
            f += b'+'
        f += rng.choice([b'', b'', b'', b'**', b'$$', b'**$'])
        r = rng.random()
        nb = rng.choice([0, 0, 1, 1, 2, 3, 4, 5, 7, 8, 10, 16, 17, 22, 23, 24, 25]) if r < 0.4 else rng.randrange(0, 9)
        ip = b''
        for i in range(nb):
            ip += b',' if (i > 0 and rng.random() < 0.12) else b'#'
        f += ip
        r = rng.random()
        if r < 0.6:
            nd = rng.choice([0, 0, 1, 1, 2, 2, 3, 4, 6, 7, 8, 10, 15, 16, 17, 23, 24]) if rng.random() < 0.4 else rng.randrange(0, 6)
            if rng.random() < 0.15:
                nd = max(0, 24 - nb - rng.choice([0, 0, 1, -1, 2]))
            f += b'.' + b'#' * nd
        if rng.random() < 0.3:
            f += rng.choice([b'^^^^', b'^^^^', b'^^^', b'^^^^^'])
        if rng.random() < (0.05 if lead else 0.25):
            f += rng.choice([b'+', b'-'])
        return f

    def _str_field(self):
        rng = self.rng
        r = rng.random()
        if r < 0.3:
            return b'!'
        if r < 0.55:
            return b'&'
        return b'\\' + b' ' * rng.choice([0, 0, 1, 2, 3, 5, 10, 40]) + b'\\'

    def _literal(self):
        rng = self.rng
        r = rng.random()
        if r < 0.35:
            return b' '
        if r < 0.6:
            return rng.choice([b'x', b'abc', b': ', b' = ', b'%', b'0', b'12', b'E', b'/'])
        if r < 0.8:
            return b'_' + bytes([rng.choice(list(b'#!&\\_$*+.,^-x'))])
        return rng.choice([b'$', b'*', b'+', b'-', b'.', b',', b'^^^', b'\\ x\\', b'\\  ', b'$ ', b'* ', b'+.', b'$*',
                           b'*$', b'_'])

    def _format(self, kinds):
        """format string with fields of the given kinds ('n'/'s') and random literals around"""
        rng = self.rng
        f = b''
        if rng.random() < 0.35:
            f += self._literal()
        for k in kinds:
            f += self._num_field() if k == 'n' else self._str_field()
            r = rng.random()
            if r < 0.5:
                f += self._literal()
                if rng.random() < 0.2:
                    f += self._literal()
        if rng.random() < 0.1:
            f += rng.choice([b'$', b'*', b'_', b'+', b'\\', b'^'])
        return f[:255]

    def _case(self, fmt, vals, trailing=0, dev='file', sep=';', arr=0):
        return {'f': list(fmt), 'v': vals, 't': trailing, 'dev': dev, 'sep': sep, 'arr': arr}

    def _repeat_some(self, vals):
        """make some numeric values of the list re-occur: equal values are ONE variable in the statement"""
        rng = self.rng
        nums = [v for v in vals if v[0] in '!#%']
        if not nums:
            return vals
        out = []
        for v in vals:
            if v[0] in '!#%' and out and rng.random() < 0.4:
                prev = [w for w in out if w[0] in '!#%']
                out.append(rng.choice(prev) if prev else v)
            else:
                out.append(v)
        return out

    # ------------------------------------------------------------------ cases
    def corpus(self):
        S, D = single_of, double_of
        C = self._case
        c = [
            # witnesses of D08a, D08b, D08c, D08d
            C(b'#.#', [S('0.06')]), C(b'#.##', [S('0.006')]), C(b'#.###', [D('0.0006')]), C(b'.##', [S('0.001')]),
            C(b'## $', [['%', 5]]), C(b'##*', [['%', 5]]), C(b'$', [['%', 5]]), C(b'## $', [['%', 5], ['%', 6]]),
            C(b'##.##^^^^', [S('9.996')]), C(b'##^^^^', [['%', 96]]), C(b'##.#^^^^', [D('9.95')]),
            C(b'###^^^^', [S('0.996')]),
            # ^^^^ fields with more digit positions than the type has digits (radix position / zero padding)
            C(b'#########.########^^^^', [S('9.996'), S('-9999999'), S('0.000123')]),
            C(b'+###########.##########^^^^', [D('9.996'), D('-1234567890123456'), D('0.5')]),
            C(b'**$#######.###^^^^', [S('12345.678')]),
            # seeded C08d: iabs() without clone() cleared the sign of the variable itself (demo.py vectors)
            C(b'###.#', [S('-5.5'), S('-5.5')]), C(b'+##.## ', [D('-2.25'), D('-2.25')]),
            C(b'###-', [S('-7'), S('-7')], arr=1), C(b'**##.##^^^^', [D('-2.25')]),
            C(b'##.# ', [S('-1.5'), S('2.5'), S('-1.5')], arr=1, sep=','),
            # seeded: trailing sign appended after the leading-zero decision (width clause)
            C(b'.##-', [S('0.5')]), C(b'.##+', [S('-0.5')]), C(b'.##-', [['%', 0]]), C(b'.#^^^^-', [S('0.5')]),
            # D08d
            C(b'$$#.##', [S('0.5')]), C(b'$$.', [['%', 0]]), C(b'**$.##', [S('-0.5')]), C(b'**$.', [S('0')]),
            C(b'+$$#.##', [S('0.5')]), C(b'$$#.##-', [D('-0.5')]),
            # the repository's own GW-BASIC test vectors (tests/basic/unsorted/USING)
            C(b'abc', [['%', 1]]), C(b'abc #', [['%', 1], ['%', 2]]), C(b'_# #', [['%', 2]]),
            C(b' # ', [['%', i] for i in range(1, 6)], sep=','),
            C(b'!', [['$', list(b'abcde')]]), C(b'\\ \\', [['$', list(b'abcde')]]), C(b'&', [['$', list(b'abcde')]]),
            C(b'###', [['%', 12], ['%', 123], ['%', 1234], ['%', 12345], ['%', -12345], ['%', -123], ['%', -12]]),
            C(b'.', [['%', 0]]), C(b'##,,#', [['%', 1000], ['%', 11000], ['%', -1000]]), C(b'+###', [['%', 2000]]),
            C(b'**##', [['%', x] for x in (1, 10, 100, 1000, 10000, -1, -10, -100, -1000, -10000)]),
            C(b'$$##', [['%', x] for x in (1, 10, 100, 1000, 10000, -1, -10, -100, -1000)]),
            C(b'###.###', [['%', 1]]), C(b'####+', [['%', 1], ['%', -1]]), C(b'####-', [['%', 1], ['%', -1]]),
            C(b'####^^^^', [S(x) for x in ('0', '1', '10', '100', '1000', '10000', '0.1', '0.01', '0.001')]),
            C(b'####^^^^', [D(x) for x in ('0', '1', '10', '100', '1000', '10000', '0.1', '0.01', '0.001')]),
            C(b' ## \\ \\ #######.##', [['%', 1], ['$', list(b'CHARITY')], S('2337.3')]),
            C(b'#######,.###', [S('2000345.678')]), C(b'#######,.###', [S('12345.678')]),
            C(b'#######,.##########', [D('1205.6789012')]),
            # limits: 24 / 25 digit positions
            C(b'#' * 24, [['%', 1]]), C(b'#' * 25, [['%', 1]]), C(b'#' * 12 + b'.' + b'#' * 12, [S('1.5')]),
            C(b'#' * 12 + b'.' + b'#' * 13, [S('1.5')]), C(b'**$' + b'#' * 22, [['%', 7]]), C(b'**$' + b'#' * 23, [['%', 7]]),
            C(b'x' + b'#' * 25, [['%', 1]]), C(b'#' * 24 + b'^^^^', [D('1.5')]),
            # errors and cycling
            C(b'', [['%', 1]]), C(b'##', [['$', [65]]]), C(b'!', [['%', 1]]), C(b'a#b', [['%', 1], ['$', [65]]]),
            C(b'#_', [['%', 1], ['%', 2]]), C(b'ab_', [['%', 1]]), C(b'x#y&z', [['%', 1], ['$', [66]], ['%', 2]]),
            C(b'##', [['%', 1]], trailing=1), C(b'## ', [['%', 1], ['%', 2]], trailing=1, sep=','),
            C(b'&', [['$', list(range(1, 256))]]), C(b'\\' + b' ' * 253 + b'\\', [['$', [65, 66]]]),
            C(b'!', [['$', []]]), C(b'\\  \\', [['$', []]]), C(b'&', [['$', []]]), C(b'\\ x\\#', [['%', 3]]),
            C(b'\\  ', [['%', 3]]), C(b'+', [['%', 1]]), C(b'-', [['%', 1]]), C(b'^^^^', [['%', 1]]),
            C(b'+$$###.##', [S('-1.5')]), C(b'$$###.##', [S('-1.5')]), C(b'$$###.##', [S('0.5')]),
            C(b'**$###.##-', [S('-1.5')]), C(b'**###', [['%', -5]]), C(b'.##', [['%', 0]]), C(b'+.##', [S('0.5')]),
            C(b'#.##', [S('-0.5')]), C(b'##.##^^^^', [S('1e38')]), C(b'+##.##^^^^', [D('-1e-38')]),
            C(b'#^^^^', [['%', 1]]), C(b'#^^^^', [['%', 5]]), C(b'##.^^^^', [D('0')]), C(b'##^^^^', [S('0')]),
            C(b'##.##', [S('9.996')]), C(b'##.##', [S('99.996')]), C(b'##', [S('2.5')]), C(b'##.##', [S('0.125')]),
            C(b'###,###,###.##', [D('1234567.891')]), C(b'#,###', [['%', 999]]), C(b'#,###', [['%', 1000]]),
            # screen
            C(b'##.## \\  \\x', [S('-1.5'), ['$', list(b'abcdef')]], dev='scrn'),
            C(b'abc', [['%', 1]], dev='scrn'), C(b'##', [['%', 1]], trailing=1, dev='scrn'),
            C(b'#_', [['%', 1], ['%', 2]], dev='scrn'),
        ]
        return c

    def gen_cases(self, n):
        rng = self.rng
        self._pool = self._num_values()
        hist = {'structured': 0, 'one_field_sweep': 0, 'malformed': 0, 'screen': 0, 'mixed': 0}
        out = []
        # every boundary value through a fixed set of field shapes (both tiers; more shapes when thorough)
        shapes = [b'##.##', b'#.#', b'.###', b'##', b'###,###.#', b'##.##^^^^', b'+#.###^^^^', b'$$##.##-',
                  b'**#.#+', b'#####.#####']
        # no digit position before the point x every sign mode x |x| < 1 including 0 (both signs)
        small = []
        for x in ('0', '0.5', '-0.5', '0.25', '-0.25', '0.06', '-0.06', '0.004', '-0.004', '0.999', '-0.999',
                  '0.995', '0.001', '-0.001'):
            small.append(single_of(Fraction(x)))
            small.append(double_of(Fraction(x)))
        for sh in (b'.##', b'+.##', b'.##+', b'.##-', b'.#', b'.#-', b'+.#', b'.#+', b'.##^^^^', b'+.##^^^^',
                   b'.##^^^^-', b'.##^^^^+', b'$$.##', b'$$.##-', b'+$$.##', b'**.##-', b'**$.#+'):
            for i in range(0, len(small), 7):
                out.append(self._case(sh + b'|', small[i:i + 7]))
                hist['no_integer_position'] = hist.get('no_integer_position', 0) + 1
        if self.tier == 'thorough':
            shapes += [b'#', b'.#', b'#.', b'**$##,###.##', b'+##.####', b'#.######^^^^', b'^^^^#', b'.##^^^^',
                       b'################.########', b'#.################^^^^', b'##,###,###,###,###,###.##']
        for sh in shapes:
            vals = list(self._pool)
            step = 6
            for i in range(0, len(vals), step):
                out.append(self._case(sh + b'|', vals[i:i + step]))
                hist['one_field_sweep'] += 1
        # the same variable (scalar or array element) formatted several times in one statement, every sign
        # mode, negative and positive singles/doubles: v v w v
        fl = [v for v in self._pool if v[0] in '!#' and v[1] != 0]
        neg = [v for v in fl if v[1] < 0] + [[v[0], -v[1], v[2]] for v in fl if v[1] > 0][:40]
        shapes_r = [b'###.#', b'+##.##', b'###-', b'###+', b'**##.##^^^^', b'$$##.#-', b'**#.#', b'+#.#^^^^']
        for i, v in enumerate(neg):
            sh = shapes_r[i % len(shapes_r)]
            w = fl[(7 * i + 3) % len(fl)]
            out.append(self._case(sh + b' ', [v, v, w, v], arr=i % 2, sep=';' if i % 3 else ','))
            hist['same_variable_again'] = hist.get('same_variable_again', 0) + 1
        while len(out) < n:
            r = rng.random()
            if r < 0.62:
                nf = rng.choice([1, 1, 1, 2, 2, 3, 4])
                kinds = [('n' if rng.random() < 0.75 else 's') for _ in range(nf)]
                fmt = self._format(kinds)
                nv = rng.choice([1, 1, nf, nf, nf, nf + 1, 2 * nf, 2 * nf + 1])
                vals = []
                for i in range(nv):
                    k = kinds[i % nf]
                    if rng.random() < 0.04:
                        k = 's' if k == 'n' else 'n'      # type mismatch
                    vals.append(self._rand_num() if k == 'n' else self._rand_str())
                if rng.random() < 0.3:
                    vals = self._repeat_some(vals)
                out.append(self._case(fmt, vals, trailing=int(rng.random() < 0.2), sep=rng.choice([';', ';', ',']),
                                      arr=int(rng.random() < 0.3)))
                hist['structured'] += 1
            elif r < 0.8:
                # malformed / random format text over the specifier alphabet
                L = rng.choice([1, 2, 3, 4, 6, 8, 12, 20, 40])
                fmt = bytes(rng.choice(FIELD_ALPHABET) for _ in range(L))
                nv = rng.choice([1, 1, 2, 3, 5])
                vals = [self._rand_num() if rng.random() < 0.8 else self._rand_str() for _ in range(nv)]
                out.append(self._case(fmt, vals, trailing=int(rng.random() < 0.2)))
                hist['malformed'] += 1
            elif r < 0.9:
                # screen output: short printable formats, moderate numbers
                kinds = [('n' if rng.random() < 0.7 else 's') for _ in range(rng.choice([1, 1, 2]))]
                fmt = b''
                for k in kinds:
                    if k == 'n':
                        fmt += rng.choice([b'##.##', b'+#.#', b'**$###.#-', b'#,###', b'#.##^^^^', b'##', b'$$#.##'])
                    else:
                        fmt += rng.choice([b'!', b'&', b'\\  \\'])
                    fmt += rng.choice([b'', b' ', b'x', b'_#'])
                vals = []
                for i in range(rng.choice([1, len(kinds), len(kinds) + 1])):
                    if kinds[i % len(kinds)] == 'n':
                        q = Fraction(rng.randrange(-99999, 99999), rng.choice([1, 2, 4, 8, 10, 100, 1000]))
                        vals.append(single_of(q) if rng.random() < 0.7 else double_of(q))
                    else:
                        vals.append(['$', [rng.randrange(33, 127) for _ in range(rng.randrange(0, 7))]])
                out.append(self._case(fmt, vals, trailing=int(rng.random() < 0.3), dev='scrn'))
                hist['screen'] += 1
            else:
                # one numeric field, many values (cycling) with literals
                fmt = self._format(['n'])
                vals = [self._rand_num() for _ in range(rng.randrange(2, 7))]
                if rng.random() < 0.5:
                    vals = self._repeat_some(vals)
                out.append(self._case(fmt, vals, trailing=int(rng.random() < 0.2), sep=rng.choice([';', ',']),
                                      arr=int(rng.random() < 0.3)))
                hist['mixed'] += 1
        self.histogram = hist
        self._ohist = {}
        return out

    # ------------------------------------------------------------------ implementation
    _sess = None
    _dir = None
    _count = 0
    _messages = None
    _offset = 0

    def _session(self):
        if self._sess is None or self._count >= 300:
            self._drop_session()
            self._dir = common.tmpdir('c08')
            self._sess = common.new_session(devices={'C': self._dir}, current_device='C:')
            self._sess.execute('OPEN "O",#1,"OUT.TXT"')
            self._offset = 0
            self._count = 0
        self._count += 1
        return self._sess

    def _drop_session(self):
        if self._sess is not None:
            try:
                self._sess.close()
            except Exception:
                pass
            common.rmtree(self._dir)
        self._sess = None

    def __del__(self):
        try:
            self._drop_session()
        except Exception:
            pass

    def _err_of(self, text):
        """(text written before the error message, error number or None) from the screen text"""
        if isinstance(text, bytes):
            text = text.decode('latin-1')
        if self._messages is None:
            from pcbasic.basic.base import error
            self._messages = sorted(((v.decode('latin-1'), k) for k, v in error.BASICError.messages.items()),
                                    key=lambda x: -len(x[0]))
        for msg, k in self._messages:
            tailmsg = msg + '\xa0\r\n'
            if text.endswith(tailmsg):
                before = text[:-len(tailmsg)]
                if before.endswith('\r\n'):
                    before = before[:-2]
                return before, k
        return text, None

    def impl(self, case):
        try:
            with core.time_limit(30):
                return self._impl(case)
        except Refused:
            self._drop_session()
            raise
        except Exception as e:  # host exception escaping the interpreter
            self._drop_session()
            return common.canon_exc(e)

    def _impl(self, case):
        fmt = bytes(case['f'])
        if len(fmt) > 255 or any(v[0] == '$' and len(v[1]) > 255 for v in case['v']):
            raise Refused('string longer than 255 bytes cannot exist in BASIC')
        if not case['v']:
            raise Refused('PRINT USING needs at least one value (Missing operand is a parser matter)')
        s = self._session()
        s.set_variable('F$', fmt)
        # equal values share ONE variable, so a value that occurs several times in the list is the same
        # variable formatted several times; with case['arr'] the floats live in array elements
        names = []
        byval = {}
        floats = []          # (name bytes, indices, stored bytes)
        nfloat = len(set(repr(v) for v in case['v'] if v[0] in '!#'))
        use_arr = bool(case.get('arr')) and nfloat <= 10
        for i, v in enumerate(case['v']):
            key = repr(v)
            if key in byval:
                names.append(byval[key])
                continue
            if v[0] == '$':
                nm = 'S%d$' % i
                s.set_variable(nm, bytes(v[1]))
            elif v[0] == '%':
                nm = 'I%d%%' % i
                s.set_variable(nm, v[1])
            else:
                # exact MBF bytes (Session.set_variable goes through a lossy float conversion)
                b = mbf_bytes(v)
                x = s._impl.values.from_bytes(b)
                if Fraction(x.to_value()) != val_fraction(v):
                    raise Refused('value %r is not stored exactly' % (v,))
                if use_arr:
                    base, idx = ('AR' + v[0]).encode(), [len(floats)]
                    nm = 'AR%s(%d)' % (v[0], idx[0])
                else:
                    base, idx = ('V%d%s' % (i, v[0])).encode(), []
                    nm = 'V%d%s' % (i, v[0])
                s._impl.memory.set_variable(base, idx, x)
                floats.append((base, idx, b, i))
            byval[key] = nm
            names.append(nm)
        args = case['sep'].join(names) + (case['sep'] if case['t'] else '')
        if case['dev'] == 'file':
            text = s.execute('PRINT#1,USING F$;' + args)
            before, err = self._err_of(text)
            if before.strip('\r\n') != '':
                raise Refused('unexpected interpreter output %r' % text)
            fobj = s._impl.files.get(1)
            fobj._fhandle.flush()
            with open(os.path.join(self._dir, 'OUT.TXT'), 'rb') as fh:
                fh.seek(self._offset)
                data = fh.read()
            self._offset += len(data)
        else:
            text = s.execute('PRINT USING F$;' + args)
            before, err = self._err_of(text)
            data = before.encode('latin-1')
            if err is None and case['t']:
                s.execute('PRINT')
        # observation after the statement: PRINT USING must leave its arguments alone
        mut = 0
        for base, idx, b, i in floats:
            now = bytes(s._impl.memory.view_or_create_variable(base, idx).to_bytes())
            if now != b and not mut:
                mut = i + 1
        if err is not None:
            return [1, err] + pack(data) + [mut]
        return [0, 0] + pack(data) + [mut]

    # ------------------------------------------------------------------ model
    _vsess = None
    _tabs = None

    def _float_bytes(self, v):
        """MBF bytes of the value as NumberField.format sees it (integers are promoted by to_float());
        to_decimal is NOT asked here: the model computes it from these bytes (gen/Gen_dec.v core)."""
        if self._tabs is None:
            self._tabs = {}
        key = repr(v)
        if key not in self._tabs:
            if v[0] == '%':
                if self._vsess is None:
                    self._vsess = common.new_session()
                    self._vsess.start()
                x = self._vsess._impl.values.from_value(v[1], b'%').to_float()
                self._tabs[key] = (False, bytes(x.to_bytes()))
            else:
                self._tabs[key] = (v[0] == '#', mbf_bytes(v))
        return self._tabs[key]

    def _coq_val(self, v):
        if v[0] == '$':
            return '(UStr %s)' % hexs(v[1])
        dbl, b = self._float_bytes(v)
        return '(UNum (nval_of_bytes %s %s))' % ('true' if dbl else 'false', hexs(b))

    def model_term(self, case):
        vals = '[' + ';'.join(self._coq_val(v) for v in case['v']) + ']'
        # the trailing 0: the model's values are immutable - no argument is changed by the statement
        return '(enc_stream [13;10] (print_using %s %s %s) ++ [0])' % (hexs(case['f']), vals,
                                                                       'true' if case['t'] else 'false')

    # ------------------------------------------------------------------ oracle
    def nontrivial(self, case, out):
        return out[0] == 0 and out[2] > 0

    def oracle(self, case, out):
        if out[0] == 2:
            return 'host exception class %d escaped PRINT USING' % out[1]
        if out[-1] != 0:
            v = case['v'][out[-1] - 1]
            return ('PRINT USING changed its argument: the variable holding value #%d (%s) has different bytes '
                    'after the statement (output %r)' % (out[-1], float(val_fraction(v)), unpack(out[2:-1])))
        try:
            stats = ref_check(bytes(case['f']), case['v'], bool(case['t']), out[0], out[1], unpack(out[2:-1]))
        except Mismatch as e:
            return str(e)
        oh = getattr(self, '_ohist', None)
        if oh is not None and self.histogram is not None:
            for k, n in stats.items():
                oh['oracle_' + k] = oh.get('oracle_' + k, 0) + n
            self.histogram.update(oh)
        return None

    def shrink_candidates(self, case):
        vs = case['v']
        for i in range(len(vs)):
            if len(vs) > 1:
                d = dict(case)
                d['v'] = vs[:i] + vs[i + 1:]
                yield d
        f = case['f']
        for i in range(len(f)):
            d = dict(case)
            d['f'] = f[:i] + f[i + 1:]
            yield d


CHECK = C08
