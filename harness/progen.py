"""Random generator of BASIC program text (shared by several checks)."""

KEYWORD_STMTS = [
    'PRINT {e}', 'LET {v}={e}', '{v}={e}', 'GOTO {n}', 'GOSUB {n}', 'RETURN', 'IF {e} THEN {n}',
    'IF {e} THEN PRINT {e} ELSE {n}', 'FOR I={e} TO {e}', 'FOR J%={e} TO {e} STEP {e}', 'NEXT', 'NEXT I',
    'WHILE {e}', 'WEND', 'REM {text}', "' {text}", 'DATA {data}', 'READ {v}', 'RESTORE', 'RESTORE {n}',
    'ON {e} GOTO {n},{n}', 'ON {e} GOSUB {n}', 'ON ERROR GOTO {n}', 'RESUME', 'RESUME NEXT', 'RESUME {n}',
    'DIM A({e})', 'A$={s}', 'PRINT {s};{e}', 'PRINT USING "##.##";{e}', 'INPUT A$', 'END', 'STOP',
    'CLS', 'LOCATE {e},{e}', 'COLOR {e}', 'DEF FNA(X)=X*{e}', 'POKE {e},{e}', 'OPEN {s} FOR INPUT AS #1',
    'CLOSE', 'SWAP A,B', 'ERASE A', 'DEFINT A-Z', 'RANDOMIZE {e}', 'PRINT RND', 'KEY OFF', 'BEEP',
    'LINE ({e},{e})-({e},{e})', 'PSET ({e},{e})', 'CIRCLE ({e},{e}),{e}', 'ERROR {e}', 'PRINT ERL;ERR',
    'IF ERL={n} THEN {n}', 'RUN {n}', 'PRINT TAB({e});SPC({e})', 'WIDTH 80', 'A$=MID$({s},{e},{e})',
    'MID$(A$,{e})={s}', 'PRINT A$+{s}', 'PRINT LEN({s})', 'ON KEY(1) GOSUB {n}', 'KEY(1) ON',
]

ATOMS = ['1', '0', '2', '10', '255', '256', '32767', '32768', '65535', '1.5', '.25', '1E10', '1.5D-3', '123456789',
         '3.141593', '1!', '2#', '7%', '&HFF', '&H7FFF', '&O17', '&O177777', 'A', 'B', 'I', 'J%', 'X!', 'Y#',
         'A(1)', 'RND', 'LEN(A$)', 'ASC("A")', 'ABS(X)', 'INT(2.5)', 'FNA(2)', 'ERR', 'ERL', 'CSRLIN', 'POS(0)',
         'VAL("12")', 'TIMER', 'PEEK(0)', '0.1', '100000', '1E-38', '1.234567E+10', '9999999', '1D0',
         '16777216', '.5#', '3#']
BINOPS = ['+', '-', '*', '/', '\\', ' MOD ', '^', ' AND ', ' OR ', ' XOR ', ' EQV ', ' IMP ', '=', '<', '>', '<=', '>=', '<>']
STRINGS = ['"HELLO"', '""', '"a b"', '"1,2"', '":"', "\"'\"", '"REM"', '"x"+CHR$(34)', 'A$', 'STR$(1)', 'CHR$(65)',
           'LEFT$(A$,2)', 'SPACE$(3)', 'STRING$(3,"*")', 'HEX$(255)', 'MKI$(1)', 'INKEY$', 'DATE$']
TEXTS = ['hello world', 'GOTO 10', 'x:y', "it's", 'a"b', '', '  spaced  ', 'PRINT 1 : REM x', 'ÄÖ'.encode('cp437', 'replace').decode('latin1')]
DATAS = ['1,2,3', '"a,b",c', ' x , y ', '1.5,2E3', '"q', ':', 'a b c', '', '-1,+2']


def expr(rng, depth=0):
    r = rng.random()
    if depth > 2 or r < 0.4:
        return rng.choice(ATOMS)
    if r < 0.5:
        return '(' + expr(rng, depth + 1) + ')'
    if r < 0.58:
        return rng.choice(['-', 'NOT ', '+']) + expr(rng, depth + 1)
    return expr(rng, depth + 1) + rng.choice(BINOPS) + expr(rng, depth + 1)


def statement(rng, linenums):
    t = rng.choice(KEYWORD_STMTS)
    out = ''
    i = 0
    while i < len(t):
        if t[i] == '{':
            j = t.index('}', i)
            k = t[i + 1:j]
            if k == 'e':
                out += expr(rng)
            elif k == 'v':
                out += rng.choice(['A', 'B', 'I', 'J%', 'X!', 'Y#', 'A(1)', 'Z9'])
            elif k == 'n':
                out += str(rng.choice(linenums) if linenums and rng.random() < 0.85 else rng.randrange(0, 65530))
            elif k == 's':
                out += rng.choice(STRINGS)
            elif k == 'text':
                out += rng.choice(TEXTS)
            elif k == 'data':
                out += rng.choice(DATAS)
            i = j + 1
        else:
            out += t[i]
            i += 1
    return out


def line_body(rng, linenums):
    n = 1 if rng.random() < 0.6 else rng.randrange(2, 5)
    stmts = [statement(rng, linenums) for _ in range(n)]
    body = ':'.join(stmts)
    if rng.random() < 0.15:
        body = body.lower()
    return body[:240]


def program(rng, nlines=None, maxnum=65529):
    nlines = nlines if nlines is not None else rng.randrange(0, 14)
    nums = set()
    while len(nums) < nlines:
        r = rng.random()
        if r < 0.1:
            nums.add(rng.choice([0, 1, 65529, 65528, 255, 256, 32767, 32768]))
        elif r < 0.7:
            nums.add(10 * rng.randrange(1, 60))
        else:
            nums.add(rng.randrange(0, maxnum + 1))
    nums = sorted(nums)
    return [(n, line_body(rng, nums)) for n in nums]


def text(prog):
    return ''.join('%d %s\r' % (n, b) for n, b in prog)
