"""C04 - Floating-point arithmetic stays within a fixed error of the exact result."""
from fractions import Fraction

from vlib import core
from harness import common
from harness import mbf_common as M
from harness import MBFArith_gen as G

OPS = ['add', 'sub', 'mul', 'div']


class C04(core.Check):
    ID = 'C04'
    GEN = ['gen_mbf']
    PROPS = 'props/C04.v'
    MODEL_IMPORTS = ['gen.Gen_mbf', 'model.MBF', 'model.MBFArith']
    QUICK_CASES = 1500
    THOROUGH_CASES = 24000
    TRUSTED = ['idiom layer of translate/targets/gen_mbf.py + lib/MBFPrims.v (value buffers as byte lists; '
               'buffer-length class invariant)',
               'hand glue in model/MBFArith.v (values.add/sub/mul/div type dispatch, @float_safe + '
               'FloatErrorHandler in both modes, the payload of OverflowError/ZeroDivisionError) and model/MBF.v '
               '(to_single/to_double promotion), tied by correspondence through values.add/sub/mul/div on a real '
               'Session comparing result bytes']
    PARTIAL = None
    RULE = ('one case = one operand pair (Integer/Single/Double byte patterns, all type pairings, sometimes a '
            'string for the Type-mismatch glue) through values.add, sub, mul, div on a real Session, each in both '
            'FloatErrorHandler modes (raise / print-and-continue); the 8 canonical results (type tag + result '
            'BYTES, or error number) are compared with the Coq model. Classes: random, exponent-aligned, '
            'exponent-adjacent (differences 1..mbits+9), cancellation (neighbours / one flipped bit / adjacent '
            'exponent, opposite or equal signs), extremes, products and quotients whose exponent lands within 3 '
            'of either end of the range, small double products (the D5 class), non-canonical zeros, integer '
            'operands, strings. Oracle: exact fractions.Fraction arithmetic on the decoded operand bytes vs the '
            'exact value of the result bytes: <= 2 ulp(result) for + -, < 1 ulp for * /, Overflow only if '
            '|exact| > MAX and then the signed MAX as soft result, no Overflow above MAX only inside the '
            'rounding band (result = MAX, |exact| < 2^127), Division by zero with sgn(x)*MAX, zero for a '
            'non-zero exact result only if |exact| < 2^-128. non-trivial = numeric operands, no zero operand; '
            'distinct by hash')
    histogram = None

    # ---------------------------------------------------------------- cases
    def corpus(self):
        c = [{'x': x, 'y': y} for x, y in G.D5_CASES]           # witnesses of defect D5
        one4, one8 = [4, 0, 0, 0, 129], [8, 0, 0, 0, 0, 0, 0, 0, 129]
        max4, max8 = [4] + G.MAXB[4], [8] + G.MAXB[8]
        min4, min8 = [4, 0, 0, 0, 1], [8, 0, 0, 0, 0, 0, 0, 0, 1]
        vals = [one4, one8, max4, max8, min4, min8, [4, 0, 0, 128, 129], [4, 255, 255, 255, 255],
                [4, 0, 0, 0, 0], [4, 1, 2, 131, 0], [8, 9, 9, 9, 9, 9, 9, 137, 0], [2, 0, 0], [2, 1, 0],
                [2, 255, 255], [2, 0, 128], [2, 255, 127], [4, 0, 0, 0, 128], [8, 0, 0, 0, 0, 0, 0, 0, 128],
                [4, 255, 255, 127, 128], [4, 1, 0, 0, 129], [8, 1, 0, 0, 0, 0, 0, 0, 129],
                [4, 0, 0, 0, 130], [4, 0, 0, 64, 130], [4, 0, 0, 32, 132], [8, 0, 0, 0, 0, 0, 0, 32, 132],
                [4, 0, 0, 0, 255], [4, 0, 0, 0, 2], [8, 255, 255, 255, 255, 255, 255, 127, 1]]
        c += [{'x': x, 'y': y} for i, x in enumerate(vals) for j, y in enumerate(vals)
              if i < 8 or j < 8 or (i + 2 * j) % 5 == 0]
        c += [{'x': [3, 65], 'y': [2, 1, 0]}, {'x': one4, 'y': [3]}, {'x': [8] + [0] * 8, 'y': [3, 1]}]
        return c

    def gen_cases(self, n):
        hist = {}
        out = []
        for _ in range(n):
            x, y, key = G.pair(self.rng)
            out.append({'x': x, 'y': y})
            hist[key] = hist.get(key, 0) + 1
            tk = 'types:%d,%d' % (x[0], y[0])
            hist[tk] = hist.get(tk, 0) + 1
        self.histogram = hist
        return out

    def shrink_candidates(self, case):
        """fixed-width byte patterns: try zeroing low mantissa bytes, and replacing an operand by one"""
        for k in ('x', 'y'):
            v = case[k]
            if v[0] in (4, 8):
                for i in range(1, len(v) - 2):
                    if v[i]:
                        d = dict(case)
                        d[k] = v[:i] + [0] + v[i + 1:]
                        yield d

    # ---------------------------------------------------------------- implementation / model
    def impl(self, case):
        from pcbasic.basic.values import values
        out = []
        x, y = case['x'], case['y']
        with core.time_limit(5):
            for op in OPS:
                fn = getattr(values, op)
                with M.hard_errors():
                    out += M.run(lambda: fn(M.make_value(x[0], x[1:]), M.make_value(y[0], y[1:])))
                out += M.run(lambda: fn(M.make_value(x[0], x[1:]), M.make_value(y[0], y[1:])))
        return out

    def model_term(self, case):
        return '(c04_all %s %s)' % (M.coq_value(case['x'][0], case['x'][1:]),
                                    M.coq_value(case['y'][0], case['y'][1:]))

    # ---------------------------------------------------------------- oracle
    def nontrivial(self, case, out):
        x, y = case['x'], case['y']
        if x[0] == 3 or y[0] == 3:
            return False
        return M.value_of(x[0], x[1:]) != 0 and M.value_of(y[0], y[1:]) != 0

    def oracle(self, case, out):
        x, y = case['x'], case['y']
        if x[0] == 3 or y[0] == 3:
            if x[0] == 3 and y[0] == 3:
                return None
            return None if out == [1, 13] * 8 else 'string operand did not raise Type mismatch: %r' % (out,)
        for v in (x, y):
            if len(v) != 1 + v[0]:
                return None
        parts = G.split8(out, 8)
        if parts is None:
            return 'an operation returned something that is not a number or an error: %r' % (out,)
        for i, op in enumerate(OPS):
            why = G.check_op(op, x, y, parts[2 * i], parts[2 * i + 1])
            if why:
                return why
        return None


CHECK = C04
