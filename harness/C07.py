"""C07 - Decimal conversion is accurate in both directions."""
import re
from fractions import Fraction

from vlib import core
from harness import common
from harness import mbf_common as M

DIGITS = {4: 7, 8: 16}
SWEEP = 32
MAXV = {4: M.float_value([255, 255, 127, 255]), 8: M.float_value([255] * 6 + [127, 255])}
MINV = Fraction(1, 2 ** 128)          # smallest positive MBF number of either type (exponent byte 1)
BLANKS = b' \t\n'

PRINTED = re.compile(rb'^( |-)?(\d*)(?:\.(\d*))?(?:([ED])([+-])(\d\d+))?([!#%]?)$')
WELLFORMED = re.compile(rb'^([+-]?)(\d*)(?:\.(\d*))?(?:([EeDd])([+-]?)(\d*)|([!#]))?$')


# ---------------------------------------------------------------- exact reading of texts (oracle side)

def printed_value(s):
    """(value, unit of the last digit shown, number of significant digits, sigil, body) of a printed number"""
    mo = PRINTED.match(s)
    if not mo:
        return None
    sign, ip, fp, el, es, ed, sig = mo.groups()
    fp = fp or b''
    digs = ip + fp
    if not digs:
        return None
    e = (int(ed) * (-1 if es == b'-' else 1)) if el else 0
    v = Fraction(int(digs), 10 ** len(fp)) * Fraction(10) ** e
    if sign == b'-':
        v = -v
    unit = Fraction(10) ** (e - len(fp))
    return v, unit, len(digs.lstrip(b'0')), sig, (el or b'')


def literal_reading(w):
    """Independent reading of a well-formed literal (after from_repr's lstrip/upper): None if not well
    formed, else dict(value=Fraction, type=2|4|8, mant=int of all mantissa digits)."""
    w = w.lstrip(b' \n').upper()
    t = bytes(c for c in w if c not in BLANKS)
    mo = WELLFORMED.match(t)
    if not mo or not w:
        return None
    sign, ip, fp, el, es, ed, sig = mo.groups()
    fp = fp or b''
    sig = sig or b''
    digs = ip + fp
    mant = int(digs) if digs else 0
    e10 = -len(fp) + ((int(ed or b'0') * (-1 if es == b'-' else 1)) if el else 0)
    value = Fraction(mant) * Fraction(10) ** e10
    if sign == b'-':
        value = -value
    # type: integer literal, sigil, exponent letter, significant digits
    stripped = w.strip(BLANKS)
    if stripped and all(48 <= c <= 57 for c in stripped) and int(stripped) <= 32767:
        ty = 2
    elif sig == b'!':
        ty = 4
    elif sig == b'#' or el == b'D':
        ty = 8
    else:
        n = len(digs.lstrip(b'0'))
        tz = min(n, len(fp) - len(fp.rstrip(b'0')))
        ty = 8 if n - tz > 7 else 4
    return {'value': value, 'type': ty, 'mant': mant}


def ulp_at(x, n):
    """unit in the last place of the n-byte format in the binade of x (x != 0)"""
    a = abs(Fraction(x))
    k = a.numerator.bit_length() - a.denominator.bit_length()
    while Fraction(2) ** k <= a:
        k += 1
    while Fraction(2) ** (k - 1) > a:
        k -= 1
    return Fraction(2) ** (k - M.MBITS[n])


def split_vres(out, pos):
    """one enc_vres at out[pos:]: returns (piece, next position)"""
    if out[pos] == 0:
        n = {2: 2, 4: 4, 8: 8}[out[pos + 1]]
        return out[pos:pos + 2 + n], pos + 2 + n
    if out[pos] == 3:
        return out[pos:pos + 1], pos + 1
    return out[pos:pos + 2], pos + 2


def split_std(out, pos):
    return (out[pos:pos + 4], pos + 4) if out[pos] == 0 else (out[pos:pos + 2], pos + 2)


def split_str(out, pos):
    if out[pos] == 0:
        n = out[pos + 1]
        return out[pos + 2:pos + 2 + n], pos + 2 + n
    return None, pos + 2


def coq_fmt(t):
    return {4: 'Single_fmt', 8: 'Double_fmt'}[t]


class C07(core.Check):
    ID = 'C07'
    GEN = ['gen_mbf', 'gen_dec']
    PROPS = 'props/C07.v'
    MODEL_IMPORTS = ['gen.Gen_mbf', 'gen.Gen_dec', 'model.MBF', 'model.Decimal']
    QUICK_CASES = 1500
    THOROUGH_CASES = 14000
    TRUSTED = ['idiom layers of translate/targets/gen_mbf.py and gen_dec.py + lib/MBFPrims.v (value buffers as '
               'byte lists; self.new().from_bytes(x).m() as m on the buffer x; 10**self.digits as Z.pow)',
               'hand model in model/Decimal.v of the byte-string assembly of Float.to_str/Integer.to_str, of '
               'the character loop of str_to_decimal, of Integer.from_str and of the dispatch and float_safe '
               'handling of Values.from_repr, tied by correspondence through values.to_repr / values.str_ / '
               'values.val_ / Values.from_repr / numbers.str_to_decimal on a real Session and through '
               'PRINT/WRITE/STR$/VAL statements']
    PARTIAL = ('clause 4, printing: proved per scaling step, for the loop lengths and accumulated over the dividing loop '
               'of to_decimal (C07_print_div_loop_err_partial); the composition with the carry roundings, the '
               'multiplying loop and the integer rounding is open: C07_print_err_statement is a Definition, checked by '
               'the exact-rational oracle only. Clause 4, reading, is proved (C07_parse_err) for literals whose digit '
               'string fits the mantissa, all negative exponents, positive exponents <= 62')
    RULE = ('print cases: values built from byte patterns in a real Session (s._impl.values), values.to_repr in '
            'the four (leading_space, type_sign) combinations = PRINT/STR$, WRITE, LIST forms, values.str_, '
            'Float.to_decimal; end-to-end cases run PRINT/WRITE/STR$/VAL statements in a Session; step cases: '
            'Float._div10_den/_mul10_den/_apply_carry_den on denormalised triples with the proved step bounds as oracle; '
            'LIST cases: tokenised lines with every number-token form (11h..1Bh, 0F nn, 1C, 1D, 1F, 0B, 0C, 0D, 0E) fed '
            'to Lister.detokenise_line as token streams. parse cases: '
            'numbers.str_to_decimal (both allow_nonnum modes) and Values.from_repr result BYTES (hard and soft '
            'error handler). Pools: random single/double bytes, integers at 10^k and 2^k boundaries up to 2^24 / '
            '10^16, values whose scaled mantissa is next to 10^digits (carry class of D07a), exponent extremes; '
            'decimal strings with 1..20 digits, all sigil / exponent-letter forms, exponents at the range ends, '
            'embedded blanks, separators, malformed texts. Oracle: exact fractions.Fraction reading of every '
            'clause. non-trivial = Ok result on a non-zero input; distinct by hash')
    histogram = None

    # ---------------------------------------------------------------- cases
    def corpus(self):
        c = []
        # D07a witnesses: rounding carries into a 17th digit
        for b in ([255, 255, 3, 191, 201, 27, 14, 182], [254, 255, 3, 191, 201, 27, 14, 182],
                  [255, 231, 137, 4, 35, 199, 10, 192], [254, 255, 255, 41, 231, 132, 17, 172],
                  [255, 255, 3, 191, 201, 27, 142, 182]):
            c.append({'k': 'p', 't': 8, 'b': b})
            c.append({'k': 'e', 't': 8, 'b': b})
        for t, bs in ((4, ([0, 0, 0, 0], [0, 0, 0, 129], [0, 0, 128, 129], [255, 255, 127, 255], [255, 255, 255, 255],
                           [0, 0, 0, 1], [255, 255, 127, 1], [127, 150, 24, 152], [255, 35, 116, 148],
                           [128, 150, 24, 152], [0, 36, 116, 148], [1, 2, 3, 0], [234, 197, 150, 65],
                           [0, 0, 0, 152], [255, 255, 127, 152], [205, 204, 76, 125])),
                      (8, ([0] * 8, [0] * 7 + [129], [255] * 6 + [127, 255], [255] * 8, [0] * 7 + [1],
                           [255, 255, 159, 49, 169, 95, 99, 178], [0, 0, 160, 49, 169, 95, 99, 178],
                           [0, 0, 4, 191, 201, 27, 14, 182], [179, 238, 211, 174, 135, 150, 119, 45],
                           [0] * 7 + [184], [205, 204, 204, 204, 204, 204, 76, 125]))):
            for b in bs:
                c.append({'k': 'p', 't': t, 'b': list(b)})
                c.append({'k': 'r', 't': t, 'b': list(b)})
        for n in (0, 1, -1, 32767, -32768, 100, -255):
            c.append({'k': 'p', 't': 2, 'b': M.int_bytes(n)})
        for w in (b'', b' ', b'\t', b'0', b'1', b'-1', b'+1', b'32767', b'32768', b' 12 ', b'1 2', b'1.5', b'.5', b'5.',
                  b'.', b'-', b'+', b'E', b'D', b'1E', b'1E+', b'1E-', b'1D5', b'1d5', b'1e5', b'1E5!', b'1!', b'1#',
                  b'1%', b'1234567', b'12345678', b'1234567.0', b'1.0000000', b'1.00000001', b'0.00000001234567',
                  b'0.000000012345678', b'1234567E10', b'12345678E10', b'1.5X', b'X', b'1E5X', b'1\x1c', b'\x1c1',
                  b'1E5\x1d', b'1!\x1f', b'1.2.3', b'--1', b'1-1', b'1E--1', b'1e5e5', b'1E38', b'1E39', b'-1E39',
                  b'1D38', b'1D39', b'1E-38', b'1E-39', b'1E-40', b'2.9387359E-39', b'2.93873587705571877D-39',
                  b'1.70141183E+38', b'1.701411834604692D+38', b'9999999', b'99999999', b'9999999999999999',
                  b'99999999999999999', b'12345678901234567890', b'974824.3516702999802', b'-29.9852470385233!',
                  b'6.82538300E-0', b'\n 12', b'\t12', b'1\t2\n3', b'&H', b'&H1F', b'&O17', b'&17', b'&', b'&HG',
                  b'000000000000000000001', b'0.000', b'100.00', b'0E5', b'D1', b'.0E10', b'-0D3', b'0E38', b'E1', b'1E0000000005', b'65535', b'1e+05', b'1 E 5',
                  b'123456789012345678901234567890', b'.00000000000000000000000000000000000001',
                  b'100000000000000000000000000000000000000', b'1000000000000000000000000000000000000000!'):
            c.append({'k': 's', 'w': list(w)})
            c.append({'k': 'ss', 'w': list(w)})
        for t in (4, 8):
            hb = 1 << (M.MBITS[t] - 1)
            for m in (256 * hb, 320 * hb - 1, 320 * hb, 320 * hb + 1, 512 * hb - 1, 512 * hb - 128, 409 * hb + 3):
                for op, e in ((0, 152), (0, 1), (0, -7), (1, 0), (1, 200), (2, 150)):
                    c.append({'k': 'st', 't': t, 'op': op, 'e': e, 'm': m, 'n': 0})
        # LIST of every constant token form, fed as token streams (1Bh = 10 is never written by the tokeniser: seed C07f)
        for lead in range(0x11, 0x1c):
            c.append({'k': 'lt', 'tok': [lead]})
        for tok in ([0x0f, 0], [0x0f, 10], [0x0f, 255], [0x1c, 0, 0], [0x1c, 255, 127], [0x1c, 0, 128], [0x1c, 255, 255],
                    [0x0e, 10, 0], [0x0e, 255, 255], [0x0d, 1, 0], [0x0b, 15, 0], [0x0c, 255, 255], [0x0b, 0, 0],
                    [0x1d, 0, 0, 0, 129], [0x1d, 0, 0, 32, 132], [0x1d, 1, 2, 3, 0], [0x1f] + [0] * 6 + [32, 132],
                    [0x1f, 255, 255, 3, 191, 201, 27, 14, 182]):
            c.append({'k': 'lt', 'tok': tok})
        c.append({'k': 'i', 't': 4, 'lo': 0})
        c.append({'k': 'i', 't': 8, 'lo': 9999990})
        c.append({'k': 'i', 't': 4, 'lo': 9999990})
        c.append({'k': 'i', 't': 4, 'lo': 16777200})
        c.append({'k': 'i', 't': 8, 'lo': 10 ** 16 - 16})
        c.append({'k': 'i', 't': 8, 'lo': -10 ** 15 - 16})
        return c

    def gen_cases(self, n):
        rng = self.rng
        hist = {}
        out = []

        def add(case, key):
            out.append(case)
            hist[key] = hist.get(key, 0) + 1
        for i in range(n):
            r = rng.random()
            if r < 0.40:
                t = rng.choice([4, 8])
                cls, b = self.rand_float(rng, t)
                kind = rng.choice(['p', 'p', 'p', 'r', 'e']) if i % 7 else 'e'
                add({'k': kind, 't': t, 'b': b}, '%s:%d:%s' % (kind, t, cls))
            elif r < 0.43:
                add({'k': 'p', 't': 2, 'b': M.int_bytes(rng.choice(M.INT_POOL + [rng.randrange(-32768, 32768)]))}, 'p:int')
            elif r < 0.50:
                t = rng.choice([4, 8])
                add({'k': 'i', 't': t, 'lo': self.rand_int_block(rng, t)}, 'i:%d' % t)
            elif r < 0.515:
                add({'k': 'lt', 'tok': self.rand_list_token(rng)}, 'lt')
            elif r < 0.55:
                c = self.rand_step(rng)
                add(c, 'st:%d:%s' % (c['t'], ('div', 'mul', 'carry')[c['op']]))
            elif r < 0.93:
                cls, w = self.rand_text(rng)
                kind = 's' if rng.random() < 0.85 else rng.choice(['ss', 'ev'])
                add({'k': kind, 'w': list(w)}, '%s:%s' % (kind, cls))
            else:
                cls, w = self.rand_malformed(rng)
                add({'k': 's', 'w': list(w)}, 's:' + cls)
        if self.tier == 'thorough':
            # all integers 0 .. 65535 and the blocks around every power of two and ten up to 2^24 / 10^16
            for lo in range(0, 65536, SWEEP):
                add({'k': 'i', 't': 4, 'lo': lo}, 'i:exhaustive16')
            for t, top in ((4, 2 ** 24), (8, 10 ** 16)):
                for base in (2, 10):
                    p = base
                    while p <= top:
                        for lo in (p - SWEEP, p, -p - 1):
                            add({'k': 'i', 't': t, 'lo': lo}, 'i:pow%d' % base)
                        p *= base
            hist['exhaustive_integers'] = 65536
        self.histogram = hist
        return out

    @staticmethod
    def rand_int_block(rng, t):
        top = 10 ** DIGITS[t]
        k = rng.random()
        if k < 0.3:
            lo = rng.randrange(0, 70000)
        elif k < 0.6:
            p = rng.choice([10 ** rng.randrange(1, DIGITS[t] + 1), 2 ** rng.randrange(1, M.MBITS[t])])
            lo = p - rng.randrange(0, SWEEP + 1)
        else:
            lo = rng.randrange(0, top + 1000)
        return -lo - SWEEP if rng.random() < 0.25 else lo

    @staticmethod
    def rand_float(rng, t):
        k = rng.random()
        d = DIGITS[t]
        if k < 0.30:
            return 'any', [rng.randrange(256) for _ in range(t)]
        if k < 0.40:
            return 'pool', M.rand_float_bytes(rng, t)
        if k < 0.60:
            # next to a power of ten (both scaling limits, carry class)
            p = rng.randrange(-38, 39)
            eps = Fraction(rng.randrange(-40, 41), 2 ** (M.MBITS[t] - rng.choice([0, 0, 1, 2, 3, 5])))
            b = M.float_encode(Fraction(10) ** p * (1 + eps), t)
            return 'pow10', b or [0] * t
        if k < 0.70:
            # scaled mantissa next to 10^digits: x = (10^d - a/4) * 10^p
            p = rng.randrange(-38 - d, 38 - d)
            a = rng.randrange(0, 12)
            b = M.float_encode((Fraction(10) ** d - Fraction(a, 4)) * Fraction(10) ** p, t)
            if b and rng.random() < 0.5:
                b = rng.choice([b] + M.float_neighbours(b))
            return 'carry', b or [0] * t
        if k < 0.85:
            # integer-valued, at most `digits` digits, and its neighbours
            nd = rng.randrange(1, d + 2)
            n = rng.randrange(10 ** (nd - 1), 10 ** nd)
            if rng.random() < 0.3:
                n = rng.choice([10 ** nd - 1, 10 ** (nd - 1), 10 ** nd])
            b = M.float_encode(-n if rng.random() < 0.3 else n, t)
            if rng.random() < 0.2:
                b = rng.choice(M.float_neighbours(b))
            return 'int', b
        if k < 0.93:
            # short decimal fractions k / 10^j
            j = rng.randrange(1, 12)
            b = M.float_encode(Fraction(rng.randrange(1, 10 ** rng.randrange(1, 8)), 10 ** j), t)
            return 'decfrac', b or [0] * t
        return 'extreme', [rng.randrange(256) for _ in range(t - 1)] + [rng.choice([1, 2, 3, 253, 254, 255])]

    @staticmethod
    def rand_digits(rng, nd):
        s = ''.join(rng.choice('0123456789') for _ in range(nd))
        if rng.random() < 0.2:
            s = s[:-rng.randrange(1, nd + 1)] + '0' * rng.randrange(0, 6)
        if rng.random() < 0.15:
            s = '0' * rng.randrange(1, 4) + s
        return s or '0'

    def rand_text(self, rng):
        nd = rng.choice([1, 2, 3, 5, 6, 7, 7, 8, 8, 9, 12, 15, 16, 16, 17, 17, 18, 20, rng.randrange(1, 21)])
        ds = self.rand_digits(rng, nd)
        k = rng.random()
        if k < 0.35:
            body = ds
        else:
            pt = rng.randrange(0, len(ds) + 1)
            body = ds[:pt] + '.' + ds[pt:]
        form = rng.choice(['', '', '', 'E', 'E', 'D', 'D', 'e', 'd', '!', '#'])
        s = body
        cls = 'plain'
        if form in ('E', 'D', 'e', 'd'):
            lim = 38 + (nd if rng.random() < 0.5 else 0)
            e = rng.choice([0, 1, 5, 37, 38, 39, 40, rng.randrange(0, 45), rng.randrange(0, lim + 1)])
            s += form + rng.choice(['', '+', '-', '-']) + (str(e) if rng.random() < 0.95 else '')
            cls = 'exp' + form.upper()
        elif form:
            s += form
            cls = 'sigil'
        if rng.random() < 0.3:
            s = rng.choice('+-') + s
        if rng.random() < 0.2:      # blanks anywhere
            for _ in range(rng.randrange(1, 4)):
                p = rng.randrange(0, len(s) + 1)
                s = s[:p] + rng.choice(' \t\n ') + s[p:]
            cls += '+blank'
        return cls, s.encode()

    @staticmethod
    def rand_malformed(rng):
        k = rng.random()
        pool = b'0123456789.+-EDed!#% \t\n\x1c\x1d\x1fXx,;:"$\x00\xff&'
        if k < 0.5:
            return 'mal:pool', bytes(rng.choice(pool) for _ in range(rng.randrange(0, 12)))
        if k < 0.8:
            w = bytearray(b'%d.%dE%d' % (rng.randrange(1000), rng.randrange(1000), rng.randrange(20)))
            for _ in range(rng.randrange(1, 3)):
                w.insert(rng.randrange(len(w) + 1), rng.choice(pool))
            if w.lstrip(b' \n')[:1] == b'&':
                w = b'1' + w
            return 'mal:insert', bytes(w)
        w = bytes(rng.randrange(256) for _ in range(rng.randrange(1, 8)))
        if w.lstrip(b' \n')[:1] == b'&':
            w = b'7' + w
        return 'mal:bytes', w

    # ---------------------------------------------------------------- implementation
    @staticmethod
    def enc_str(fn):
        try:
            s = fn()
            return [0, len(s)] + list(s)
        except Exception as e:      # noqa
            return common.canon_exc(e)

    def impl_print(self, t, b):
        from pcbasic.basic.values import values
        v = M.make_value(t, b)
        out = []
        for ls, ts in ((True, False), (False, False), (False, True), (True, True)):
            out += self.enc_str(lambda: values.to_repr(v, leading_space=ls, type_sign=ts))
        return out

    def impl_parse(self, w):
        from pcbasic.basic.values import numbers
        vals = M.values_obj()
        out = []
        for allow in (True, False):
            try:
                d, m, e = numbers.str_to_decimal(bytes(w), allow)
                out += [0, int(bool(d)), int(m), int(e)]
            except Exception as ex:     # noqa
                out += common.canon_exc(ex)
        with M.hard_errors():
            for allow in (True, False):
                out += M.run(lambda: vals.from_repr(bytes(w), allow))
        return out

    def impl_roundtrip(self, v):
        from pcbasic.basic.values import values
        vals = M.values_obj()
        try:
            s = values.to_repr(v, leading_space=True, type_sign=False)
        except Exception as e:      # noqa
            return common.canon_exc(e)
        with M.hard_errors():
            return [0, len(s)] + list(s) + M.run(lambda: vals.from_repr(s, True))

    def impl(self, case):
        from pcbasic.basic.values import values
        k = case['k']
        vals = M.values_obj()
        with core.time_limit(30):
            if k == 'p':
                out = self.impl_print(case['t'], case['b'])
                if case['t'] != 2:
                    v = M.make_value(case['t'], case['b'])
                    try:
                        m, e = v.to_decimal(v.digits)
                        out += [0, int(m), int(e)]
                    except Exception as ex:     # noqa
                        out += common.canon_exc(ex)
                return out
            if k == 'r':
                return self.impl_roundtrip(M.make_value(case['t'], case['b']))
            if k == 'e':
                return self.impl_e2e(case)
            if k == 's':
                return self.impl_parse(case['w'])
            if k == 'ss':
                return M.run(lambda: vals.from_repr(bytes(case['w']), True))
            if k == 'ev':
                with M.hard_errors():
                    return M.run(lambda: values.val_([M.make_value(3, case['w'])]))
            if k == 'st':
                return self.impl_step(case)
            if k == 'lt':
                return self.impl_list_token(case)
            if k == 'i':
                out = []
                for n in range(case['lo'], case['lo'] + SWEEP):
                    cls = vals.new_single if case['t'] == 4 else vals.new_double
                    out += self.impl_roundtrip(cls().from_int(n))
                return out
        raise ValueError(k)

    LT_PREFIX = b'10 PRINT '

    def impl_list_token(self, case):
        """LIST of a tokenised line `10 PRINT <number token>` fed to the Lister directly (token streams that
        PC-BASIC's own tokeniser need not produce, e.g. the one-byte constant 1Bh = 10)"""
        from pcbasic.basic.base.codestream import TokenisedStream
        lister = M.session()._impl.lister
        ins = TokenisedStream()
        ins.write(b'\x01\x01\x0a\x00\x91 ' + bytes(case['tok']) + b'\0')
        ins.seek(0)
        return self.enc_str(lambda: bytes(lister.detokenise_line(ins)[1]))

    @staticmethod
    def token_reading(tok):
        """independent reading of a number token: ('int', text) | ('float', t, bytes) | None"""
        lead, trail = tok[0], tok[1:]
        if 0x11 <= lead <= 0x1b and not trail:
            return 'int', b'%d' % (lead - 0x11)
        if lead == 0x0f and len(trail) == 1:
            return 'int', b'%d' % trail[0]
        if lead == 0x1c and len(trail) == 2:
            return 'int', b'%d' % M.int_value(trail)
        if lead in (0x0d, 0x0e) and len(trail) == 2:
            return 'int', b'%d' % (trail[0] + 256 * trail[1])
        if lead == 0x0b and len(trail) == 2:
            return 'int', b'&O%o' % (trail[0] + 256 * trail[1])
        if lead == 0x0c and len(trail) == 2:
            return 'int', b'&H%X' % (trail[0] + 256 * trail[1])
        if lead == 0x1d and len(trail) == 4:
            return 'float', 4, trail
        if lead == 0x1f and len(trail) == 8:
            return 'float', 8, trail
        return None

    def oracle_list_token(self, case, out):
        tok = case['tok']
        if out[:1] != [0]:
            return 'LIST of number token %r raised %r' % (bytes(tok), out)
        text = bytes(out[2:])
        rd = self.token_reading(tok)
        if rd is None:
            return None
        if not text.startswith(self.LT_PREFIX):
            return 'LIST of `10 PRINT <token %r>` gave %r' % (bytes(tok), text)
        num = text[len(self.LT_PREFIX):]
        if rd[0] == 'int':
            return None if num == rd[1] else ('LIST shows the constant token %s as %r, its value is %s'
                                              % (bytes(tok).hex(), num, rd[1].decode()))
        why = self.check_printed(rd[1], M.float_value(rd[2]), list(num), False, True)
        return ('LIST of token %s: ' % bytes(tok).hex() + why) if why else None

    def rand_list_token(self, rng):
        k = rng.random()
        if k < 0.30:
            return [rng.randrange(0x11, 0x1c)]
        if k < 0.40:
            return [0x0f, rng.choice([0, 9, 10, 11, 99, 100, 255, rng.randrange(256)])]
        if k < 0.55:
            return [rng.choice([0x1c, 0x0e, 0x0d, 0x0b, 0x0c])] + M.int_bytes(rng.choice(M.INT_POOL + [rng.randrange(-32768, 32768)]))
        t = rng.choice([4, 8])
        return [0x1d if t == 4 else 0x1f] + self.rand_float(rng, t)[1]

    def model_list_token(self, case):
        tok = case['tok']
        return '(c07_list %d %s)' % (tok[0], core.zl(tok[1:]))

    def impl_step(self, case):
        """one scaling step of the real Float class on a denormalised triple (exp, man, neg)"""
        vals = M.values_obj()
        obj = vals.new_single() if case['t'] == 4 else vals.new_double()
        den = (case['e'], case['m'], bool(case['n']))
        try:
            fn = (obj._div10_den, obj._mul10_den, obj._apply_carry_den)[case['op']]
            e, m, n = fn(den)
            return [0, int(e), int(m), int(bool(n))]
        except Exception as ex:     # noqa
            return common.canon_exc(ex)

    # end-to-end: the statements of the property text on a Session of their own
    _e2e = None

    def e2e_session(self):
        if C07._e2e is None:
            C07._e2e = common.new_session()
            C07._e2e.start()
        return C07._e2e

    def impl_e2e(self, case):
        """PRINT x / WRITE x / PRINT STR$(x) with x = CVS/CVD of the bytes; the output lines are compared
        with what the model's to_repr forms give"""
        s = self.e2e_session()
        cv = 'CVS' if case['t'] == 4 else 'CVD'
        arg = '+'.join('CHR$(%d)' % x for x in case['b'])
        sg = '!' if case['t'] == 4 else '#'
        res = s.execute('X%s=%s(%s):PRINT X%s:WRITE X%s:PRINT STR$(X%s)' % (sg, cv, arg, sg, sg, sg))
        if isinstance(res, str):
            res = res.encode('latin-1')
        return list(res)

    # ---------------------------------------------------------------- model
    def model_term(self, case):
        k = case['k']
        if k == 'p':
            v = M.coq_value(case['t'], case['b'])
            if case['t'] == 2:
                return '(c07_print %s)' % v
            return '(c07_print %s ++ c07_decimal %s %s)' % (v, coq_fmt(case['t']), core.zl(case['b']))
        if k == 'r':
            return '(c07_roundtrip %s)' % M.coq_value(case['t'], case['b'])
        if k == 'e':
            return '(c07_e2e %s)' % M.coq_value(case['t'], case['b'])
        if k == 's':
            return '(c07_parse %s)' % core.zl(case['w'])
        if k == 'ss':
            return '(c07_parse_soft %s)' % core.zl(case['w'])
        if k == 'ev':
            return '(enc_vres (from_repr true %s true))' % core.zl(case['w'])
        if k == 'i':
            return '(c07_int_sweep %s (%d) %d)' % (coq_fmt(case['t']), case['lo'], SWEEP)
        if k == 'lt':
            return self.model_list_token(case)
        if k == 'st':
            return '(c07_step %s %d (%d) %d %s)' % (coq_fmt(case['t']), case['op'], case['e'], case['m'],
                                                     'true' if case['n'] else 'false')
        raise ValueError(k)

    # ---------------------------------------------------------------- oracle
    def nontrivial(self, case, out):
        k = case['k']
        if k == 'e':
            return case['b'][-1] != 0
        if k in ('p', 'r'):
            return out[:1] == [0] and (case['t'] == 2 or case['b'][-1] != 0)
        if k in ('i', 'st', 'lt'):
            return True
        return out[:1] == [0] and any(48 < c <= 57 for c in case['w'])

    def check_printed(self, t, x, s, ls, ts):
        """every clause about one printed text s of the value x (Fraction) of type t"""
        pv = printed_value(bytes(s))
        if pv is None:
            return 'printed text %r is not a number' % bytes(s)
        d, unit, nsig, sig, letter = pv
        head = bytes(s[:1])
        if x < 0 and head != b'-':
            return 'negative value printed without minus sign: %r' % bytes(s)
        if x >= 0 and (head == b'-' or (head == b' ') != ls):
            return 'sign / leading space wrong in %r' % bytes(s)
        if t == 2:
            return None if d == x and not sig and not letter else 'integer %s printed as %r' % (x, bytes(s))
        digits = DIGITS[t]
        if nsig > digits:
            return '%d significant digits shown in %r (type allows %d)' % (nsig, bytes(s), digits)
        if abs(d - x) >= unit:
            return ('%r differs from the stored value %s by %.3f units of the last digit shown'
                    % (bytes(s), x, float(abs(d - x) / unit)))
        if letter and letter != {4: b'E', 8: b'D'}[t]:
            return 'wrong exponent letter in %r' % bytes(s)
        if sig and (not ts or sig != {4: b'!', 8: b'#'}[t]):
            return 'wrong type sigil in %r' % bytes(s)
        if x.denominator == 1 and abs(x) < 10 ** digits:
            want = (b'-' if x < 0 else (b' ' if ls else b'')) + (b'%d' % abs(x.numerator))
            if ts:
                want += {4: b'!', 8: b'#'}[t]
            if bytes(s) != want:
                return 'integer value %s printed as %r, not exactly as %r' % (x, bytes(s), want)
        return None

    def oracle_print(self, t, b, out):
        x = M.value_of(t, b)
        pos = 0
        for ls, ts in ((True, False), (False, False), (False, True), (True, True)):
            if out[pos] != 0:
                return 'printing raised %r' % (out[pos:pos + 2],)
            s, pos = split_str(out, pos)
            why = self.check_printed(t, x, s, ls, ts)
            if why:
                return why
        return None

    def oracle_value_back(self, x, piece, what):
        if piece[:1] != [0]:
            return '%s: reading the printed text back raised %r' % (what, piece)
        y = M.value_of(piece[1], piece[2:])
        return None if y == x else '%s: printed text reads back as %s, not %s' % (what, y, x)

    def oracle_roundtrip(self, t, x, out):
        if out[0] != 0:
            return 'printing raised %r' % (out[:2],)
        s, pos = split_str(out, 0)
        why = self.check_printed(t, x, s, True, False)
        if why:
            return why
        if x.denominator == 1 and abs(x) < 10 ** DIGITS[t]:
            piece, _ = split_vres(out, pos)
            return self.oracle_value_back(x, piece, 'integer %s' % x)
        return None

    def oracle_parse(self, w, out):
        pos = 0
        std = []
        for _ in range(2):
            p, pos = split_std(out, pos)
            std.append(p)
        reprs = []
        for _ in range(2):
            p, pos = split_vres(out, pos)
            reprs.append(p)
        for p in reprs:
            if p[:1] in ([2], [3]):
                return 'host exception %r escaped from from_repr(%r)' % (p, bytes(w))
        if bytes(w).lstrip(b' \n')[:1] == b'&':
            return None                 # hexadecimal / octal literal: property C03
        rd = literal_reading(bytes(w))
        if rd is None:
            return None                 # not a well-formed decimal literal: no clause of the property
        for p in reprs:
            why = self.check_read(w, rd, p)
            if why:
                return why
        if reprs[0] != reprs[1]:
            return 'well-formed literal %r read differently with allow_nonnum=False' % bytes(w)
        return None

    def check_read(self, w, rd, p):
        x = rd['value']
        if p[:1] == [1]:
            if p != [1, 6]:
                return 'well-formed literal %r raised BASIC error %d' % (bytes(w), p[1])
            t = rd['type']
            if t == 2 or abs(x) <= MAXV[t]:
                return 'Overflow reading %r although its value fits the type' % bytes(w)
            return None
        t = p[1]
        if t != rd['type']:
            return 'literal %r read as type %d, documented rule gives %d' % (bytes(w), t, rd['type'])
        y = M.value_of(t, p[2:])
        if t == 2:
            return None if y == x else 'integer literal %r read as %s' % (bytes(w), y)
        if x == 0:
            return None if y == 0 else 'zero literal %r read as %s' % (bytes(w), y)
        if abs(x) < MINV:
            # below the smallest number of the type: zero or that smallest number
            return None if abs(y) <= MINV else 'underflowing literal %r read as %s' % (bytes(w), y)
        u = ulp_at(x, t)
        if abs(y - x) >= u:
            return ('literal %r (mantissa %d) read with error %.3f units in the last binary place'
                    % (bytes(w), rd['mant'], float(abs(y - x) / u)))
        return None

    def oracle(self, case, out):
        k = case['k']
        if k == 'p':
            return self.oracle_print(case['t'], case['b'], out)
        if k == 'r':
            return self.oracle_roundtrip(case['t'], M.value_of(case['t'], case['b']), out)
        if k == 'i':
            pos = 0
            for n in range(case['lo'], case['lo'] + SWEEP):
                b = M.float_encode(n, case['t'])
                end = pos
                if out[pos] == 0:
                    _, end = split_str(out, pos)
                    _, end = split_vres(out, end)
                else:
                    end = pos + 2
                if M.float_value(b) == n:       # representable (always below 2^24 / 2^56)
                    why = self.oracle_roundtrip(case['t'], Fraction(n), out[pos:end])
                    if why:
                        return why
                pos = end
            return None
        if k == 's':
            return self.oracle_parse(case['w'], out)
        if k in ('ss', 'ev'):
            if out[:1] in ([2], [3]):
                return 'host exception %r escaped from from_repr(%r)' % (out, bytes(case['w']))
            rd = literal_reading(bytes(case['w']))
            if rd is None or bytes(case['w']).lstrip(b' \n')[:1] == b'&':
                return None
            if out[:1] == [0] and k == 'ss' and rd['type'] != 2 and abs(rd['value']) > MAXV[rd['type']]:
                # soft handler: Overflow is printed and the largest number of the sign is returned
                y = M.value_of(out[1], out[2:])
                return None if abs(y) == MAXV[out[1]] and (y < 0) == (rd['value'] < 0) else \
                    'soft Overflow result for %r is not the largest number of the sign' % bytes(case['w'])
            return self.check_read(case['w'], rd, out)
        if k == 'e':
            return self.oracle_e2e(case, out)
        if k == 'st':
            return self.oracle_step(case, out)
        if k == 'lt':
            return self.oracle_list_token(case, out)
        return 'unknown case kind'

    @staticmethod
    def oracle_step(case, out):
        """exact reading of the step bounds the accuracy clauses rest on (theorems C07_div10_step_partial,
        C07_mul10_step_partial, C07_carry_step_partial): value of a den = man * 2^exp"""
        hb = 1 << (M.MBITS[case['t']] - 1)
        e, m, op = case['e'], case['m'], case['op']
        name = ('_div10_den', '_mul10_den', '_apply_carry_den')[op]
        if out[:1] != [0]:
            return '%s raised %r on a normalised den' % (name, out)
        e2, m2, n2 = out[1], out[2], out[3]
        if n2 != case['n'] or not (256 * hb <= m2 < 512 * hb):
            return '%s: result (%d, %d) is not normalised / sign changed' % (name, e2, m2)
        x, y = Fraction(m) * Fraction(2) ** e, Fraction(m2) * Fraction(2) ** e2
        u = Fraction(2) ** e2
        if op == 0:
            ok = e - 4 <= e2 <= e - 3 and x / 10 - 2 * u <= y < x / 10
            if ok and e2 == e - 3:
                ok = x / 10 - u <= y
            return None if ok else ('_div10_den(%d, %d): result (%d, %d) is not within 1 (2 after renormalising) '
                                    'guard-bit units below the exact tenth' % (e, m, e2, m2))
        if op == 1:
            ok = e + 3 <= e2 <= e + 4 and abs(y - 10 * x) < u
            return None if ok else '_mul10_den(%d, %d): result (%d, %d) is a guard-bit unit or more off' % (e, m, e2, m2)
        ok = m2 % 256 == 0 and e <= e2 <= e + 1 and abs(y - x) <= 128 * Fraction(2) ** e
        return None if ok else '_apply_carry_den(%d, %d): result (%d, %d) is not the rounded mantissa' % (e, m, e2, m2)

    # ---------------------------------------------------------------- extra search
    def rand_step(self, rng):
        t = rng.choice([4, 8])
        hb = 1 << (M.MBITS[t] - 1)
        k = rng.random()
        if k < 0.5:
            m = rng.randrange(256 * hb, 512 * hb)
        elif k < 0.8:
            base = rng.choice([256 * hb, 320 * hb, 409 * hb, 512 * hb, 2559999744 if t == 4 else 10239999999999999744,
                               4095999744 if t == 4 else 16383999999999999744])
            m = min(max(base + rng.randrange(-600, 600), 256 * hb), 512 * hb - 1)
        else:
            m = (rng.randrange(hb, 2 * hb) << 8) | rng.choice([0, 0, 127, 128, 129, 255])
        op = rng.choice([0, 0, 0, 1, 1, 2])
        e = rng.randrange(0, 256) if op else rng.randrange(-60, 256)
        return {'k': 'st', 't': t, 'op': op, 'e': e, 'm': m, 'n': rng.randrange(2)}

    def worst_case(self, rng):
        """inputs with the longest scaling loops: exponent extremes for printing, extreme decimal exponents with
        full-length mantissas for reading"""
        r = rng.random()
        if r < 0.5:
            t = rng.choice([4, 8])
            b = [rng.randrange(256) for _ in range(t - 1)] + [rng.choice([1, 2, 3, 4, 5, 6, 250, 251, 252, 253, 254, 255])]
            return {'k': 'p', 't': t, 'b': b}
        nd = rng.choice([7, 16, 16, 15, 6])
        ds = str(rng.randrange(10 ** (nd - 1), 10 ** nd))
        if rng.random() < 0.7:
            e = -rng.randrange(30, 39 + nd)
        else:
            e = rng.randrange(38 - nd, 39)
        s = '%s%s%d' % (ds, 'E' if nd <= 7 else 'D', e)
        return {'k': 's', 'w': list(s.encode())}

    def extra_search(self, budget_s):
        """when the proofs / tie are broken and the regular cases did not fail: first the property oracle on
        worst-case inputs (long loops), then the proved step bounds on the real scaling routines"""
        import time
        t0 = time.time()
        rng = self.rng
        n = 0
        while time.time() - t0 < budget_s:
            n += 1
            case = self.worst_case(rng) if (time.time() - t0 < budget_s / 2 and n % 2) else self.rand_step(rng)
            try:
                out = self.impl(case)
                why = self.oracle(case, out)
            except Exception as ex:     # noqa
                continue
            if why:
                yield case, out, why
                return

    def oracle_e2e(self, case, out):
        x = M.value_of(case['t'], case['b'])
        lines = bytes(out).split(b'\r\n')
        if len(lines) < 3:
            return 'PRINT/WRITE/STR$ produced %r' % bytes(out)
        pr, wr, st = lines[0], lines[1], lines[2]
        for s, ls, what in ((pr[:-1] if pr.endswith(b' ') else pr, True, 'PRINT'), (wr, False, 'WRITE'),
                            (st, True, 'STR$')):
            why = self.check_printed(case['t'], x, list(s), ls, False)
            if why:
                return what + ': ' + why
        return None

    # ---------------------------------------------------------------- known finding K07a
    @staticmethod
    def k07a_class(w):
        """the literal's decimal mantissa does not fit the mantissa of the type it is read as"""
        rd = literal_reading(bytes(w))
        if rd is None or rd['type'] == 2:
            return False
        return rd['mant'] >= 2 ** M.MBITS[rd['type']]

    def known_match(self, finding, case, out):
        if finding.get('id') != 'K07a' or case.get('k') not in ('s', 'ss', 'ev'):
            return False
        why = self.oracle(case, out)
        return bool(why) and 'units in the last binary place' in why and self.k07a_class(case['w'])

    def known_rerun(self, finding):
        if finding.get('id') != 'K07a':
            return True
        w = finding['witness']['text'].encode()
        case = {'k': 's', 'w': list(w)}
        out = self.impl(case)
        return self.known_match(finding, case, out)

    def describe(self, case):
        d = dict(case)
        if 'w' in d:
            d['text'] = repr(bytes(d['w']))
        return d

    def shrink_candidates(self, case):
        if 'w' in case:
            w = case['w']
            for i in range(len(w)):
                d = dict(case)
                d['w'] = w[:i] + w[i + 1:]
                yield d
        elif case.get('k') in ('p', 'r', 'e') and case.get('t') in (4, 8):
            b = case['b']
            for i in range(len(b) - 2):
                if b[i]:
                    d = dict(case)
                    d['b'] = b[:i] + [0] + b[i + 1:]
                    yield d


CHECK = C07
